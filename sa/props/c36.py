"""C36 - SSH channels respect flow control and flush before closing."""
from __future__ import annotations

import itertools
import struct

from sa.selftest import Mutant, Silent
from sa.source import AnalysisError
from sa.props._lib_h_d import MiniVM, VMError, VMModule, VMStub

PROPERTY = "C36"
CH = "conch/ssh/channel.py"
CO = "conch/ssh/connection.py"
CMN = "conch/ssh/common.py"
QC = "twisted.conch.ssh.channel.SSHChannel"
QN = "twisted.conch.ssh.connection.SSHConnection"
TECHNIQUE = ("structural: CFG dominance by normalised window inequalities (lincmp), coupled-update path rules (decrement exactly once per send), exact guard sets "
             "and sibling agreement on the normalised view of SSHChannel / SSHConnection; second layer (bounded): the source interpreted over operation histories")
RULE_KINDS = {
    "s/": "structural",
    "sender/": "bounded",
    "receiver/": "bounded",
}
EXPLANATION = (
    "Two layers. Rules named s/... are STRUCTURAL (decided on the normalised code: private helpers inlined, tuple assignments split, named temporaries resolved "
    "flow-sensitively; nothing evaluated) and give the for-all verdict; sender/... and receiver/... are BOUNDED (source interpreted on enumerated histories) and serve "
    "as witnesses and as cover where a structural group abstains (written as a note 's/<group>: shape not recognised ...; clause left to ...'). Per clause: "
    "[send only within the window] s/window/clamp: every path to a send passes the test `len <= remoteWindowLeft` (normalised linear inequality) or the "
    "truncation that establishes it; s/split/at-window, s/split/complete: on the overflow edge the data is cut at the window, the rest (taken from the "
    "untruncated data, same boundary) is buffered under its type; s/window/decrement-matches-sent, s/window/decrement-once: remoteWindowLeft is reduced on "
    "every path after a send, exactly once, by exactly the amount handed to the connection, and on no path that sends nothing - structural. "
    "[packet size] s/packet-size/piece-width: slice width / guard equals remoteMaxPacket (lin) - structural. "
    "[order] s/order/send-only-if-buffer-empty (send sites dominated by the buffer-empty edge), s/order/append-at-tail-while-buffered, "
    "s/order/merge-same-type-only, s/order/advance-by-sent - structural. "
    "[re-write on WINDOW_ADJUST] s/window/credit, s/window/credit-before-rewrite (must-precede), s/flush/rewrites-buffer, s/flush/swap-before-rewrite, "
    "s/flush/in-order - structural. "
    "[flush before close] s/close/sent-from-loseConnection (who may send CLOSE), s/close/only-when-flushed (CLOSE dominated by both-buffers-empty edges), "
    "s/close/recorded, s/close/recheck-after-drain (every draining function re-checks `closing` on every path to its exit), "
    "s/close/waits-for-swapped-out-entries (entries held in a local during the re-write loop are invisible to loseConnection's guard, so the close must be held back "
    "for the loop: finding F36a, repaired by fix c59cdff, revert mutants in MUTANTS; also witnessed by the bounded rule sender/close-after-flush); outside loseConnection "
    "`closing` may only be written as a save / mask / restore bracket whose restore lies on every path incl. exception exits and is followed by a retry - structural. "
    "[receiver] s/receive/window-boundary, s/receive/max-packet-boundary: delivery and window charge are guarded by exactly `length <= localWindowLeft` and "
    "`length <= localMaxPacket` in normal form (boundary constant 0: equality accepted, one more refused); s/receive/overrun-closes, s/receive/window-decrement "
    "(once, by the received length, before delivery), s/receive/replenish (amount localWindowSize - localWindowLeft by lin, after the charge, checked after every "
    "message), s/receive/replenish-only-threshold-suppresses and s/adjust/only-closed-suppresses (exact guard sets), s/adjust/local-equals-advertised, "
    "s/receive/header-format, s/receive/payload-offset - structural. "
    "[addressing] s/send/remote-channel-id, s/send/message-type, s/send/whole-piece, s/send/nothing-after-close, s/writeSequence/through-write - structural. "
    "Bounded evidence only: completeness of the stream after an arbitrary history (sender/stream-complete-in-order) and the receiver's liveness against a "
    "window-respecting peer (receiver/respecting-peer-never-refused, receiver/window-replenished) are properties of histories; the structural rules decide "
    "their per-step ingredients (split complete, append at tail, swap before re-write, exact boundaries, replenish amount) but the composition over histories "
    "is shown only on the enumerated ones. Not decided: liveness for a local window of 1 (never replenished, a known upstream limitation), interleaving "
    "of the two outgoing streams relative to each other."
)
ASSUMPTIONS = [
    "stopWriting/startWriting/closed and the channel's dataReceived/extReceived are opaque call-outs that do not write to the channel re-entrantly",
    "the transport's sendPacket(type, payload) sends exactly that message (C35)",
]

DATA, EXT, ADJUST, EOF_, CLOSE = 94, 95, 93, 96, 97      # RFC 4254
REMOTE_ID = 7


class Transport(VMStub):
    def __init__(self):
        self.sent = []

    def sendPacket(self, mt, payload):
        self.sent.append((mt, bytes(payload)))

    def getPeer(self):
        return None

    getHost = getPeer


class Log(VMStub):
    def info(self, *a, **k):
        return None
    debug = failure = error = warn = info


class ModelFailure(Exception):
    pass


class Model:
    def __init__(self, ctx):
        self.received = []
        hooks = {"dataReceived": lambda vm, o, d: self.received.append((0, bytes(d))),
                 "extReceived": lambda vm, o, t, d: self.received.append((t, bytes(d))),
                 "closed": lambda vm, o: None, "startWriting": lambda vm, o: None, "stopWriting": lambda vm, o: None}
        from sa.props._lib_h import xvm
        self.vm = xvm(ctx.mod(CO), hooks=hooks, budget=2 * 10 ** 8)
        self.vm.mod._g["common"] = VMModule(ctx.mod(CMN), self.vm)
        self.chmod = VMModule(ctx.mod(CH), self.vm)
        self.Chan = self.chmod.globals_lookup("SSHChannel")
        self.Conn = self.vm.cls("SSHConnection")

    def call(self, obj, name, *args):
        try:
            return self.vm.call_method(obj, name, *args)
        except VMError as e:
            raise AnalysisError(f"C36: {name}: construct outside the interpreter's subset: {e}")
        except AnalysisError:
            raise
        except Exception as e:
            raise ModelFailure(f"{type(e).__name__}: {e}")

    def fresh(self, lw, lmp, rw, rmp):
        del self.received[:]
        conn = self.vm.new(self.Conn)
        conn.attrs["transport"] = Transport()
        conn.attrs["_log"] = Log()
        ch = self.vm.new(self.Chan, lw, lmp, rw, rmp, conn)
        ch.attrs["_log"] = Log()
        ch.attrs["id"] = 0
        conn.attrs["channels"][0] = ch
        conn.attrs["channelsToRemoteChannel"][ch] = REMOTE_ID
        conn.attrs["localToRemoteChannel"][0] = REMOTE_ID
        return conn, ch, conn.attrs["transport"]


def _parse(msg):
    """(kind, remote id, extended type, data / amount); a message too short for its fixed fields is ("malformed", ...)"""
    try:
        return _parse_fields(msg)
    except struct.error:
        return "malformed", None, 0, None


def _parse_fields(msg):
    mt, p = msg
    rid = struct.unpack(">L", p[:4])[0] if len(p) >= 4 else None
    if mt == DATA:
        n = struct.unpack(">L", p[4:8])[0]
        return "data", rid, 0, p[8:8 + n] if len(p) == 8 + n else None
    if mt == EXT:
        t, n = struct.unpack(">2L", p[4:12])
        return "ext", rid, t, p[12:12 + n] if len(p) == 12 + n else None
    if mt == ADJUST:
        return "adjust", rid, 0, struct.unpack(">L", p[4:8])[0]
    if mt == CLOSE:
        return "close", rid, 0, None
    if mt == EOF_:
        return "eof", rid, 0, None
    return "other", rid, 0, None


OPS = [("w", b"abcdefgh"), ("w", b"XY"), ("e", 1, b"EFGHIJ"), ("e", 2, b"zz"), ("a", 1), ("a", 4), ("a", 100), ("c",)]
SENDER_CONFIGS = [(0, 1), (1, 1), (3, 2), (5, 3), (10, 4), (100, 100)]


def _histories():
    for n in (1, 2):
        yield from itertools.product(OPS, repeat=n)
    yield from itertools.product([o for o in OPS if o not in (("w", b"XY"), ("a", 1))], repeat=3)
    # longer histories: both buffers pending, close requested, window trickling in
    yield (OPS[0], OPS[2], ("c",), ("a", 100))
    yield (OPS[0], OPS[2], ("c",), ("a", 4), ("a", 4), ("a", 100))
    yield (OPS[2], OPS[0], OPS[3], ("c",), ("a", 1), ("a", 1), ("a", 100))
    yield (OPS[0], ("c",), ("a", 1), ("a", 4), ("a", 1), ("a", 100))
    yield (OPS[2], OPS[3], OPS[2], ("a", 4), OPS[0], ("c",), ("a", 100))
    x = 12345
    for _ in range(60):
        h = []
        for _ in range(5 + x % 3):
            x = (x * 1103515245 + 12345) & 0x7FFFFFFF
            h.append(OPS[(x >> 8) % len(OPS)])
        yield tuple(h)


def _fmt(history):
    return " ; ".join({"w": "write", "e": "writeExtended", "a": "addWindowBytes", "c": "loseConnection"}[o[0]] + repr(o[1:]) for o in history)


def check_sender(ctx, m):
    q = QC + " | <sender histories>"
    found = {}
    n_runs = 0
    for rw, rmp in SENDER_CONFIGS:
        for history in _histories():
            if rw >= 100 and len(history) == 3:
                continue            # nothing is ever buffered with an ample window: the short histories suffice
            n_runs += 1
            conn, ch, tr = m.fresh(64, 16, rw, rmp)
            granted = rw
            written = {"data": b"", "ext": []}
            close_requested = False
            steps = list(history) + [("a", 1000)]            # one sufficient grant must flush everything
            problem = None
            seen = 0
            for i, op in enumerate(steps):
                already_closed = any(x[0] == CLOSE for x in tr.sent)      # writing to a channel whose CLOSE went out is not part of the property
                try:
                    if op[0] == "w":
                        if not already_closed:
                            written["data"] += op[1]
                        m.call(ch, "write", op[1])
                    elif op[0] == "e":
                        if not already_closed:
                            written["ext"] += [(op[1], b) for b in op[2]]
                        m.call(ch, "writeExtended", op[1], op[2])
                    elif op[0] == "a":
                        granted += op[1]
                        m.call(conn, "ssh_CHANNEL_WINDOW_ADJUST", struct.pack(">2L", 0, op[1]))
                    else:
                        close_requested = True
                        m.call(ch, "loseConnection")
                except ModelFailure as e:
                    problem = ("sender/no-exception", f"raises {e}")
                    break
                sent_data, sent_ext, total, closed_at = b"", [], 0, None
                for k, msg in enumerate(tr.sent):
                    kind, rid, t, d = _parse(msg)
                    if kind in ("data", "ext", "close", "eof", "adjust") and rid != REMOTE_ID:
                        problem = problem or ("sender/addressed-to-remote-id", f"a {kind} message is addressed to channel {rid}; the peer knows this channel as {REMOTE_ID} (our local id is 0)")
                    if kind in ("data", "ext"):
                        if d is None:
                            problem = problem or ("sender/message-format", "a data message whose string length does not match its payload")
                            continue
                        if closed_at is not None:
                            problem = problem or ("sender/close-after-flush", "data is sent after CHANNEL_CLOSE")
                        if len(d) > rmp:
                            problem = problem or ("sender/max-packet-respected", f"a message carries {len(d)} bytes; the peer accepts at most {rmp}")
                        total += len(d)
                        if kind == "data":
                            sent_data += d
                        else:
                            sent_ext += [(t, b) for b in d]
                    elif kind == "close":
                        if closed_at is not None:
                            problem = problem or ("sender/close-after-flush", "CHANNEL_CLOSE is sent twice")
                        closed_at = k
                        if not close_requested:
                            problem = problem or ("sender/close-after-flush", "CHANNEL_CLOSE is sent although no close was requested")
                        if k >= seen and (sent_data != written["data"] or sent_ext != written["ext"]):
                            problem = problem or ("sender/close-after-flush",
                                                  f"CHANNEL_CLOSE is sent while {len(written['data']) - len(sent_data)} byte(s) of data and "
                                                  f"{len(written['ext']) - len(sent_ext)} byte(s) of extended data written earlier are still unsent: they are never delivered")
                seen = len(tr.sent)
                if total > granted:
                    problem = problem or ("sender/window-respected", f"{total} bytes have been sent but the peer granted only {granted} so far")
                if not written["data"].startswith(sent_data):
                    problem = problem or ("sender/stream-complete-in-order", f"the data stream sent ({sent_data!r}) is not a prefix of what was written ({written['data']!r})")
                if written["ext"][:len(sent_ext)] != sent_ext:
                    problem = problem or ("sender/stream-complete-in-order", "the extended data sent is not a prefix of what was written (reordered, duplicated or altered)")
                if problem:
                    break
            if not problem:
                if sent_data != written["data"] or sent_ext != written["ext"]:
                    if closed_at is None or True:
                        problem = ("sender/stream-complete-in-order",
                                   f"with ample window granted at the end, {len(written['data']) - len(sent_data)} byte(s) of data / {len(written['ext']) - len(sent_ext)} of extended data are never sent")
                elif close_requested and closed_at is None:
                    problem = ("sender/close-after-flush", "a requested close is never sent although all data has been flushed")
            if problem:
                # histories that queue extended data of two different types exercise one more mechanism (several buffered entries)
                multi = len({op[1] for op in history if op[0] == "e"}) > 1
                key = (problem[0], multi and problem[0] in ("sender/close-after-flush", "sender/stream-complete-in-order"))
                if key not in found:
                    found[key] = (rw, rmp, history, i, problem[1])
    ctx.extra["sender_runs"] = n_runs
    for rule in ("sender/no-exception", "sender/addressed-to-remote-id", "sender/message-format", "sender/max-packet-respected", "sender/window-respected",
                 "sender/stream-complete-in-order", "sender/close-after-flush"):
        for multi in (False, True):
            if multi and rule not in ("sender/close-after-flush", "sender/stream-complete-in-order"):
                continue
            f = found.get((rule, multi))
            ctx.check(f is None, rule, q + (" | several extended-data entries buffered" if multi else ""),
                      (f"remote window {f[0]}, remote max packet {f[1]}, history [{_fmt(f[2])}] then ample window: at step {f[3] + 1} {f[4]}") if f else "",
                      detail=f"{n_runs} histories")
    ctx.floor("sender/window-respected", n_runs, 1700, "histories")
    # writeSequence is write of the concatenation
    conn, ch, tr = m.fresh(64, 16, 100, 100)
    try:
        m.call(ch, "writeSequence", [b"ab", b"", b"cde"])
        got = b"".join(_parse(x)[3] or b"" for x in tr.sent if x[0] == DATA)
    except ModelFailure as e:
        got = str(e)
    ctx.check(got == b"abcde", "sender/writeSequence", QC + ".writeSequence", f"writeSequence([b'ab', b'', b'cde']) sends {got!r}")


RECV_CONFIGS = [(2, 1, 50, 50), (4, 2, 50, 1), (10, 4, 3, 2), (10, 100, 50, 3), (64, 16, 0, 1)]


def _peer_run(m, lw, lmp, rw, rmp, ext, chunking, close_pending):
    """simulate a peer that respects what we advertise; -> problem text or None"""
    conn, ch, tr = m.fresh(lw, lmp, rw, rmp)
    if close_pending:
        m.call(ch, "write", b"q" * (rw + 3))        # cannot all be sent: stays buffered
        m.call(ch, "loseConnection")                # close requested, waits for the buffer to drain
    payload = bytes((48 + i % 70) for i in range(3 * lw + 5))
    pw = lw
    off, k, seen = 0, 0, len(tr.sent)
    while off < len(payload):
        if pw <= 0:
            return f"after {off} bytes the advertised window is exhausted and no CHANNEL_WINDOW_ADJUST arrives: the peer can never send its remaining {len(payload) - off} bytes"
        size = min(pw, lmp, len(payload) - off)
        if chunking == "bytewise":
            size = 1
        elif chunking == "alternating" and k % 2:
            size = max(1, size // 2)
        chunk = payload[off:off + size]
        pkt = struct.pack(">2L", 0, len(chunk)) + chunk if not ext else struct.pack(">3L", 0, 1, len(chunk)) + chunk
        m.call(conn, "ssh_CHANNEL_EXTENDED_DATA" if ext else "ssh_CHANNEL_DATA", pkt)
        off += size
        pw -= size
        k += 1
        for msg in tr.sent[seen:]:
            kind, rid, t, d = _parse(msg)
            if kind == "close":
                return f"a peer that respects the window ({lw}) and maximum packet size ({lmp}) is answered with CHANNEL_CLOSE after sending {off} bytes (message of {size} bytes)"
            if kind == "adjust":
                if rid != REMOTE_ID:
                    return f"WINDOW_ADJUST is addressed to channel {rid}, the peer knows the channel as {REMOTE_ID}"
                pw += d
        seen = len(tr.sent)
        if ch.attrs.get("localWindowLeft") != pw:
            return (f"after {off} bytes our bookkeeping says {ch.attrs.get('localWindowLeft')} bytes of window are left but {pw} were advertised to the peer: "
                    "a peer using its window will be refused / more is accepted than advertised")
    want = [((1 if ext else 0), payload)]
    got = {}
    for t, d in m.received:
        got[t] = got.get(t, b"") + d
    if got != {want[0][0]: payload}:
        return "the data delivered to the channel is not exactly what the peer sent, in order"
    return None


def check_receiver(ctx, m):
    q = QN + " | <respecting peer>"
    found = {}
    n = 0
    for lw, lmp, rw, rmp in RECV_CONFIGS:
        for ext in (False, True):
            for chunking in ("greedy", "bytewise", "alternating"):
                for close_pending in (False, True):
                    n += 1
                    try:
                        p = _peer_run(m, lw, lmp, rw, rmp, ext, chunking, close_pending)
                    except ModelFailure as e:
                        p = f"raises {e}"
                    if p:
                        rule = "receiver/window-replenished" if "no CHANNEL_WINDOW_ADJUST" in p else "receiver/bookkeeping-equals-advertised" if "bookkeeping" in p else \
                            "receiver/respecting-peer-never-refused" if "CLOSE" in p else "receiver/delivered-in-order"
                        found.setdefault(rule, f"local window {lw}, local max packet {lmp} (remote {rw}/{rmp}), {'extended ' if ext else ''}data, {chunking} chunks"
                                         f"{', our own close pending' if close_pending else ''}: {p}")
    for rule in ("receiver/respecting-peer-never-refused", "receiver/window-replenished", "receiver/bookkeeping-equals-advertised", "receiver/delivered-in-order"):
        ctx.check(rule not in found, rule, q, found.get(rule, ""), detail=f"{n} peer simulations")
    ctx.floor("receiver/respecting-peer-never-refused", n, 40, "peer simulations")
    # boundaries
    for ext in (False, True):
        name = "ssh_CHANNEL_EXTENDED_DATA" if ext else "ssh_CHANNEL_DATA"
        for lw, lmp, size, accept, what in ((10, 100, 10, True, "exactly the window"), (10, 100, 11, False, "one byte more than the window"),
                                            (100, 4, 4, True, "exactly the maximum packet size"), (100, 4, 5, False, "one byte more than the maximum packet size")):
            conn, ch, tr = m.fresh(lw, lmp, 50, 2)
            data = b"d" * size
            pkt = struct.pack(">3L", 0, 1, size) + data if ext else struct.pack(">2L", 0, size) + data
            try:
                m.call(conn, name, pkt)
                closed = any(_parse(x)[0] == "close" for x in tr.sent)
                delivered = b"".join(d for t, d in m.received)
                ok = (delivered == data and not closed) if accept else (delivered == b"" and closed)
                desc = f"delivered {len(delivered)} bytes, CLOSE {'sent' if closed else 'not sent'}"
            except ModelFailure as e:
                ok, desc = False, f"raises {e}"
            ctx.check(ok, "receiver/limit-boundaries", f"{QN}.{name} | {what}",
                      f"a message of {what} (window {lw}, max packet {lmp}, {size} bytes) must be {'accepted' if accept else 'refused with CLOSE and not delivered'}: {desc}")
    # adjustWindow / nothing after close
    conn, ch, tr = m.fresh(10, 4, 50, 50)
    try:
        m.call(conn, "adjustWindow", ch, 5)
        msgs = [_parse(x) for x in tr.sent]
        ok = msgs == [("adjust", REMOTE_ID, 0, 5)] and ch.attrs.get("localWindowLeft") == 15
        desc = f"messages {msgs}, localWindowLeft {ch.attrs.get('localWindowLeft')}"
    except ModelFailure as e:
        ok, desc = False, f"raises {e}"
    ctx.check(ok, "receiver/bookkeeping-equals-advertised", QN + ".adjustWindow", f"adjustWindow(channel, 5) on a window of 10: {desc}")
    conn, ch, tr = m.fresh(10, 4, 50, 50)
    try:
        m.call(ch, "loseConnection")
        n0 = len(tr.sent)
        m.call(ch, "write", b"late")
        m.call(ch, "writeExtended", 1, b"late")
        m.call(conn, "adjustWindow", ch, 3)
        m.call(conn, "sendEOF", ch)
        m.call(ch, "loseConnection")
        extra = [_parse(x)[0] for x in tr.sent[n0:]]
        ok = [_parse(x)[0] for x in tr.sent[:n0]] == ["close"] and not extra
        desc = f"after CLOSE the channel still sends {extra}"
    except ModelFailure as e:
        ok, desc = False, f"raises {e}"
    ctx.check(ok, "sender/nothing-after-close", QN + " | <after CHANNEL_CLOSE>", desc)


def check(ctx):
    from sa.props._lib_h_s36 import structural
    structural(ctx)
    m = Model(ctx)
    with ctx.section("model/sender-histories"):
        check_sender(ctx, m)
    with ctx.section("model/receiver"):
        check_receiver(ctx, m)


MUTANTS = [
    Mutant("no-top-up-while-close-pending", CO, "        if channel.localWindowLeft < channel.localWindowSize // 2:\n            self.adjustWindow(\n                channel, channel.localWindowSize - channel.localWindowLeft\n            )\n        channel.dataReceived(data)",
           "        if not channel.closing and channel.localWindowLeft < channel.localWindowSize // 2:\n            self.adjustWindow(\n                channel, channel.localWindowSize - channel.localWindowLeft\n            )\n        channel.dataReceived(data)",
           expect_rule="receiver/window-replenished"),
    Mutant("write-named-slice-end-too-long", CH, "        for offset in r:\n            write(self, data[offset : offset + rmp])\n", "        for offset in r:\n            end = offset + rmp + 1\n            write(self, data[offset:end])\n",
           expect_rule="sender/max-packet-respected"),
    Mutant("receiver-named-limit-off-by-one", CO, "        if dataLength > channel.localWindowLeft or dataLength > channel.localMaxPacket:\n            self._log.error(\"too much extdata\")",
           "        room = channel.localWindowLeft - 1\n        if dataLength > room or dataLength > channel.localMaxPacket:\n            self._log.error(\"too much extdata\")", expect_rule="receiver/limit-boundaries"),
    Mutant("send-before-truncating", CH, "            top = self.remoteWindowLeft\n        rmp = self.remoteMaxPacket", "        rmp = self.remoteMaxPacket", expect_rule="sender/window-respected"),
    Mutant("close-with-nonempty-extbuf", CH, "        if not self.buf and not self.extBuf:\n            self.conn.sendClose(self)", "        if not self.buf:\n            self.conn.sendClose(self)",
           expect_rule="sender/close-after-flush"),
    Mutant("forget-decrement-last-piece", CH, "            self.conn.sendExtendedData(self, dataType, data)\n            self.remoteWindowLeft -= len(data)\n", "            self.conn.sendExtendedData(self, dataType, data)\n",
           expect_rule="sender/window-respected"),
    Mutant("rest-off-by-one", CH, "                data[: self.remoteWindowLeft],\n                data[self.remoteWindowLeft :],\n            )\n            self.areWriting = 0\n            self.stopWriting()\n            top",
           "                data[: self.remoteWindowLeft],\n                data[self.remoteWindowLeft + 1 :],\n            )\n            self.areWriting = 0\n            self.stopWriting()\n            top", expect_rule="sender/stream-complete-in-order"),
    Mutant("piece-uses-local-max-packet", CH, "        rmp = self.remoteMaxPacket\n", "        rmp = self.localMaxPacket\n", expect_rule="sender/max-packet-respected"),
    Mutant("rewrite-without-swap", CH, "            b = self.buf\n            self.buf = b\"\"\n            self.write(b)\n", "            b = self.buf\n            self.write(b)\n", expect_rule="sender/stream-complete-in-order"),
    Mutant("credit-after-rewrite", CH, "        self.remoteWindowLeft = self.remoteWindowLeft + data\n        if not self.areWriting and not self.closing:\n            self.areWriting = True\n            self.startWriting()\n        if self.buf:\n            b = self.buf\n            self.buf = b\"\"\n            self.write(b)\n",
           "        if not self.areWriting and not self.closing:\n            self.areWriting = True\n            self.startWriting()\n        if self.buf:\n            b = self.buf\n            self.buf = b\"\"\n            self.write(b)\n        self.remoteWindowLeft = self.remoteWindowLeft + data\n",
           expect_rule="sender/stream-complete-in-order"),
    Mutant("receiver-refuses-exact-window", CO, "            dataLength > channel.localWindowLeft or dataLength > channel.localMaxPacket\n        ):  # more data than we want",
           "            dataLength >= channel.localWindowLeft or dataLength > channel.localMaxPacket\n        ):  # more data than we want", expect_rule="receiver/limit-boundaries"),
    Mutant("adjust-not-recorded-locally", CO, "        channel.localWindowLeft += bytesToAdd\n", "", expect_rule="receiver/bookkeeping-equals-advertised"),
    Mutant("ext-decrement-missing", CO, "        data = common.getNS(packet[8:])[0]\n        channel.localWindowLeft -= dataLength\n", "        data = common.getNS(packet[8:])[0]\n", expect_rule="receiver/bookkeeping-equals-advertised"),
    Mutant("data-addressed-with-local-id", CO, "            struct.pack(\">L\", self.channelsToRemoteChannel[channel]) + common.NS(data),", "            struct.pack(\">L\", channel.id) + common.NS(data),",
           expect_rule="sender/addressed-to-remote-id"),
    Mutant("buffered-data-sent-ahead", CH, "        if self.buf:\n            self.buf += data\n            return\n        top = len(data)", "        top = len(data)", expect_rule="sender/stream-complete-in-order"),
    Mutant("ext-merge-into-first", CH, "            if self.extBuf[-1][0] == dataType:\n                self.extBuf[-1][1] += data", "            if self.extBuf[0][0] == dataType:\n                self.extBuf[0][1] += data",
           expect_rule="sender/stream-complete-in-order"),
    # the same faults must be caught by the structural / finite-exhaustive layer alone
    Mutant('s-adjust-suppressed-after-remote-close', CO, '        if channel.localClosed:\n            return  # we\'re already closed\n        packet = struct.pack(">2L", self.channelsToRemoteChannel[channel], bytesToAdd)',
           '        if channel.localClosed or channel.remoteClosed:\n            return  # we\'re already closed\n        packet = struct.pack(">2L", self.channelsToRemoteChannel[channel], bytesToAdd)', expect_rule='s/adjust/only-closed-suppresses'),
    Mutant('s-send-before-truncating', CH, '            top = self.remoteWindowLeft\n        rmp = self.remoteMaxPacket',
           '        rmp = self.remoteMaxPacket', expect_rule='s/window/clamp'),
    Mutant('s-close-with-nonempty-extbuf', CH, '        if not self.buf and not self.extBuf:\n            self.conn.sendClose(self)',
           '        if not self.buf:\n            self.conn.sendClose(self)', expect_rule='s/close/only-when-flushed'),
    Mutant('s-forget-decrement-last-piece', CH, '            self.conn.sendExtendedData(self, dataType, data)\n            self.remoteWindowLeft -= len(data)\n',
           '            self.conn.sendExtendedData(self, dataType, data)\n', expect_rule='s/window/decrement-matches-sent'),
    Mutant('s-rewrite-without-swap', CH, '            b = self.buf\n            self.buf = b""\n            self.write(b)\n',
           '            b = self.buf\n            self.write(b)\n', expect_rule='s/flush/swap-before-rewrite'),
    Mutant('s-receiver-refuses-exact-window', CO, '            dataLength > channel.localWindowLeft or dataLength > channel.localMaxPacket\n        ):  # more data than we want',
           '            dataLength >= channel.localWindowLeft or dataLength > channel.localMaxPacket\n        ):  # more data than we want', expect_rule='s/receive/window-boundary'),
    # revert of fix commit c59cdff (F36a), reported on the finding's constructs by both layers; and two incomplete versions of the repair
    Mutant("revert-F36a-close-after-first-swapped-out-entry", CH, '            closing = self.closing\n            self.closing = False\n            try:\n                for type, data in b:\n                    self.writeExtended(type, data)\n            finally:\n                self.closing = closing\n            if closing:\n                self.loseConnection()  # try again\n',
           '            for type, data in b:\n                self.writeExtended(type, data)\n', expect_rule="sender/close-after-flush"),
    Mutant("revert-F36a-close-after-first-swapped-out-entry-structural", CH, '            closing = self.closing\n            self.closing = False\n            try:\n                for type, data in b:\n                    self.writeExtended(type, data)\n            finally:\n                self.closing = closing\n            if closing:\n                self.loseConnection()  # try again\n',
           '            for type, data in b:\n                self.writeExtended(type, data)\n', expect_rule="s/close/waits-for-swapped-out-entries"),
    Mutant("F36a-repair-without-finally", CH, '            try:\n                for type, data in b:\n                    self.writeExtended(type, data)\n            finally:\n                self.closing = closing\n',
           '            for type, data in b:\n                self.writeExtended(type, data)\n            self.closing = closing\n', expect_rule="s/close/recorded"),
    Mutant("F36a-repair-without-retry", CH, '            if closing:\n                self.loseConnection()  # try again\n\n    def requestReceived',
           '\n    def requestReceived', expect_rule="s/close/recorded"),
    Mutant("ext-limit-test-through-min-off-by-one", CO, "        if dataLength > channel.localWindowLeft or dataLength > channel.localMaxPacket:\n", "        if dataLength >= min(channel.localWindowLeft, channel.localMaxPacket):\n",
           expect_rule="s/receive/window-boundary"),
    Mutant("adjust-header-through-a-precompiled-struct-of-shorts", CO, '        packet = struct.pack(">2L", self.channelsToRemoteChannel[channel], bytesToAdd)', '        packet = _ADJUST.pack(self.channelsToRemoteChannel[channel], bytesToAdd)', expect_rule="s/adjust/local-equals-advertised",
           more=[(CO, "from twisted.logger import Logger\n", "from twisted.logger import Logger\n\n_ADJUST = struct.Struct(\">LH\")\n")]),
]
SILENT = [
    Silent("close-guard-as-early-return", CH, "        self.closing = 1\n        if not self.buf and not self.extBuf:\n            self.conn.sendClose(self)\n", "        self.closing = 1\n        if self.buf or self.extBuf:\n            return\n        self.conn.sendClose(self)\n"),
    Silent("rewrite-blocks-in-private-helpers", CH, '        if self.buf:\n            b = self.buf\n            self.buf = b""\n            self.write(b)\n        if self.extBuf:\n            b = self.extBuf\n            self.extBuf = []\n            # While the entries are held here loseConnection() sees empty\n            # buffers, so a pending close must wait until all of them have\n            # been handed back to writeExtended().\n            closing = self.closing\n            self.closing = False\n            try:\n                for type, data in b:\n                    self.writeExtended(type, data)\n            finally:\n                self.closing = closing\n            if closing:\n                self.loseConnection()  # try again\n',
           '        self._rewriteData()\n        self._rewriteExtended()\n\n    def _rewriteData(self):\n        if not self.buf:\n            return\n        pending, self.buf = self.buf, b""\n        self.write(pending)\n\n    def _rewriteExtended(self):\n        if self.extBuf:\n            entries = self.extBuf\n            self.extBuf = []\n            wasClosing = self.closing\n            self.closing = False\n            try:\n                for kind, piece in entries:\n                    self.writeExtended(kind, piece)\n            finally:\n                self.closing = wasClosing\n            if wasClosing:\n                self.loseConnection()\n'),
    # since fix c59cdff addWindowBytes holds the close back and re-tries it itself: writeExtended's own retry can no longer fire (was a MUTANT before the fix)
    Silent("close-retry-in-writeExtended-now-redundant", CH, '            self.remoteWindowLeft -= len(data)\n        if self.closing:\n            self.loseConnection()  # try again\n',
           '            self.remoteWindowLeft -= len(data)\n'),
    Silent("window-accounting-in-private-helper", CO, "        data = common.getNS(packet[4:])[0]\n        channel.localWindowLeft -= dataLength\n        if channel.localWindowLeft < channel.localWindowSize // 2:\n            self.adjustWindow(\n                channel, channel.localWindowSize - channel.localWindowLeft\n            )\n        channel.dataReceived(data)",
           "        data = common.getNS(packet[4:])[0]\n        self._consumeWindow(channel, dataLength)\n        channel.dataReceived(data)\n\n    def _consumeWindow(self, channel, used):\n        channel.localWindowLeft -= used\n        half = channel.localWindowSize // 2\n        if channel.localWindowLeft >= half:\n            return\n        missing = channel.localWindowSize - channel.localWindowLeft\n        self.adjustWindow(channel, missing)"),
    Silent("send-loop-named-piece", CH, "        rmp = self.remoteMaxPacket\n        write = self.conn.sendData\n        r = range(0, top, rmp)\n        for offset in r:\n            write(self, data[offset : offset + rmp])\n",
           "        limit = self.remoteMaxPacket\n        for start in range(0, top, limit):\n            stop = start + limit\n            piece = data[start:stop]\n            self.conn.sendData(self, piece)\n"),
    Silent("sendData-named-body", CO, "        self.transport.sendPacket(\n            MSG_CHANNEL_DATA,\n            struct.pack(\">L\", self.channelsToRemoteChannel[channel]) + common.NS(data),\n        )",
           "        remote = self.channelsToRemoteChannel[channel]\n        body = struct.pack(\">L\", remote) + common.NS(data)\n        self.transport.sendPacket(MSG_CHANNEL_DATA, body)"),
    Silent("adjust-guard-inverted", CO, "        if channel.localClosed:\n            return  # we're already closed\n        packet = struct.pack(\">2L\", self.channelsToRemoteChannel[channel], bytesToAdd)",
           "        if not channel.localClosed:\n            pass\n        else:\n            return\n        packet = struct.pack(\">2L\", self.channelsToRemoteChannel[channel], bytesToAdd)"),
    Silent("write-named-slice-end", CH, "        for offset in r:\n            write(self, data[offset : offset + rmp])\n", "        for offset in r:\n            end = offset + rmp\n            write(self, data[offset:end])\n"),
    Silent("receiver-named-window", CO, "        if dataLength > channel.localWindowLeft or dataLength > channel.localMaxPacket:\n            self._log.error(\"too much extdata\")",
           "        window = channel.localWindowLeft\n        if dataLength > window or dataLength > channel.localMaxPacket:\n            self._log.error(\"too much extdata\")"),
    Silent("write-min-style", CH, "        if top > self.remoteWindowLeft:\n            data, self.buf = (", "        if not top <= self.remoteWindowLeft:\n            data, self.buf = ("),
    Silent("writeExtended-augassign-and-rename", CH, "        while len(data) > self.remoteMaxPacket:\n            self.conn.sendExtendedData(self, dataType, data[: self.remoteMaxPacket])\n            data = data[self.remoteMaxPacket :]\n            self.remoteWindowLeft -= self.remoteMaxPacket\n",
           "        limit = self.remoteMaxPacket\n        while limit < len(data):\n            self.conn.sendExtendedData(self, dataType, data[:limit])\n            self.remoteWindowLeft = self.remoteWindowLeft - limit\n            data = data[limit:]\n"),
    Silent("receiver-early-returns", CO, "        if dataLength > channel.localWindowLeft or dataLength > channel.localMaxPacket:\n            self._log.error(\"too much extdata\")\n            self.sendClose(channel)\n            return\n",
           "        if channel.localWindowLeft < dataLength:\n            self._log.error(\"too much extdata\")\n            self.sendClose(channel)\n            return\n        if not dataLength <= channel.localMaxPacket:\n            self._log.error(\"too much extdata\")\n            self.sendClose(channel)\n            return\n"),
    Silent("overflow-branch-at-equality", CH, "        if top > self.remoteWindowLeft:\n            data, self.buf = (", "        if top >= self.remoteWindowLeft:\n            data, self.buf = ("),
    Silent("decrement-by-len-of-truncated-data", CH, "        self.remoteWindowLeft -= top\n", "        self.remoteWindowLeft -= len(data)\n"),
    Silent("addWindowBytes-augassign", CH, "        self.remoteWindowLeft = self.remoteWindowLeft + data\n", "        self.remoteWindowLeft += data\n"),
    Silent("ext-limit-test-through-min", CO, "        if dataLength > channel.localWindowLeft or dataLength > channel.localMaxPacket:\n", "        if dataLength > min(channel.localWindowLeft, channel.localMaxPacket):\n"),
    Silent("adjust-header-through-a-precompiled-struct", CO, '        packet = struct.pack(">2L", self.channelsToRemoteChannel[channel], bytesToAdd)', '        packet = _ADJUST.pack(self.channelsToRemoteChannel[channel], bytesToAdd)',
           more=[(CO, "from twisted.logger import Logger\n", "from twisted.logger import Logger\n\n_ADJUST = struct.Struct(\">2L\")\n")]),
]
