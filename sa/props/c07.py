"""C07 - DeferredQueue delivers each object once, in order, within its bounds."""
from __future__ import annotations

import ast

from sa.astx import dotted
from sa.selftest import Mutant, Silent
from sa.source import AnalysisError, methods
from sa.props._lib_b import BIG, Interp, Spec, Unsupported, exit_check, fifo_rule, DOMAIN_NOTE, make_state, per_instance_state, report_interp

PROPERTY = "C07"
DEFER = "internet/defer.py"
MODNAME = "twisted.internet.defer"
Q = MODNAME + ".DeferredQueue"
TECHNIQUE = "abstract interpretation over the complete abstract state space, decision tables, who-may-write kinds"
RULE_KINDS = {
    # abstract interpreter from EVERY abstract state satisfying the invariant x every truth assignment of the undecidable guards
    "invariant/": "finite-exhaustive", "fire/": "finite-exhaustive", "container/": "finite-exhaustive", "type-error": "finite-exhaustive",
    "put/": "finite-exhaustive", "get/": "finite-exhaustive", "cancel/": "finite-exhaustive",
    # shape of the code
    "queue/": "structural", "init/": "structural",
}
EXPLANATION = (
    "Clauses 'each object delivered exactly once, to the oldest pending get or else stored' and 'QueueOverflow / QueueUnderflow "
    "exactly when ...' - finite-exhaustive: an abstract interpreter (container lengths 0,1,2,>=3, size/backlog None or a symbolic "
    "integer, tracked Deferred records) executes put / get / the canceller from EVERY abstract state satisfying "
    "`not (waiting and pending)`, follows each undecidable guard both ways, and compares every abstract path with the statement's "
    "decision table (rows: waiter pending? x size None? x limit reached?; stored? x backlog None? x limit reached?); the limit "
    "comparison is read as a linear normal form over the lengths at entry (exact boundary, also when it is evaluated after an "
    "append), the object put must be consumed exactly once on normal paths and not at all on raising paths, a waiter is popped "
    "before it is fired, the handed-out element is removed, the invariant holds at each exit and at the call-out in put (state "
    "havocked afterwards: callbacks may re-enter).  The enumeration is the whole abstract domain and transfer functions "
    "over-approximate, so the verdict covers all histories.  Clause 'cancelled get never served' - same decider on the canceller "
    "(removes exactly that Deferred).  Clause 'in order' - structural: operation kinds on both lists (FIFO).  Clause 'per-object "
    "lists' - structural: CFG must-pass of __init__.  Not decided: Deferred's own callback machinery (C01-C03)."
)
ASSUMPTIONS = [
    "a Deferred created inside the analysed method has no callbacks until the first call-out or the return",
    "user code re-enters only at call-outs; after one the queue may be in any state satisfying the invariant",
    "size and backlog are None or integers and are not modified after construction (checked: no writer outside __init__)",
]


class QueueSpec(Spec):
    list_elems = {"waiting": "dfr", "pending": "obj"}

    def states(self):
        out = []
        lens = [(0, 0)] + [(k, 0) for k in range(1, BIG + 1)] + [(0, k) for k in range(1, BIG + 1)]
        for w, p in lens:
            for size in (("none",), ("sym", "self.size")):
                for backlog in (("none",), ("sym", "self.backlog")):
                    out.append(({"waiting": ("list", w), "pending": ("list", p), "size": size, "backlog": backlog}, {}))
        return out

    def invariant(self, st):
        if st.fields["waiting"][1] > 0 and st.fields["pending"][1] > 0:
            return ("objects are stored in `pending` while gets are waiting (the waiting get is not served; a later get would "
                    "overtake it)")
        for a in ("size", "backlog"):
            if st.fields[a] not in (("none",), ("sym", "self." + a)):
                return f"self.{a} was modified"
        return None


def _limit_decision(f, len_term, lim_term, interp_qual):
    """First decision of path f on the limit comparison -> (reached: bool | None, node, problem text | None).
    Decisions are keyed on the lengths *at entry* (the interpreter shifts ``len(self.x)`` by the appends / pops made so
    far), so a test made after a mutation is read as a statement about the pre-state."""
    started = False
    attr = len_term[len("len(self."):-1]
    for e in f.log:
        if e[0] == "callout" and started:
            break
        if e[0] in ("decide", "listop", "fire", "write"):
            started = True
        if e[0] != "decide":
            continue
        key, pol, node = e[2], e[3], e[1]
        if not (isinstance(key, tuple) and len(key) == 2 and isinstance(key[0], frozenset)):
            continue
        terms = {(len_term if k == f"len_{attr}_after_callout1" else k): v for k, v in key[0]}
        if set(terms) != {len_term, lim_term}:
            continue
        a, b, c = terms[len_term], terms[lim_term], key[1]
        if (a, b) == (1, -1):      # len - lim >= c   (expected c == 0: "limit reached")
            off = c
            reached = pol
        elif (a, b) == (-1, 1):    # lim - len >= c   (expected c == 1: "room left")
            off = 1 - c
            reached = not pol
        else:
            raise Unsupported(f"{interp_qual}: limit comparison with coefficients {terms}")
        if off != 0:
            return None, node, (f"the limit test is `{len_term} >= {lim_term} {'+' if off > 0 else '-'} {abs(off)}` instead of "
                                f"`{len_term} >= {lim_term}` (off by {abs(off)})")
        return reached, node, None
    return None, None, None


def _run_all(interp, func, spec, args, pre_filter=None, pre_text=None, setup=None):
    out = []
    for fields, ghost in spec.states():
        if pre_filter and not pre_filter(fields):
            continue
        st = make_state(fields, ghost)
        if pre_text:
            st.pre = pre_text.format(st.pre)
        a = dict(args)
        if setup:
            a.update(setup(st))
        out.append((fields, interp.run(func, st, a)))
    return out


def check(ctx):
    mod = ctx.mod(DEFER)
    cls = ctx.cls(DEFER, "DeferredQueue")
    spec = QueueSpec()
    interp = Interp(mod, cls, spec, MODNAME)
    ms = methods(cls)

    # cancellers installed anywhere in the class (found syntactically so that an unreadable get() cannot hide them)
    declared = set()
    for c in ast.walk(cls):
        if isinstance(c, ast.Call) and (dotted(c.func) or "").split(".")[-1] == "Deferred":
            ce = next((k.value for k in c.keywords if k.arg == "canceller"), c.args[0] if c.args else None)
            if ce is not None and (dotted(ce) or "").startswith("self.") and dotted(ce)[5:] in ms:
                declared.add(dotted(ce)[5:])
    cancellers = set(declared)
    with ctx.section("put"):
        # =============================================================== put
        put = ctx.func(DEFER, "DeferredQueue.put")
        qp = Q + ".put"
        params = [a.arg for a in put.args.posonlyargs + put.args.args][1:]
        ctx.need(len(params) == 1, "DeferredQueue.put(self, obj)")
        OBJ = ("obj", "the object put")
        runs = _run_all(interp, put, spec, {params[0]: OBJ})
        exit_check(ctx, interp, spec, qp, [f for _, fs in runs for f in fs])
        rows = {}
        bounds = {}
        for fields, finals in runs:
            for f in finals:
                b = f.basis(fields)
                W = b["waiting"][1] > 0
                S = b["size"] == ("none",)
                L, lnode, lbad = _limit_decision(f, "len(self.pending)", "self.size", qp)
                if lnode is not None:
                    bounds.setdefault(ctx.construct(qp, lnode), (lbad, f))
                if lbad:
                    continue
                before = [e for e in f.log[: next((i for i, e in enumerate(f.log) if e[0] == "callout"), len(f.log))]]
                fires = [e for e in f.log if e[0] == "fire" and e[4] == OBJ and e[3] == "callback"]
                stores = [e for e in f.log if e[0] == "listop" and e[2] == "pending" and e[3] in ("append", "appendleft") and e[4] == OBJ]
                other_stores = [e for e in f.log if e[0] == "listop" and e[3] in ("append", "appendleft") and e[4] == OBJ and e[2] != "pending"]
                mutations = [e for e in before if e[0] == "listop"]
                if f.exit[0] == "raise":
                    actual = "raise " + f.exit[1]
                elif len(fires) == 1 and not stores:
                    actual = "deliver"
                elif len(stores) == 1 and not fires:
                    actual = "store"
                else:
                    actual = f"consumed {len(fires) + len(stores)} times"
                if W:
                    expected = "deliver"
                elif S:
                    expected = "store"
                elif L is None:
                    expected = "consult-limit"
                else:
                    expected = "raise QueueOverflow" if L else "store"
                row = (W, S, L)
                node = f.exit[2]
                key = (row, expected)
                ok = actual == expected and not other_stores
                detail = None
                if ok and actual == "deliver":
                    rec = f.dfrs[fires[0][2]]
                    if rec["origin"][:2] != ("popped", "waiting"):
                        ok, detail = False, "the object is delivered to a Deferred that was not taken out of `waiting`"
                    elif rec["origin"][2] != "first":
                        ok, detail = False, "the object is delivered to the newest waiting get, not the oldest"
                if ok and actual.startswith("raise") and mutations and any(v != 0 for v in f.lendelta.values()):
                    ok, detail = False, ("QueueOverflow is raised after the queue was already modified"
                                    + (": the refused object stays stored in `pending` and is delivered later" if stores else ""))
                if not ok and detail is None:
                    if expected == "consult-limit":
                        detail = ("with no waiting get and a size limit set, the outcome does not depend on len(pending) vs size: "
                                  f"put() does '{actual}' without consulting the limit")
                    else:
                        detail = (f"with {'a' if W else 'no'} waiting get, size {'None' if S else 'set'}"
                                  + ("" if L is None else f", limit {'reached' if L else 'not reached'}")
                                  + f": put() must {expected} but does '{actual}'")
                if not ok and f.tainted:
                    interp.uncertain.append(f"{qp}: after an unmodelled call the decision table cannot be decided")
                    continue
                prev = rows.get(key)
                if prev is None or (prev[0] and not ok):
                    rows[key] = (ok, detail, f, node)
        for (row, expected), (ok, detail, f, node) in sorted(rows.items(), key=lambda kv: repr(kv[0])):
            W, S, L = row
            label = f"<waiting={'yes' if W else 'no'}, size={'None' if S else 'int'}, limit reached={L}> -> {expected}"
            ctx.check(ok, "put/decision-table", qp + " | " + label, detail or "", detail="every abstract pre-state x guard outcome of this row; " + DOMAIN_NOTE,
                      witness=f"abstract pre-state: {f.pre}")
        for c, (lbad, f) in sorted(bounds.items()):
            ctx.check(not lbad, "put/size-boundary", c, (lbad or "") + ": QueueOverflow is not raised exactly when the size limit is reached",
                      witness=f"abstract pre-state: {f.pre}")
        ctx.check(bool(bounds), "put/size-boundary", qp, "put() never compares len(pending) with size")
        if not any(f.rule == "put/size-boundary" for f in ctx.findings):
            ctx.floor("put/decision-table", len(rows), 4, "rows")

    with ctx.section("get"):
        # =============================================================== get
        get = ctx.func(DEFER, "DeferredQueue.get")
        qg = Q + ".get"
        runs = _run_all(interp, get, spec, {})
        exit_check(ctx, interp, spec, qg, [f for _, fs in runs for f in fs])
        rows = {}
        bounds = {}
        for fields, finals in runs:
            for f in finals:
                b = f.basis(fields)
                P = b["pending"][1] > 0
                B = b["backlog"] == ("none",)
                L, lnode, lbad = _limit_decision(f, "len(self.waiting)", "self.backlog", qg)
                if lnode is not None:
                    bounds.setdefault(ctx.construct(qg, lnode), (lbad, f))
                if lbad:
                    continue
                mutations = [e for e in f.log if e[0] == "listop"]
                detail = None
                if f.exit[0] == "raise":
                    actual = "raise " + f.exit[1]
                else:
                    v = f.exit[1]
                    actual = "return something that is not a Deferred of this call"
                    if v[0] == "dfr":
                        rec = f.dfrs[v[1]]
                        fired = rec["fired"]
                        if fired is not None and fired[0] == "callback" and fired[1][0] == "obj" and isinstance(fired[1][1], tuple) \
                                and fired[1][1][:2] == ("popped", "pending") and rec["where"] is None:
                            actual = "hand out"
                            if fired[1][1][2] != "first":
                                detail = "get() hands out the newest stored object, not the oldest (put order lost)"
                        elif fired is not None and fired[0] == "callback" and fired[1][0] == "obj" and isinstance(fired[1][1], tuple) \
                                and fired[1][1][0] == "peek":
                            actual = "hand out without removing"
                        elif fired is None and rec["origin"] == ("fresh",) and rec["where"] == "waiting":
                            actual = "wait"
                            c = rec["canceller"]
                            if c is None or c[0] != "meth":
                                detail = ("the queued get has no canceller removing it from `waiting`: after cancellation it still "
                                          "swallows the next object put")
                            else:
                                cancellers.add(c[1])
                            if not any(e[0] == "listop" and e[2] == "waiting" and e[3] == "append" for e in f.log):
                                detail = detail or "the new get is not queued behind the older ones"
                        elif fired is None and rec["where"] is None:
                            actual = "return a Deferred that is neither fired nor queued"
                if P:
                    expected = "hand out"
                elif B:
                    expected = "wait"
                elif L is None:
                    expected = "consult-limit"
                else:
                    expected = "raise QueueUnderflow" if L else "wait"
                ok = actual == expected and detail is None
                if ok and actual.startswith("raise") and mutations and any(v != 0 for v in f.lendelta.values()):
                    ok, detail = False, "QueueUnderflow is raised after the queue was already modified"
                if not ok and detail is None:
                    if expected == "consult-limit":
                        detail = ("with nothing stored and a backlog limit set, the outcome does not depend on len(waiting) vs backlog: "
                                  f"get() does '{actual}' without consulting the limit")
                    else:
                        detail = (f"with {'an' if P else 'no'} object stored, backlog {'None' if B else 'set'}"
                                  + ("" if L is None else f", limit {'reached' if L else 'not reached'}")
                                  + f": get() must {expected} but does '{actual}'")
                if not ok and f.tainted:
                    interp.uncertain.append(f"{qg}: after an unmodelled call the decision table cannot be decided")
                    continue
                key = ((P, B, L), expected)
                prev = rows.get(key)
                if prev is None or (prev[0] and not ok):
                    rows[key] = (ok, detail, f)
        for (row, expected), (ok, detail, f) in sorted(rows.items(), key=lambda kv: repr(kv[0])):
            P, B, L = row
            label = f"<stored={'yes' if P else 'no'}, backlog={'None' if B else 'int'}, limit reached={L}> -> {expected}"
            ctx.check(ok, "get/decision-table", qg + " | " + label, detail or "", detail="every abstract pre-state x guard outcome of this row; " + DOMAIN_NOTE,
                      witness=f"abstract pre-state: {f.pre}")
        for c, (lbad, f) in sorted(bounds.items()):
            ctx.check(not lbad, "get/backlog-boundary", c, (lbad or "") + ": QueueUnderflow is not raised exactly when the backlog limit is reached",
                      witness=f"abstract pre-state: {f.pre}")
        ctx.check(bool(bounds), "get/backlog-boundary", qg, "get() never compares len(waiting) with backlog")
        if not any(f.rule == "get/backlog-boundary" for f in ctx.findings):
            ctx.floor("get/decision-table", len(rows), 4, "rows")

    # =============================================================== canceller
    ctx.check(bool(cancellers), "cancel/canceller-installed", qg, "no path of get() queues a Deferred with a canceller method")
    for cname in sorted(cancellers):
        with ctx.section("canceller " + cname):
            cf = ms.get(cname)
            ctx.need(cf is not None, f"canceller DeferredQueue.{cname}")
            ctx.functions.add(f"{DEFER}:DeferredQueue.{cname}")
            qc = f"{Q}.{cname}"
            cparams = [a.arg for a in cf.args.posonlyargs + cf.args.args][1:]
            ctx.need(len(cparams) == 1, f"{qc}: canceller takes exactly the Deferred")
            finals = []
            for fields, ghost in spec.states():
                if fields["waiting"][1] == 0:
                    continue
                st = make_state(fields, ghost)
                st.pre = f"a get queued in [{st.pre}] is cancelled"
                d = st.new_dfr(origin=("member", "waiting"), where="waiting", pristine=False)
                finals += interp.run(cf, st, {cparams[0]: d})
            exit_check(ctx, interp, spec, qc, finals)
            bad = None
            for f in finals:
                if f.exit[0] != "return":
                    bad = bad or (f, "the canceller raises")
                    continue
                rec = f.dfrs[1]
                if rec["where"] is not None or rec["origin"] != ("removed", "waiting"):
                    bad = bad or (f, "the cancelled get stays in `waiting`: the next object put is delivered to it and lost")
                if rec["fired"] is not None:
                    bad = bad or (f, "the canceller fires the cancelled get")
                if any(e[0] == "listop" and e[2] == "pending" for e in f.log):
                    bad = bad or (f, "the canceller modifies `pending`")
            ctx.check(bad is None, "cancel/removes-from-waiting", qc, bad[1] if bad else "",
                      witness=f"abstract pre-state: {bad[0].pre}" if bad else "")

    with ctx.section("other mutators"):
        # =============================================================== other mutators, reporting, K5
        from sa.effects import class_accesses
        from sa.astx import call_name
        acc = class_accesses(mod, cls, {"waiting", "pending", "size", "backlog"}, receivers={"self"})
        done = {"put", "get", "__init__"} | cancellers
        inlined = {call_name(c)[5:] for m_ in ms.values() for c in ast.walk(m_) if isinstance(c, ast.Call) and (call_name(c) or "").startswith("self.")}
        for name in sorted({a.func.split(".")[1] for a in acc} - done):
            if name.startswith("_") and name in inlined:
                continue
            f = ms[name]
            ps = [a.arg for a in f.args.posonlyargs + f.args.args][1:]
            finals = []
            for fields, ghost in spec.states():
                finals += interp.run(f, make_state(fields, ghost), {p: ("obj", p) for p in ps})
            exit_check(ctx, interp, spec, f"{Q}.{name}", finals)
    report_interp(ctx, interp)
    with ctx.section("fifo waiting"):
        fifo_rule(ctx, mod, cls, MODNAME, "waiting", cancellers, rule="queue/fifo-waiting")
    with ctx.section("fifo pending"):
        fifo_rule(ctx, mod, cls, MODNAME, "pending", set(), rule="queue/fifo-pending", floor=2)

    for attr in ("waiting", "pending"):
        with ctx.section(f"per-instance {attr}"):
            per_instance_state(ctx, mod, cls, attr, MODNAME)
    with ctx.section("init"):
        # __init__ establishes the invariant and stores the limits
        init = ctx.func(DEFER, "DeferredQueue.__init__")
        qi = Q + ".__init__"
        st = make_state({}, {})
        iparams = [a.arg for a in init.args.args][1:]
        try:
            finals = Interp(mod, cls, _InitSpec(), MODNAME).run(init, st, {p: ("sym", p) for p in iparams})
        except Unsupported as e:
            raise AnalysisError(str(e))
        for f in finals:
            ok = f.fields.get("waiting") == ("list", 0) and f.fields.get("pending") == ("list", 0)
            ctx.check(ok, "init/establishes-invariant", qi, "a new queue does not start with empty `waiting` and `pending`")
            for a in ("size", "backlog"):
                ctx.check(f.fields.get(a) == ("sym", a), "init/stores-limits", qi + f" | self.{a}",
                          f"self.{a} is not initialised from the constructor argument `{a}`")


class _InitSpec(Spec):
    list_elems = {}

    def states(self):
        return []

    def invariant(self, st):
        return None


_PUT = ('        if self.waiting:\n            self.waiting.pop(0).callback(obj)\n'
        '        elif self.size is None or len(self.pending) < self.size:\n            self.pending.append(obj)\n'
        '        else:\n            raise QueueOverflow()\n')
_GET = ('        if self.pending:\n            return succeed(self.pending.pop(0))\n'
        '        elif self.backlog is None or len(self.waiting) < self.backlog:\n'
        '            d: Deferred[_T] = Deferred(canceller=self._cancelGet)\n            self.waiting.append(d)\n            return d\n'
        '        else:\n            raise QueueUnderflow()\n')
_CANCEL = ('        self.waiting.remove(d)\n\n    def put(self, obj: _T) -> None:')

MUTANTS = [
    Mutant("size-limit-off-by-one", DEFER, "len(self.pending) < self.size", "len(self.pending) <= self.size", expect_rule="put/size-boundary"),
    Mutant("backlog-limit-off-by-one", DEFER, "len(self.waiting) < self.backlog", "len(self.waiting) <= self.backlog", expect_rule="get/backlog-boundary"),
    Mutant("deliver-to-newest-waiter", DEFER, "self.waiting.pop(0).callback(obj)", "self.waiting.pop().callback(obj)", expect_rule="put/decision-table"),
    Mutant("hand-out-newest-object", DEFER, "return succeed(self.pending.pop(0))", "return succeed(self.pending.pop())", expect_rule="queue/fifo-pending"),
    Mutant("store-while-gets-wait", DEFER, _PUT,
           '        if self.size is None or len(self.pending) < self.size:\n            self.pending.append(obj)\n'
           '        elif self.waiting:\n            self.waiting.pop(0).callback(obj)\n        else:\n            raise QueueOverflow()\n',
           expect_rule="put/decision-table"),
    Mutant("canceller-leaves-get-queued", DEFER, _CANCEL, _CANCEL.replace("self.waiting.remove(d)", "pass"), expect_rule="cancel/removes-from-waiting"),
    Mutant("fire-waiter-without-pop", DEFER, "self.waiting.pop(0).callback(obj)", "self.waiting[0].callback(obj)", expect_rule="fire/detached"),
    Mutant("get-without-canceller", DEFER, "d: Deferred[_T] = Deferred(canceller=self._cancelGet)", "d: Deferred[_T] = Deferred()", expect_rule="get/decision-table"),
    Mutant("deliver-and-store", DEFER, "            self.waiting.pop(0).callback(obj)\n        elif self.size is None",
           "            self.waiting.pop(0).callback(obj)\n        if self.size is None", expect_rule="put/decision-table"),
    Mutant("peek-instead-of-pop", DEFER, "return succeed(self.pending.pop(0))", "return succeed(self.pending[0])", expect_rule="get/decision-table"),
    Mutant("overflow-checked-before-waiters", DEFER, _PUT,
           '        if self.size is not None and len(self.pending) >= self.size:\n            raise QueueOverflow()\n'
           '        if self.waiting:\n            self.waiting.pop(0).callback(obj)\n        else:\n            self.pending.append(obj)\n',
           expect_rule="put/decision-table"),
    Mutant("underflow-ignores-backlog-none", DEFER, "elif self.backlog is None or len(self.waiting) < self.backlog:",
           "elif self.backlog is not None and len(self.waiting) < self.backlog:", expect_rule="get/decision-table"),
    Mutant("new-get-jumps-queue", DEFER, "            self.waiting.append(d)\n            return d\n        else:\n            raise QueueUnderflow()",
           "            self.waiting.insert(0, d)\n            return d\n        else:\n            raise QueueUnderflow()", expect_rule="queue/fifo-waiting"),
    Mutant("get-queued-and-not-returned", DEFER, "            self.waiting.append(d)\n            return d\n        else:\n            raise QueueUnderflow()",
           "            return d\n        else:\n            raise QueueUnderflow()", expect_rule="get/decision-table"),
]
_LOOP_PUT_OLD = '        if self.waiting:\n            self.waiting.pop(0).callback(obj)\n        elif self.size is None'
_LOOP_PUT_NEW = ('        while self.waiting:\n            waiter = self.waiting.pop(0)\n            if not waiter.called:\n'
                 '                waiter.callback(obj)\n                return\n        if self.size is None')
MUTANTS += [
    # the refused object is stored before the limit is looked at and stays there when QueueOverflow is raised
    Mutant("store-then-refuse", DEFER, _PUT,
           '        if self.waiting:\n            self.waiting.pop(0).callback(obj)\n            return\n        self.pending.append(obj)\n'
           '        if self.size is not None and len(self.pending) > self.size:\n            raise QueueOverflow()\n', expect_rule="put/decision-table"),
    # lazy cancellation: the canceller leaves the Deferred queued, put() skips fired entries - cancelled gets still count for the backlog
    Mutant("lazy-cancellation", DEFER, _CANCEL, _CANCEL.replace("self.waiting.remove(d)", "pass"), expect_rule="cancel/removes-from-waiting",
           more=[(DEFER, _LOOP_PUT_OLD, _LOOP_PUT_NEW)]),
    # same early-return shape, limit off by one the other way (one object too few is accepted)
    Mutant("store-then-refuse-early", DEFER, _PUT,
           '        if self.waiting:\n            self.waiting.pop(0).callback(obj)\n            return\n        self.pending.append(obj)\n'
           '        if self.size is not None and len(self.pending) >= self.size:\n            self.pending.pop()\n            raise QueueOverflow()\n',
           expect_rule="put/size-boundary"),
]
SILENT = [
    Silent("defensive-loop-over-waiters", DEFER, _LOOP_PUT_OLD, _LOOP_PUT_NEW),
    Silent("canceller-tolerates-missing", DEFER, _CANCEL, _CANCEL.replace("        self.waiting.remove(d)\n", "        try:\n            self.waiting.remove(d)\n        except ValueError:\n            pass\n")),
    Silent("logging-call-first", DEFER, "        if self.waiting:\n            self.waiting.pop(0).callback(obj)\n        elif",
           '        log.debug("put")\n        if self.waiting:\n            self.waiting.pop(0).callback(obj)\n        elif'),
    Silent("hand-out-in-try-finally", DEFER, "        if self.pending:\n            return succeed(self.pending.pop(0))",
           "        if self.pending:\n            try:\n                return succeed(self.pending.pop(0))\n            finally:\n                pass"),
    Silent("put-early-returns", DEFER, _PUT,
           '        if self.waiting:\n            waiter = self.waiting.pop(0)\n            waiter.callback(obj)\n            return\n'
           '        if self.size is not None and len(self.pending) >= self.size:\n            raise QueueOverflow()\n        self.pending.append(obj)\n'),
    Silent("get-inverted-tests", DEFER, _GET,
           '        if not self.pending:\n            if self.backlog is not None and not len(self.waiting) < self.backlog:\n                raise QueueUnderflow()\n'
           '            d = Deferred(self._cancelGet)\n            self.waiting.append(d)\n            return d\n        return succeed(self.pending.pop(0))\n'),
    Silent("size-comparison-swapped", DEFER, "len(self.pending) < self.size", "self.size > len(self.pending)"),
    Silent("size-comparison-plus-one", DEFER, "len(self.pending) < self.size", "len(self.pending) + 1 <= self.size"),
    Silent("local-for-length", DEFER, "        if self.waiting:\n            self.waiting.pop(0).callback(obj)\n        elif self.size is None or len(self.pending) < self.size:",
           "        stored = len(self.pending)\n        if self.waiting:\n            self.waiting.pop(0).callback(obj)\n        elif self.size is None or stored < self.size:"),
    Silent("get-fires-own-deferred", DEFER, "            return succeed(self.pending.pop(0))\n",
           "            ready = Deferred()\n            ready.callback(self.pending.pop(0))\n            return ready\n"),
    Silent("len-tests", DEFER, "        if self.pending:\n            return succeed", "        if len(self.pending) > 0:\n            return succeed"),
]

_Q_INIT = "        self.waiting: List[Deferred[_T]] = []\n        self.pending: List[_T] = []\n"
MUTANTS += [
    # the two lists become class-level defaults: every DeferredQueue of the process shares them
    Mutant("lists-shared-between-queues", DEFER, "    def __init__(\n        self, size: Optional[int] = None, backlog: Optional[int] = None\n    ) -> None:\n" + _Q_INIT,
           "    waiting: List[Any] = []\n    pending: List[Any] = []\n\n    def __init__(\n        self, size: Optional[int] = None, backlog: Optional[int] = None\n    ) -> None:\n",
           expect_rule="init/per-instance-state"),
    Mutant("pending-shared-default-argument", DEFER, "        self.pending: List[_T] = []\n", "        self.pending = _EMPTY\n", expect_rule="init/per-instance-state"),
]
SILENT += [
    Silent("lists-from-constructor-calls", DEFER, _Q_INIT, "        self.waiting = list()\n        self.pending = list()\n"),
]

SILENT += [
    # deliver / take halves in private helpers, both limit tests in one shared static helper taking the list and the limit
    Silent("halves-and-limit-test-in-helpers", DEFER, _PUT,
           "        if self.waiting:\n            self._serveOldest(obj)\n        elif self._roomIn(self.pending, self.size):\n            self.pending.append(obj)\n"
           "        else:\n            raise QueueOverflow()\n\n    @staticmethod\n    def _roomIn(held, most):\n        return most is None or len(held) < most\n\n"
           "    def _serveOldest(self, thing):\n        self.waiting.pop(0).callback(thing)\n",
           more=[(DEFER, "        elif self.backlog is None or len(self.waiting) < self.backlog:", "        elif self._roomIn(self.waiting, self.backlog):")]),
    # a None limit normalised to an infinite sentinel, pop(0) spelled as read + del
    Silent("infinite-sentinel-for-no-limit", DEFER, _PUT,
           "        most = _UNBOUNDED if self.size is None else self.size\n        if self.waiting:\n            first = self.waiting[0]\n            del self.waiting[0]\n"
           "            first.callback(obj)\n        elif len(self.pending) < most:\n            self.pending.append(obj)\n        else:\n            raise QueueOverflow()\n",
           more=[(DEFER, "class QueueOverflow(Exception):", "_UNBOUNDED = float(\"inf\")\n\n\nclass QueueOverflow(Exception):"),
                 (DEFER, "            return succeed(self.pending.pop(0))\n", "            oldest = self.pending[0]\n            del self.pending[0]\n            return succeed(oldest)\n")]),
]

_PUT_BOUND = ('        if self.waiting:\n            take = self.waiting.pop(0).callback\n        elif self.size is None or len(self.pending) < self.size:\n'
              '            take = self.pending.append\n        else:\n            raise QueueOverflow()\n        take(obj)\n')
SILENT += [
    # recipient selected into a local bound method, then one dispatch
    Silent("recipient-in-bound-method-local", DEFER, _PUT, _PUT_BOUND),
]
MUTANTS += [
    # the generalised rules still fire through the bound method
    Mutant("bound-method-serves-newest-get", DEFER, _PUT, _PUT_BOUND.replace("self.waiting.pop(0).callback", "self.waiting.pop().callback"), expect_rule="put/decision-table"),
    Mutant("bound-method-dispatches-twice", DEFER, _PUT, _PUT_BOUND + "        take(obj)\n", expect_rule="put/decision-table"),
]
