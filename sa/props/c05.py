"""C05 - inlineCallbacks and coroutines match synchronous execution, incl. cancellation."""
from __future__ import annotations

import ast

from sa.astx import dotted, src
from sa.selftest import Mutant, Silent
from sa.source import AnalysisError
from sa.props._lib_a import (inlined_func, const_int as const_int_, DEFER, Q, CallGraph, ICModel, group, aliases, attr_of, avoiding_path, call_nodes, calls_of, catching_handlers,
                             exc_escape, handler_catches_all, handler_names, is_const,
                             is_name, known_bool, method_call, name_assign_nodes, no_exc, params, passes_between, stmt_nodes,
                             sub0, targets_values)

PROPERTY = "C05"
TECHNIQUE = "structural typestate/dominance on driver and cancel helpers; who-may-read ownership rule with guard facts for Deferred.result; exhaustive state evaluation of __iter__"
EXPLANATION = (
    "Decides the driver-side clauses only. [structural] _inlineCallbacks (typestate (waiting[0], helper pending, fired) propagated over the CFG): "
    "the result Deferred fires at most once per run and nothing is resumed/registered after it; every exception of gen.send / "
    "throwExceptionIntoGenerator is caught (StopIteration/_DefGen_Return -> callback with e.value, BaseException -> errback()); a value "
    "is sent and a Failure thrown, decided on an isinstance flag recomputed after every definition of the outcome (def-use); the helper is registered for both outcomes and continues the same "
    "gen/status/context; a synchronously delivered result is read from waiting[1] before the slot is reset; every suspending return "
    "has stored in status.waitingOn the very object the helper was registered on. Cancellation: _handleCancelInlineCallbacks replaces "
    "status.deferred before its single call-out, which cancels exactly status.waitingOn, and returns the replacement; "
    "_addCancelCallbackToDeferred installs that handler as the first errback, keeps the old callbacks and errbacks the error the handler "
    "traps; _cancellableInlineCallbacks wires deferred/status/canceller consistently. Deferred.__iter__/__await__: yields itself while "
    "paused or without result, re-reads the result after every yield, returns a value / raises a Failure. "
    "Outcome ownership (outcome/read-only-when-idle): outside class Deferred and the module-level helpers referenced only from it, defer.py never reads another "
    "Deferred's .result (attribute or getattr) unless the read is guarded by: receiver called, not paused, not _runningCallbacks - a yielded Deferred's outcome reaches "
    "the generator through the callback registered on it, i.e. after its whole chain, never as an intermediate value. "
    "Included from C03: Deferred.cancel() forwards unconditionally from a called Deferred to the one it is chained to. "
    "Not decided (declined): that user generator code observes outcomes exactly as a synchronous call would (semantics of user code)."
)
RULE_KINDS = {
    # Deferred.__iter__ is evaluated by the checker's own evaluator over its whole abstract domain (see await/domain-complete)
    "await/suspends": "finite-exhaustive", "await/not-while-paused": "finite-exhaustive", "await/only-with-result": "finite-exhaustive",
    "await/value-returned-failure-raised": "finite-exhaustive", "await/yields-itself": "finite-exhaustive",
    "await/result-reread-after-resume": "finite-exhaustive", "await/delivers-both-outcomes": "finite-exhaustive",
    "await/domain-complete": "structural",
    # everything else: typestate over the CFG, dominance / must-pass, def-use, exception escape, call-graph reachability
    "*": "structural",
}
INCLUDE = [("C03", ("cancel/forward",), "cancelling an inlineCallbacks Deferred reaches the Deferred the function is waiting on through Deferred.cancel() forwarding "
            "from each already-called link to the one it is chained to (every survived cancellation adds a link): C03's forwarding clauses are necessary here")]
ASSUMPTIONS = [
    "context.run(f, *a) calls f(*a) synchronously and propagates its exception (contextvars semantics)",
    "Failure.throwExceptionIntoGenerator(gen) is gen.throw(...) of the wrapped exception",
]
IC = "_inlineCallbacks"


def check(ctx):
    mod = ctx.mod(DEFER)
    M = None
    stop_h, all_h, trapped = set(), set(), set()
    with group(ctx, "driver/model"):
        M = ICModel(ctx)
        g, q, W = M.g, M.q, M.W
        res, gen, status, cx = M.p_result, M.p_gen, M.p_status, M.p_context
        fires_cb = call_nodes(g, lambda c: M.is_fire(c) and c.func.attr == "callback")
        fires_eb = call_nodes(g, lambda c: M.is_fire(c) and c.func.attr == "errback")
        ctx.check(bool(fires_cb) and bool(fires_eb), "fire/both-outcomes", q, "the result Deferred is never called back / never errbacked")

    # ---- fire once, then return ------------------------------------------------------------------
    with group(ctx, "driver/fire-then-return"):
        for n in M.fires:
            cons = ctx.construct(q, g.node(n).ast)
            wit = avoiding_path(g, [n], set(M.resumes) | set(M.regs) | set(M.fires), [])
            ctx.check(wit is None, "fire/then-return", cons,
                      "after firing the result the driver goes on (resumes the finished generator / fires again)", witness=g.describe(wit))
            # status.deferred is replaced by the cancel handler while the generator runs: it must be read when firing, not before resuming
            c_ = calls_of(g, n, lambda c: M.is_fire(c))[0]
            if isinstance(c_.func.value, ast.Name):
                defs = M.deferred_aliases.get(c_.func.value.id, [])
                stale = any(g.path([d], M.resumes, edge_ok=no_exc, strict=True) is not None and g.path(M.resumes, [n], avoid=set(defs), edge_ok=no_exc, strict=False)
                            is not None for d in defs)
                ctx.check(not stale, "fire/reads-current-result-deferred", cons,
                          f"the result is fired through `{c_.func.value.id}`, read from status.deferred before the generator was resumed: if the run is "
                          "cancelled meanwhile, _handleCancelInlineCallbacks has replaced status.deferred and the outcome goes to the old, already "
                          "cancelled Deferred")
            else:
                ctx.ok("fire/reads-current-result-deferred", cons, "status.deferred is read at the firing")
    with group(ctx, "driver/fire-once"):
        _need_protocol(M)
        for n in M.fires:
            st = M.at(n)
            cons = ctx.construct(q, g.node(n).ast)
            bad = sorted(s for s in st if s[2] == 1)
            ctx.check(bool(st) and not bad, "fire/once-per-run", cons, f"the result Deferred can be fired a second time (state {bad[:2]}): AlreadyCalledError")
            bad = sorted(s for s in st if s[1] == 1)
            ctx.check(not bad, "fire/not-while-suspended", cons, f"the result fires while a helper is still registered on an awaited Deferred (state {bad[:2]})")
        for n in M.resumes + M.regs:
            st = M.at(n)
            bad = sorted(s for s in st if s[2] == 1 or s[1] == 1)
            ctx.check(bool(st) and not bad, "resume/only-with-an-outcome", ctx.construct(q, g.node(n).ast),
                      f"the generator is resumed / a helper registered in state {bad[:2]} (awaited Deferred still pending, or result already fired)")

    # ---- exceptions of the resume -----------------------------------------------------------------
    with group(ctx, "driver/exceptions"):
        for n in M.resumes:
            cons = ctx.construct(q, g.node(n).ast)
            wit = exc_escape(g, n)
            hs = catching_handlers(g, n)
            ctx.check(wit is None, "resume/exceptions-caught", cons,
                      "an exception leaving the generator (BaseException included) escapes _inlineCallbacks instead of failing the result Deferred "
                      "(handlers: " + ", ".join(x for h in hs for x in handler_names(g.node(h).ast)) + ")", witness=g.describe(wit))
            for h in hs:
                names = handler_names(g.node(h).ast)
                if "StopIteration" in names or "_DefGen_Return" in names:
                    stop_h.add(h)
                if handler_catches_all(g.node(h).ast):
                    all_h.add(h)
            ctx.check(any("StopIteration" in handler_names(g.node(h).ast) for h in hs), "resume/return-recognised", cons,
                      "StopIteration (the generator's return) is not handled separately: a normal return would errback the result")
        # a normal return fires callback(e.value); only that
        for n in fires_cb:
            c = calls_of(g, n, lambda c: M.is_fire(c))[0]
            V = c.args[0] if len(c.args) == 1 else None
            cons = ctx.construct(q, c)
            direct = [h for h in stop_h if V is not None and _value_of(V, g.node(h).ast.name) and avoiding_path(g, [g.entry], [n], [h]) is None]
            if direct:
                ctx.ok("return-value/flow", cons, "called back with <handler exception>.value inside the handler")
                continue
            # the value variable, possibly boxed: `returned[0]` with `returned = (<value>,)` ("optional as a 1-tuple")
            boxed = isinstance(V, ast.Subscript) and isinstance(V.value, ast.Name) and isinstance(V.slice, ast.Constant) and V.slice.value == 0
            Vn = V.value if boxed else V
            unbox = (lambda v: v.elts[0] if isinstance(v, ast.Tuple) and len(v.elts) == 1 else None) if boxed else (lambda v: v)
            ctx.check(is_name(Vn), "return-value/flow", cons, "the result is not called back with the value variable")
            V = Vn
            wit = avoiding_path(g, [g.entry], [n], stop_h)
            ctx.check(wit is None, "fire/callback-only-on-return", cons,
                      "the result can be called back although the generator has not returned (it merely yielded)", witness=g.describe(wit))
            if is_name(V):
                for h in sorted(stop_h):
                    e = g.node(h).ast.name
                    good = stmt_nodes(g, lambda st: any(is_name(t, V.id) and v is not None and unbox(v) is not None and _value_of(unbox(v), e) for t, v in targets_values(st)))
                    wit = avoiding_path(g, [h], [n], good)
                    ctx.check(bool(e) and wit is None, "return-value/flow", ctx.construct(q, "except " + "/".join(handler_names(g.node(h).ast))),
                              f"the value passed to the result Deferred is not taken from the exception's .value on every path (variable {V.id})",
                              witness=g.describe(wit))
                others = [d for d in name_assign_nodes(g, V.id) if not any(
                    is_name(t, V.id) and v is not None and (isinstance(v, ast.Constant) or (isinstance(v, (ast.Name, ast.Attribute)) and (dotted(v) or "").split(".")[0] not in M.local_names)
                                                        or (isinstance(v, (ast.Tuple, ast.List)) and not v.elts)
                                                        or (unbox(v) is not None and any(_value_of(unbox(v), g.node(h).ast.name) for h in stop_h)))
                    for t, v in targets_values(g.node(d).ast))]
                ctx.check(not others, "return-value/flow", cons + " (other definitions)", f"{V.id} is also assigned from something that is not the generator's return value")
        for h in sorted(stop_h):
            wit = avoiding_path(g, [h], [g.exit], fires_cb)
            ctx.check(wit is None, "return-value/fires-callback", ctx.construct(q, "except " + "/".join(handler_names(g.node(h).ast))),
                      "after the generator returned, _inlineCallbacks can leave without calling back the result", witness=g.describe(wit))
        for n in fires_eb:
            c = calls_of(g, n, lambda c: M.is_fire(c))[0]
            cons = ctx.construct(q, c)
            wit = avoiding_path(g, [g.entry], [n], all_h)
            ctx.check(wit is None, "fire/errback-only-on-exception", cons, "the result can errback without an exception having left the generator", witness=g.describe(wit))
            ok = (not c.args and not c.keywords) or (len(c.args) == 1 and isinstance(c.args[0], ast.Call) and dotted(c.args[0].func) == "Failure" and not c.args[0].args)
            ctx.check(ok, "fire/errback-current-exception", cons, "the errback does not carry the exception currently being handled")
            ctx.check(any(g.path([h], [n], edge_ok=no_exc) for h in all_h), "fire/errback-current-exception", cons + " (inside the handler)",
                      "the argument-less errback() is not executed inside the catch-all handler")
        for h in sorted(all_h):
            wit = avoiding_path(g, [h], [g.exit], fires_eb)
            ctx.check(wit is None, "resume/exception-fails-result", ctx.construct(q, "except " + "/".join(handler_names(g.node(h).ast))),
                      "an exception leaving the generator is swallowed without failing the result Deferred", witness=g.describe(wit))

    # ---- send a value, throw a Failure ---------------------------------------------------------------
    with group(ctx, "driver/send-or-throw"):
        isf_locals = {t.id for n in stmt_nodes(g, lambda s: True) for t, v in targets_values(g.node(n).ast)
                      if isinstance(t, ast.Name) and v is not None and _is_failure_test(v, res)}
        isf_nodes = [n for n in stmt_nodes(g, lambda s: any(isinstance(t, ast.Name) and v is not None and _is_failure_test(v, res) for t, v in targets_values(s)))]
        isf = lambda e: _is_failure_test(e, res) or (isinstance(e, ast.Name) and e.id in isf_locals)
        for n in M.resumes:
            node = g.node(n)
            cons = ctx.construct(q, node.ast)
            is_send = any(isinstance(x, ast.Attribute) and x.attr == "send" and is_name(x.value, gen) for x in ast.walk(node.ast))
            is_throw = any(isinstance(x, ast.Attribute) and x.attr in ("throwExceptionIntoGenerator", "throw") for x in ast.walk(node.ast))
            v = known_bool(g, n, isf)
            if is_send and not is_throw:
                ctx.check(v is False, "resume/send-or-throw", cons, "a Failure outcome can be *sent* into the generator as a value instead of being raised in it")
                ok = any(isinstance(c, ast.Call) and ((attr_of(c.func, "send", gen) and len(c.args) == 1 and is_name(c.args[0], res)) or
                                                      (isinstance(c.func, ast.Attribute) and c.func.attr == "run" and len(c.args) == 2
                                                       and attr_of(c.args[0], "send", gen) and is_name(c.args[1], res))) for c in ast.walk(node.ast))
                ctx.check(ok, "resume/sends-the-outcome", cons, f"the value sent into the generator is not the last outcome `{res}`")
            elif is_throw:
                ctx.check(v is True, "resume/send-or-throw", cons, "a plain value outcome can be thrown into the generator")
                recv_ok = any(isinstance(x, ast.Attribute) and x.attr == "throwExceptionIntoGenerator" and is_name(_uncast(x.value), res) for x in ast.walk(node.ast))
                arg_ok = any(isinstance(c, ast.Call) and any(is_name(a, gen) for a in c.args) for c in ast.walk(node.ast))
                ctx.check(recv_ok and arg_ok, "resume/sends-the-outcome", cons, f"the exception thrown into the generator is not the last outcome `{res}`")
            ctx.check(any(is_name(t, res) for t, _ in targets_values(node.ast)), "resume/next-outcome", cons,
                      f"what the generator yields next is not stored in `{res}` (it is the object examined / awaited next)")
        # the isinstance test is fresh for every resume
        # def-use: EVERY definition of the outcome that reaches a send/throw decision - the value the generator yielded last time
        # (the resume statement itself) included - is followed by a recomputation of the flag before that decision
        fresh_from = list(name_assign_nodes(g, res)) + [g.entry]
        wit = avoiding_path(g, fresh_from, M.resumes, isf_nodes) if isf_locals else None
        ctx.check(wit is None, "resume/decision-uses-this-iterations-outcome", q + " | <failure test is fresh>",
                  f"the send/throw decision can use an `isinstance({res}, Failure)` flag computed before `{res}` was last assigned: after a failure "
                  "was thrown in and handled, a plain value yielded next would be *thrown* into the generator (AttributeError on the value) / a later "
                  "Failure would be sent as a value", witness=g.describe(wit))

    # ---- registration --------------------------------------------------------------------------------
    with group(ctx, "driver/registration"):
        resumers = {}
        ctx.check(bool(M.regs), "await/both-outcomes-resume", q + " | <registration on the yielded Deferred>",
                  "nothing is registered on the Deferred the generator yielded: the generator is never resumed")
        for r in M.regs:
            c = M.reg_calls[r]
            rv = c.func.value

            ctx.check(isinstance(rv, ast.Name) and M.is_yielded(rv.id), "await/registered-on-yielded-object", ctx.construct(q, c),
                      f"the helper is not registered on the object the generator yielded (`{res}`)")
            for outcome, callee, extra in M.routes[r]:
                what = "success" if outcome == "ok" else "failure"
                cons = ctx.construct(q, c) + f" [{what}]"
                hname = callee.id if isinstance(callee, ast.Name) else None
                if hname == IC:
                    # registered straight on the driver: the outcome resumes this very run iff the extras are (gen, status, context)
                    ok_direct = extra is not None and [a.id if isinstance(a, ast.Name) else None for a in extra] == [gen, status, cx]
                    ctx.check(ok_direct, "await/helper-continues-same-run", cons,
                              "_inlineCallbacks is registered directly but not as _inlineCallbacks(<outcome>, gen, status, context) of this run")
                    continue
                if hname is not None and hname not in M.helpers and isinstance(mod.find(hname), ast.FunctionDef) \
                        and any(isinstance(x, ast.Call) and is_name(x.func, IC) for x in ast.walk(mod.find(hname))):
                    resumers[hname] = inlined_func(ctx, DEFER, hname)       # resumes the run without taking part in the waiting-cell protocol
                ctx.check(hname in M.helpers or hname in resumers, "await/both-outcomes-resume", cons,
                          f"a {what} of the awaited Deferred is not routed to the resuming helper ({c.func.attr}: "
                          f"{src(callee) if callee is not None else 'passes through'}): the generator never observes that outcome the way a synchronous "
                          "call would (it is never resumed, or resumed outside the waiting-cell protocol)")
                if hname not in M.helpers and hname not in resumers:
                    continue
                # extra arguments continue the same generator / status / context
                H = M.helpers[hname][0] if hname in M.helpers else resumers[hname]
                hq = Q + hname
                hp = params(H)
                names = [a.id if isinstance(a, ast.Name) else None for a in (extra or [])]
                recalls = [x for x in ast.walk(H) if isinstance(x, ast.Call) and is_name(x.func, IC)]
                ctx.check(len(recalls) == 1, "await/helper-continues-same-run", hq + f" [{what}]", "the helper does not contain exactly one call of _inlineCallbacks")
                for rc in recalls:
                    want = [None, gen, status, cx]
                    ok = len(rc.args) == 4 and not rc.keywords and is_name(rc.args[0]) and rc.args[0].id in aliases(H, hp[0])
                    for j_ in (1, 2, 3):
                        a = rc.args[j_] if len(rc.args) > j_ else None
                        k = None
                        if is_name(a):
                            cands = [i_ for i_, p_ in enumerate(hp) if a.id in aliases(H, p_)]
                            k = cands[0] if cands else None
                        ok = ok and k is not None and 1 <= k <= len(names) and names[k - 1] == want[j_]
                    ctx.check(ok, "await/helper-continues-same-run", ctx.construct(hq, rc) + f" [{what}]",
                              "the helper does not resume _inlineCallbacks(<outcome>, gen, status, context) of the run that registered it")
    with group(ctx, "driver/sync-outcome"):
        _need_protocol(M)
        # a synchronously delivered outcome is read before the slot is reset
        # the slot of the cell list in which the helper leaves the outcome (index 1 of [flag, outcome], or the one-slot cell itself)
        slots = set()
        for hname, (H, k) in M.helpers.items():
            hp_ = params(H)
            if len(hp_) > k:
                for st_ in ast.walk(H):
                    if isinstance(st_, (ast.Assign, ast.AnnAssign)):
                        for t, v in targets_values(st_):
                            if isinstance(t, ast.Subscript) and isinstance(t.value, ast.Name) and t.value.id in aliases(H, hp_[k]) and is_name(v) \
                                    and v.id in aliases(H, hp_[0]) and isinstance(t.slice, ast.Constant):
                                slots.add(t.slice.value)
        slot = sorted(slots)[0] if len(slots) == 1 else 1
        reads = stmt_nodes(g, lambda st: any(is_name(t, res) and v is not None and sub0(v, W, slot) for t, v in targets_values(st)))
        resets = stmt_nodes(g, lambda st: any(sub0(t, W, slot) for t, _ in targets_values(st)))
        # edges of the loop's cell tests that are taken only when the helper has already run (the cell no longer holds its armed value)
        armed = {c for r in M.regs for (c, p_, f_) in M.at(r)}
        delivered = [d for t in M.cell_tests for d, l in g.succ[t] if l in ("T", "F") and armed and
                     all(M.cell_test(g.node(t).ast, c, M.is_cell_read, M.local_names) is (l != "T") for c in armed)]
        wit = avoiding_path(g, delivered, M.resumes, reads, strict=False) if delivered else None
        ctx.check(bool(reads) and bool(delivered) and wit is None, "await/sync-outcome-read", q + f" | {res} = {W}[{slot}]",
                  "after an already-fired Deferred the generator is resumed without the delivered outcome", witness=g.describe(wit))
        ctx.check(not passes_between(g, delivered, resets, reads, stop=M.resumes), "await/sync-outcome-read-before-reset", q + f" | {res} = {W}[{slot}]",
                  "waiting[1] is reset before the delivered outcome is read from it: the generator receives None")
        for hname, (H, k) in sorted(M.helpers.items()):
            hp = params(H)
            hstores = [st for st in ast.walk(H) if isinstance(st, (ast.Assign, ast.AnnAssign)) and any(
                isinstance(t, ast.Subscript) and isinstance(t.value, ast.Name) and len(hp) > k and t.value.id in aliases(H, hp[k]) and isinstance(t.slice, ast.Constant)
                and is_name(v) and v.id in aliases(H, hp[0]) for t, v in targets_values(st))]
            ctx.check(bool(hstores), "await/sync-outcome-read", Q + hname, "the helper does not leave the outcome in the cell list")

    # ---- suspension records the awaited Deferred ------------------------------------------------------
    with group(ctx, "driver/cancel-target"):
        _need_protocol(M)
        stores = stmt_nodes(g, lambda st: any(attr_of(t, "waitingOn", status) for t, _ in targets_values(st)))
        ctx.check(bool(stores), "cancel-target/recorded", q, "status.waitingOn is never recorded: cancel() has nothing to cancel")
        for a, l in sorted(set(g.pred[g.exit])):
            st = M.at(a)
            if not any(s[1] == 1 for s in st):
                continue
            wit = avoiding_path(g, M.regs, [a], stores)
            ctx.check(wit is None, "cancel-target/recorded-on-every-suspension", ctx.construct(q, g.node(a).ast) + " @suspend",
                      "the driver can suspend on a Deferred without recording it in status.waitingOn (cancel would hit a stale or missing target)",
                      witness=g.describe(wit))
        for s_ in stores:
            v = [v for t, v in targets_values(g.node(s_).ast) if attr_of(t, "waitingOn", status)][0]
            cons = ctx.construct(q, g.node(s_).ast)
            recv = {M.reg_calls[r].func.value.id for r in M.regs if isinstance(M.reg_calls[r].func.value, ast.Name)}
            ctx.check(is_name(v) and v.id in recv, "cancel-target/is-the-awaited-deferred", cons,
                      "status.waitingOn is not the variable the helper was registered on")
            if is_name(v):
                defs = [d for d in name_assign_nodes(g, v.id) if d not in M.resumes]   # a resume starts a new round
                between = (passes_between(g, [s_], defs, M.regs, stop=M.resumes + stores) or
                           passes_between(g, M.regs, defs, [s_], stop=M.resumes + M.regs))
                ctx.check(not between, "cancel-target/is-the-awaited-deferred", cons + " (same binding)",
                          f"`{v.id}` is re-assigned between recording it in status.waitingOn and registering the helper on it: "
                          "cancel() would be sent to a different object (e.g. the raw coroutine instead of its Deferred)")

    # ---- _handleCancelInlineCallbacks ------------------------------------------------------------------
    with group(ctx, "cancel/handler"):
        hf = inlined_func(ctx, DEFER, "_handleCancelInlineCallbacks")
        hg = ctx.cfg(hf)
        hq2 = Q + "_handleCancelInlineCallbacks"
        h_res, h_status = params(hf)[0], params(hf)[1]
        awaited = {t.id for n in stmt_nodes(hg, lambda s: True) for t, v in targets_values(hg.node(n).ast)
                   if isinstance(t, ast.Name) and v is not None and attr_of(v, "waitingOn", h_status)}
        cancels = call_nodes(hg, lambda c: isinstance(c.func, ast.Attribute) and c.func.attr == "cancel")
        ncalls = sum(len(calls_of(hg, n, lambda c: isinstance(c.func, ast.Attribute) and c.func.attr == "cancel")) for n in cancels)
        ctx.check(ncalls == 1, "cancel/exactly-one-target", hq2, f"cancelling an inlineCallbacks Deferred performs {ncalls} cancel() calls instead of exactly one")
        dlocal = {t.id: v for n in stmt_nodes(hg, lambda s: True) for t, v in targets_values(hg.node(n).ast)
                  if isinstance(t, ast.Name) and isinstance(v, ast.Call) and dotted(v.func) == "Deferred"}
        is_newd = lambda v: (isinstance(v, ast.Call) and dotted(v.func) == "Deferred") or (isinstance(v, ast.Name) and v.id in dlocal)
        newd = stmt_nodes(hg, lambda st: any(attr_of(t, "deferred", h_status) and is_newd(v) for t, v in targets_values(st) if v is not None))
        for n in cancels:
            for c in calls_of(hg, n, lambda c: isinstance(c.func, ast.Attribute) and c.func.attr == "cancel"):
                tgt = c.func.value
                ctx.check((is_name(tgt) and tgt.id in awaited) or attr_of(tgt, "waitingOn", h_status), "cancel/target-is-waitingOn", ctx.construct(hq2, c),
                          "the object cancelled is not status.waitingOn (the Deferred the function is suspended on)")
                if is_name(tgt):
                    defs = name_assign_nodes(hg, tgt.id)
                    ctx.check(len(defs) == 1, "cancel/target-is-waitingOn", ctx.construct(hq2, c) + " (single definition)", f"`{tgt.id}` has several definitions")
            wit = hg.must_precede(newd, [n]) if newd else [hg.entry, n]
            ctx.check(wit is None, "cancel/new-result-before-call-out", ctx.construct(hq2, hg.node(n).ast),
                      "status.deferred is replaced only after <awaited>.cancel(): the cancelled Deferred usually fires synchronously, the generator "
                      "finishes and fires the *old* (already cancelling) result Deferred -> AlreadyCalledError / outcome lost", witness=hg.describe(wit))
        wit = avoiding_path(hg, [hg.entry], [hg.exit], cancels)
        ctx.check(bool(cancels) and wit is None, "cancel/target-is-waitingOn", hq2 + " | <every path cancels>", "the handler can return without cancelling the awaited Deferred",
                  witness=hg.describe(wit))
        ctx.check(len(newd) == 1, "cancel/new-result-deferred", hq2, "status.deferred is not replaced by one fresh Deferred")
        for n in newd:
            v = [v for t, v in targets_values(hg.node(n).ast) if attr_of(t, "deferred", h_status)][0]
            v = dlocal.get(v.id, v) if isinstance(v, ast.Name) else v
            ctx.check(_canceller_ok(v, h_status, hf, mod), "cancel/new-result-cancellable", ctx.construct(hq2, hg.node(n).ast),
                      "the replacement Deferred's canceller is not `lambda d: _addCancelCallbackToDeferred(d, status)`: a second cancel() would not reach the generator")
        rets = stmt_nodes(hg, lambda s: isinstance(s, ast.Return))
        ctx.check(bool(rets) and all(attr_of(hg.node(r).ast.value, "deferred", h_status) or (is_name(hg.node(r).ast.value) and hg.node(r).ast.value.id in dlocal) for r in rets) and avoiding_path(hg, [hg.entry], [hg.exit], rets) is None
                  and all(hg.must_precede(newd, [r]) is None for r in rets),
                  "cancel/returns-new-result", hq2, "the handler does not return the replacement Deferred: the outer Deferred would not wait for the function's eventual outcome")
        traps = [c for c in ast.walk(hf) if isinstance(c, ast.Call) and method_call(c, "trap", h_res)]
        trapped = {src(a) for c in traps for a in c.args}

    # ---- _addCancelCallbackToDeferred -------------------------------------------------------------------
    with group(ctx, "cancel/hook"):
        af = inlined_func(ctx, DEFER, "_addCancelCallbackToDeferred")
        ag = ctx.cfg(af)
        aq = Q + "_addCancelCallbackToDeferred"
        a_it, a_status = params(af)[0], params(af)[1]
        its = aliases(af, a_it) | {t.id for st in ast.walk(af) if isinstance(st, ast.Assign) for t, v in targets_values(st)
                                   if isinstance(t, ast.Name) and isinstance(v, ast.Call) and isinstance(v.func, ast.Attribute) and is_name(v.func.value, a_it)
                                   and v.func.attr in ("addErrback", "addCallbacks", "addBoth", "addCallback")}
        is_it_cbs = lambda e: isinstance(e, ast.Attribute) and e.attr == "callbacks" and isinstance(e.value, ast.Name) and e.value.id in its
        empties = stmt_nodes(ag, lambda st: any(is_it_cbs(t) and isinstance(v, ast.List) and not v.elts for t, v in targets_values(st) if v is not None))
        saved = {t.id for n in stmt_nodes(ag, lambda s: True) for t, v in targets_values(ag.node(n).ast) if isinstance(t, ast.Name) and v is not None and is_it_cbs(v)}
        save_nodes = stmt_nodes(ag, lambda st: any(isinstance(t, ast.Name) and v is not None and is_it_cbs(v) for t, v in targets_values(st)))
        adds = call_nodes(ag, lambda c: isinstance(c.func, ast.Attribute) and c.func.attr == "addErrback" and isinstance(c.func.value, ast.Name)
                          and c.func.value.id in its and c.args and is_name(c.args[0], "_handleCancelInlineCallbacks"))
        exts = call_nodes(ag, lambda c: isinstance(c.func, ast.Attribute) and c.func.attr == "extend" and is_it_cbs(c.func.value) and len(c.args) == 1
                          and is_name(c.args[0]) and c.args[0].id in saved)
        ebs = call_nodes(ag, lambda c: isinstance(c.func, ast.Attribute) and c.func.attr == "errback" and isinstance(c.func.value, ast.Name) and c.func.value.id in its)
        # second idiom for "the handler goes first": add it at the end, then rotate the last entry to the front
        def is_rotation(st):
            for t, v in targets_values(st):
                if is_it_cbs(t) and isinstance(v, ast.BinOp) and isinstance(v.op, ast.Add):
                    def sl(e, lo, up):
                        return isinstance(e, ast.Subscript) and is_it_cbs(e.value) and isinstance(e.slice, ast.Slice) and e.slice.step is None \
                            and ((e.slice.lower is None) if lo is None else const_int_(e.slice.lower) == lo) \
                            and ((e.slice.upper is None) if up is None else const_int_(e.slice.upper) == up)
                    if sl(v.left, -1, None) and sl(v.right, None, -1):
                        return True
            return False
        rotations = stmt_nodes(ag, is_rotation)
        if rotations and not empties:
            for nodes, what in ((adds, "addErrback(_handleCancelInlineCallbacks, status)"), (rotations, "moving the new last entry to the front"),
                                (ebs, "errback(_InternalInlineCallbacksCancelledError())")):
                wit = avoiding_path(ag, [ag.entry], [ag.exit], nodes)
                ctx.check(bool(nodes) and wit is None, "cancel-hook/steps-present", f"{aq} | {what}", f"step missing on some path: {what}", witness=ag.describe(wit))
            for r_ in rotations:
                # nothing else may be appended between adding the handler and rotating (the last entry must be the handler)
                appenders = call_nodes(ag, lambda c: isinstance(c.func, ast.Attribute) and c.func.attr in ("addCallback", "addBoth", "addCallbacks", "append", "extend", "insert"))
                between = [x for x in appenders if x not in adds and any(ag.path([a], [x], strict=True) for a in adds) and ag.path([x], [r_], strict=True)]
                ok_order = all(ag.must_precede([a], [r_]) is None for a in adds) and all(ag.must_precede([r_], [e]) is None for e in ebs) and not between
                ctx.check(ok_order and len(adds) == 1, "cancel-hook/handler-first", ctx.construct(aq, ag.node(r_).ast),
                          "the entry rotated to the front is not the cancel handler that was just added (or the rotation comes after the error is injected)")
        for nodes, what in (() if (rotations and not empties) else ((empties, "emptying it.callbacks"), (save_nodes, "saving the old callbacks"), (adds, "addErrback(_handleCancelInlineCallbacks, status)"),
                            (exts, "re-attaching the old callbacks"), (ebs, "errback(_InternalInlineCallbacksCancelledError())"))):
            wit = avoiding_path(ag, [ag.entry], [ag.exit], nodes)
            ctx.check(bool(nodes) and wit is None, "cancel-hook/steps-present", f"{aq} | {what}", f"step missing on some path: {what}", witness=ag.describe(wit))
        for a in adds:
            c = calls_of(ag, a, lambda c: isinstance(c.func, ast.Attribute) and c.func.attr == "addErrback")[0]
            ctx.check(len(c.args) == 2 and is_name(c.args[1], a_status), "cancel-hook/handler-gets-status", ctx.construct(aq, c), "the handler is not given this run's status")
            wit = None if (rotations and not empties) else (ag.must_precede(empties, [a]) if empties else [ag.entry, a])
            ctx.check(wit is None, "cancel-hook/handler-first", ctx.construct(aq, c),
                      "the cancel handler is added while the user's callbacks are still in the list: they would see the internal cancellation error first",
                      witness=ag.describe(wit))
            for e in exts:
                ctx.check(ag.must_precede([a], [e]) is None, "cancel-hook/handler-first", ctx.construct(aq, ag.node(e).ast),
                          "the old callbacks are re-attached before the cancel handler is added (it would run last)")
            for e in ebs:
                ctx.check(ag.must_precede([a], [e]) is None, "cancel-hook/error-after-handler", ctx.construct(aq, ag.node(e).ast),
                          "the internal cancellation error is raised in the chain before the handler that traps it is installed")
        for s_ in save_nodes:
            for e in empties:
                if s_ != e:
                    ctx.check(ag.must_precede([s_], [e]) is None, "cancel-hook/old-callbacks-kept", ctx.construct(aq, ag.node(e).ast),
                              "the callbacks list is emptied before the old callbacks are saved")
        for e in ebs:
            c = calls_of(ag, e, lambda c: isinstance(c.func, ast.Attribute) and c.func.attr == "errback")[0]
            exc = c.args[0] if c.args else None
            nm = src(exc.func) if isinstance(exc, ast.Call) else src(exc)
            ctx.check(not trapped or nm in trapped, "cancel-hook/error-is-the-trapped-one", ctx.construct(aq, c),
                      f"the error injected ({nm}) is not the one _handleCancelInlineCallbacks traps ({sorted(trapped)})")

    # ---- _cancellableInlineCallbacks -------------------------------------------------------------------
    with group(ctx, "entry"):
        cf = inlined_func(ctx, DEFER, "_cancellableInlineCallbacks")
        cq = Q + "_cancellableInlineCallbacks"
        c_gen = params(cf)[0]
        dl = [(t.id, v) for st in ast.walk(cf) if isinstance(st, (ast.Assign, ast.AnnAssign)) for t, v in targets_values(st)
              if isinstance(t, ast.Name) and isinstance(v, ast.Call) and dotted(v.func) == "Deferred"]
        sl = [(t.id, v) for st in ast.walk(cf) if isinstance(st, (ast.Assign, ast.AnnAssign)) for t, v in targets_values(st)
              if isinstance(t, ast.Name) and isinstance(v, ast.Call) and dotted(v.func) == "_CancellationStatus"]
        runs = [c for c in ast.walk(cf) if isinstance(c, ast.Call) and is_name(c.func, IC)]
        okw = len(dl) == 1 and len(sl) == 1 and len(runs) == 1
        ctx.check(okw, "entry/wiring", cq, "expected one Deferred(...), one _CancellationStatus(...) and one _inlineCallbacks(...) call")
        if okw:
            dn, dv = dl[0]
            sn, sv = sl[0]
            ctx.check(len(sv.args) >= 1 and is_name(sv.args[0], dn) and len(sv.args) == 1 and not sv.keywords, "entry/wiring", cq + " | status.deferred",
                      "the status does not refer to the Deferred that is returned (or starts with a stale waitingOn)")
            ctx.check(_canceller_ok(dv, sn, cf, mod), "entry/wiring", cq + " | canceller", "the returned Deferred's canceller does not route to _addCancelCallbackToDeferred(d, status)")
            rc = runs[0]
            ctx.check(len(rc.args) == 4 and is_const(rc.args[0], None) and is_name(rc.args[1], c_gen) and is_name(rc.args[2], sn), "entry/wiring", cq + " | first run",
                      "the generator is not started with _inlineCallbacks(None, gen, status, <context>)")
            rets = [st for st in ast.walk(cf) if isinstance(st, ast.Return)]
            ctx.check(len(rets) == 1 and is_name(rets[0].value, dn), "entry/wiring", cq + " | return", "the Deferred returned is not the one the status fires")
        cg = CallGraph(mod)
        reach_ic = cg.reaching(IC)
        for ent in ("inlineCallbacks.unwindGenerator", "ensureDeferred", "Deferred.fromCoroutine"):
            ctx.check(ent in reach_ic, "entry/routes-to-driver", Q + ent, f"{ent} no longer reaches _inlineCallbacks through _cancellableInlineCallbacks")

    # ---- Deferred.__iter__ / __await__ ------------------------------------------------------------------
    with group(ctx, "await"):
        _check_await(ctx)
        cls = ctx.cls(DEFER, "Deferred")
        aw = [st for st in cls.body if isinstance(st, ast.Assign) and any(is_name(t, "__await__") for t in st.targets)]
        ctx.check(len(aw) == 1 and is_name(aw[0].value, "__iter__"), "await/alias", Q + "Deferred.__await__", "__await__ is not __iter__: coroutines and generators would see different behaviour")

    # ---- a Deferred's outcome is taken through a callback, or from a Deferred proven idle --------------------------
    with group(ctx, "outcome"):
        _check_outcome_reads(ctx)


_OUTCOME_EXAMPLES = (
    # (source, number of reports expected): the positive example that must match on every run, and its guarded twin
    ("def f(d):\n    if d.called and not (d.paused or d.callbacks):\n        return d.result\n", 1),
    ("def f(d):\n    if d.called and not d.paused and not d._runningCallbacks:\n        return d.result\n", 0),
    ("def f(d):\n    if not d.called or d.paused or d._runningCallbacks:\n        return None\n    x = d\n    return x.result\n", 0),
    ("def f(d):\n    return getattr(d, 'result', None)\n", 1),
    ("def f(fut):\n    return fut.result()\n", 0),
)
_IDLE_FACTS = (("called", True), ("paused", False), ("_runningCallbacks", False))


def _guard_facts(test, pol, out):
    """Atoms a test establishes when it evaluates to ``pol`` (conjunctive reading only; a disjunction establishes nothing)."""
    if isinstance(test, ast.UnaryOp) and isinstance(test.op, ast.Not):
        _guard_facts(test.operand, not pol, out)
    elif isinstance(test, ast.BoolOp):
        if isinstance(test.op, ast.And) == pol:
            for v in test.values:
                _guard_facts(v, pol, out)
    else:
        out.add((ast.unparse(test), pol))


def _exits(body) -> bool:
    return bool(body) and isinstance(body[-1], (ast.Return, ast.Raise, ast.Continue, ast.Break))


def _outcome_reads(func):
    """(load node, receiver text, missing idle facts) for every read of ``<other>.result`` in ``func`` (not ``self.result``, not a
    ``.result()`` call) that is not guarded by: receiver called, not paused, not running its callbacks."""
    for n in ast.walk(func):
        for ch in ast.iter_child_nodes(n):
            ch._p5 = n  # type: ignore[attr-defined]
    alias = {}
    for st in ast.walk(func):
        if isinstance(st, ast.Assign) and len(st.targets) == 1 and isinstance(st.targets[0], ast.Name) and isinstance(st.value, ast.Name):
            alias.setdefault(st.targets[0].id, set()).add(st.value.id)

    def names_for(r):
        seen, todo = set(), [r]
        while todo:
            x = todo.pop()
            if x in seen:
                continue
            seen.add(x)
            todo += list(alias.get(x, ())) + [k for k, v in alias.items() if x in v]
        return seen

    out = []
    for n in ast.walk(func):
        recv = None
        if isinstance(n, ast.Attribute) and n.attr == "result" and isinstance(n.ctx, ast.Load):
            par = getattr(n, "_p5", None)
            if isinstance(par, ast.Call) and par.func is n:
                continue                      # Future.result() and the like: a method call, not the Deferred attribute
            recv = n.value
        elif (isinstance(n, ast.Call) and isinstance(n.func, ast.Name) and n.func.id == "getattr" and len(n.args) >= 2
              and isinstance(n.args[1], ast.Constant) and n.args[1].value == "result"):
            recv = n.args[0]
        if recv is None or (isinstance(recv, ast.Name) and recv.id == "self"):
            continue
        facts = set()
        child, par = n, getattr(n, "_p5", None)
        while par is not None and child is not func:
            if isinstance(par, (ast.If, ast.While, ast.IfExp)):
                body = par.body if isinstance(par.body, list) else [par.body]
                orelse = par.orelse if isinstance(par.orelse, list) else [par.orelse]
                if any(child is b for b in body):
                    _guard_facts(par.test, True, facts)
                elif any(child is b for b in orelse) and not isinstance(par, ast.While):
                    _guard_facts(par.test, False, facts)
            if isinstance(par, ast.BoolOp) and child in par.values:
                for v in par.values[:par.values.index(child)]:
                    _guard_facts(v, isinstance(par.op, ast.And), facts)
            for field in ("body", "orelse", "finalbody"):
                seq = getattr(par, field, None)
                if isinstance(seq, list) and any(child is b for b in seq):
                    for prev in seq[:[i for i, b in enumerate(seq) if b is child][0]]:
                        if isinstance(prev, ast.If) and not prev.orelse and _exits(prev.body):
                            _guard_facts(prev.test, False, facts)      # guard clause: the test was false when control got here
            child, par = par, getattr(par, "_p5", None)
        rtxt = ast.unparse(recv)
        rnames = names_for(rtxt) if isinstance(recv, ast.Name) else {rtxt}
        missing = [f"{'' if pol else 'not '}{rtxt}.{a}" for a, pol in _IDLE_FACTS if not any((f"{r}.{a}", pol) in facts for r in rnames)]
        if missing:
            out.append((n, rtxt, missing))
    return out


def _check_outcome_reads(ctx):
    for text, want in _OUTCOME_EXAMPLES:
        got = len(_outcome_reads(ast.parse(text).body[0]))
        if got != want:
            raise AnalysisError(f"outcome/read-only-when-idle: the rule's own example {text!r} gives {got} reports, expected {want}")
    mod = ctx.mod(DEFER)
    inside = set()
    for c in mod.classes():
        if c.name == "Deferred":
            inside |= {id(x) for x in ast.walk(c)}
    ctx.need(inside, "class Deferred in defer.py")
    # module-level helpers of the callback engine: every reference to the helper's name is inside class Deferred or inside another such helper
    # (a piece of Deferred._runCallbacks moved into a function is still the engine, the owner of .result)
    top = {st.name: st for st in mod.tree.body if isinstance(st, (ast.FunctionDef, ast.AsyncFunctionDef))}
    refs = {}
    for holder_name, holder in [(None, x) for x in mod.tree.body]:
        for x in ast.walk(holder):
            if isinstance(x, ast.Name) and isinstance(x.ctx, ast.Load) and x.id in top:
                where = "engine" if id(x) in inside else (holder.name if isinstance(holder, (ast.FunctionDef, ast.AsyncFunctionDef)) else "<module>")
                refs.setdefault(x.id, set()).add(where)
    engine = set()
    grew = True
    while grew:
        grew = False
        for name, ws in refs.items():
            if name not in engine and ws and all(w == "engine" or w in engine or w == name for w in ws) and any(w == "engine" or w in engine for w in ws):
                engine.add(name); grew = True
    for name in engine:
        inside |= {id(x) for x in ast.walk(top[name])}
    nfun = nreads = 0
    for qual, fn in mod.functions():
        if id(fn) in inside:
            continue
        owner = [f for q2, f in mod.functions() if f is not fn and id(f) not in inside and any(x is fn for x in ast.walk(f))]
        if owner:
            continue                           # nested function: read as part of the outermost function (its guards may be outside)
        nfun += 1
        bad = _outcome_reads(fn)
        nreads += len(bad)
        for node, rtxt, missing in bad:
            ctx.violation("outcome/read-only-when-idle", ctx.construct(Q + qual, node),
                          f"`{rtxt}.result` is read outside class Deferred without the guards {', '.join(missing)}: a Deferred that is running its callbacks "
                          "(its last callback is popped from .callbacks before it is called), is paused, or has not fired holds an intermediate value in .result, "
                          "so a generator / coroutine resumed with it observes something other than the Deferred's final outcome (what a synchronous caller would see)")
        if not bad:
            ctx.ok("outcome/read-only-when-idle", Q + qual, "no read of another Deferred's .result, or only from a Deferred proven called, unpaused and not running callbacks")
    ctx.floor("outcome/read-only-when-idle", nfun, 40, "functions outside class Deferred")


def _need_protocol(M):
    """The typestate clauses presuppose the suspension protocol of the driver: a `waiting` cell list handed to the registered helper."""
    if M is None or M.W is None or not M.helpers:
        raise AnalysisError("C05: the waiting-cell suspension protocol of _inlineCallbacks is not recognisable; the clauses that depend on the "
                            "(cell, pending, fired) typestate are not decided for this shape")


DOMAIN_NOTE = ("one of the valuations of (paused, has a result, result is a Failure) x (first poll | each resume point with stale locals); "
               "see await/domain-complete for why these are all the cases")


class _Stale(Exception):
    pass


class _AwaitEval:
    """Finite-domain evaluation of Deferred.__iter__: one *poll* of the Deferred under a valuation of (paused, has a result,
    result is a Failure) must end in `yield self` / `return <result>` / raising the Failure as documented; after a yield every
    local computed from the Deferred's state is stale and must be read again before it is used."""

    def __init__(self, ctx, f):
        self.f, self.g = f, ctx.cfg(f)
        self.locals = {x.id for x in ast.walk(f) if isinstance(x, ast.Name) and isinstance(x.ctx, ast.Store)}

    def vocabulary(self):
        """(atomic tests, those outside the vocabulary the evaluator decides) - the latter are explored both ways"""
        tests, outside = [], []
        for t in self.g.nodes:
            if t.kind == "test" and self.g.reachable(t.id):
                tests.append(src(t.ast))
                for env in ({"paused": 0, "has": 1, "fail": 0},):
                    try:
                        v = self.val(t.ast, env, {k: "RES" for k in self.locals})
                    except _Stale:
                        v = "?"
                    if v == "?":
                        outside.append(src(t.ast))
        return tests, outside

    def val(self, e, env, loc):
        """symbolic value: 'NORES' | 'RES' | True/False | '?'"""
        if isinstance(e, ast.Constant):
            return e.value
        if isinstance(e, ast.Name):
            if e.id in loc:
                if loc[e.id] == "STALE":
                    raise _Stale(e.id)
                return loc[e.id]
            if loc.get("*") == "STALE" and e.id in self.locals:     # after a suspension every local is out of date until re-assigned
                raise _Stale(e.id)
            if e.id.endswith("_NO_RESULT"):
                return "NORES"
            return "?"
        if isinstance(e, ast.Attribute):
            if (dotted(e) or "").endswith("_NO_RESULT"):
                return "NORES"
            if attr_of(e, "paused", "self"):
                return env["paused"]
            if attr_of(e, "result", "self"):
                return "RES" if env["has"] else "?"
            if attr_of(e, "called", "self"):
                return env["has"]
            return "?"
        if isinstance(e, ast.Call):
            fn = dotted(e.func)
            if fn == "getattr" and len(e.args) >= 2 and is_name(e.args[0], "self") and isinstance(e.args[1], ast.Constant) and e.args[1].value == "result":
                return "RES" if env["has"] else (self.val(e.args[2], env, loc) if len(e.args) > 2 else "?")
            if fn == "hasattr" and len(e.args) == 2 and is_name(e.args[0], "self") and isinstance(e.args[1], ast.Constant) and e.args[1].value == "result":
                return env["has"]
            if fn == "isinstance" and len(e.args) == 2 and is_name(e.args[1], "Failure"):
                v = self.val(e.args[0], env, loc)
                return env["fail"] if v == "RES" else (False if v == "NORES" else "?")
            return "?"
        if isinstance(e, ast.NamedExpr) and isinstance(e.target, ast.Name):
            v = self.val(e.value, env, loc)
            loc[e.target.id] = v            # `(result := ...)` binds the local where it is evaluated
            return v
        if isinstance(e, ast.IfExp):
            t = self.val(e.test, env, loc)
            if t in (True, False) or isinstance(t, int):
                return self.val(e.body if t else e.orelse, env, loc)
            return "?"
        if isinstance(e, ast.UnaryOp) and isinstance(e.op, ast.Not):
            v = self.val(e.operand, env, loc)
            return (not v) if v in (True, False) or isinstance(v, int) else "?"
        if isinstance(e, ast.BoolOp):
            vals = [self.val(x, env, loc) for x in e.values]
            if any(v == "?" or isinstance(v, str) for v in vals):
                return "?"
            return all(vals) if isinstance(e.op, ast.And) else any(vals)
        if isinstance(e, ast.Compare) and len(e.ops) == 1 and isinstance(e.ops[0], (ast.Is, ast.IsNot, ast.Eq, ast.NotEq)):
            a, b = self.val(e.left, env, loc), self.val(e.comparators[0], env, loc)
            if a in ("NORES", "RES") and b in ("NORES", "RES"):
                same = a == b
                return same if isinstance(e.ops[0], (ast.Is, ast.Eq)) else not same
            return "?"
        return "?"

    def poll(self, start, env, loc):
        """outcomes [(kind, ast value or None, node, locals)] of one poll started at CFG node ``start``"""
        g = self.g
        out = []
        stack = [(start, dict(loc), 0)]
        while stack:
            n, loc_, depth = stack.pop()
            if depth > 300:
                out.append(("spin", None, n, loc_))
                continue
            node = g.node(n)
            if n == g.exit:
                out.append(("return", None, n, loc_))
                continue
            if n == g.raise_exit:
                continue
            try:
                if node.kind == "stmt":
                    st = node.ast
                    ys = [x for x in ast.walk(st) if isinstance(x, (ast.Yield, ast.YieldFrom))]
                    if ys:
                        out.append(("yield", ys[0], n, loc_))
                        continue
                    if isinstance(st, ast.Return):
                        out.append(("return", st.value, n, loc_))
                        if st.value is not None:
                            self.val(st.value, env, loc_)
                        continue
                    if isinstance(st, ast.Raise):
                        out.append(("raise", st.exc, n, loc_))
                        continue
                    if isinstance(st, ast.Expr) and isinstance(st.value, ast.Call) and isinstance(st.value.func, ast.Attribute) and st.value.func.attr == "raiseException":
                        self.val(st.value.func.value, env, loc_)
                        out.append(("raise", st.value.func.value, n, loc_))
                        continue
                    if isinstance(st, ast.Assert):
                        pass
                    else:
                        for t, v in targets_values(st):
                            if isinstance(t, ast.Name):
                                loc_ = dict(loc_)
                                loc_[t.id] = self.val(v, env, loc_) if v is not None else "?"
                labs = None
                if node.kind == "test":
                    loc_ = dict(loc_)
                    v = self.val(node.ast, env, loc_)
                    if v == "NORES":
                        v = True        # the marker object is truthy
                    if v in (True, False) or (isinstance(v, int) and not isinstance(v, str)):
                        labs = ["T" if v else "F"]
            except _Stale as ex:
                out.append(("stale", str(ex), n, loc_))
                continue
            for d, l in g.succ[n]:
                if l == "exc":
                    continue
                if labs is not None and l in ("T", "F") and l not in labs:
                    continue
                stack.append((d, loc_, depth + 1))
        return out


def short_text(node):
    return src(node)[:40]


def _check_await(ctx):
    import itertools
    itf = inlined_func(ctx, DEFER, "Deferred.__iter__")
    iq = Q + "Deferred.__iter__"
    E = _AwaitEval(ctx, itf)
    g = E.g
    envs = [dict(zip(("paused", "has", "fail"), v)) for v in itertools.product((0, 1), repeat=3) if not (v[2] and not v[1])]
    lab = lambda e: f"paused={'T' if e['paused'] else 'F'} result={'failure' if e['fail'] else ('value' if e['has'] else 'none')}"
    any_yield = False

    def judge(outs, env, cons):
        nonlocal any_yield
        want = "yield" if (env["paused"] or not env["has"]) else ("raise" if env["fail"] else "return")
        resumes = []
        ok_susp = ok_paused = ok_has = ok_kind = ok_self = ok_fresh = True
        for kind, v, n, loc in outs:
            if kind == "stale":
                ok_fresh = False
                continue
            if kind == "spin":
                ok_kind = False
                continue
            if kind == "yield":
                any_yield = True
                if not (isinstance(v, ast.Yield) and is_name(v.value, "self")):
                    ok_self = False
                if want != "yield":
                    ok_susp = False
                resumes.append((n, loc))
                continue
            if want == "yield":
                if env["paused"]:
                    ok_paused = False
                else:
                    ok_has = False
                continue
            try:
                if kind == "return":
                    subject_ok = v is not None and E.val(v, env, loc) == "RES"
                else:   # raise: the exception comes from the result (result.raiseException() / raise result.value ...)
                    subject_ok = v is not None and any(isinstance(x, ast.Name) and loc.get(x.id) == "RES" for x in ast.walk(v))
            except _Stale:
                subject_ok, ok_fresh = False, False
            if kind != want or not subject_ok:
                ok_kind = False
        ctx.check(ok_susp, "await/suspends-only-without-result", cons, detail=DOMAIN_NOTE, fails="the awaiter suspends although the Deferred has a result and is not paused")
        ctx.check(ok_paused, "await/not-while-paused", cons, detail=DOMAIN_NOTE, fails="an outcome is delivered although the Deferred is paused")
        ctx.check(ok_has, "await/only-with-result", cons, detail=DOMAIN_NOTE, fails="an outcome is delivered although the Deferred has no result (the _NO_RESULT marker would be delivered)")
        ctx.check(ok_kind, "await/value-returned-failure-raised", cons,
                  "the awaiter does not return a plain result / raise a Failure result (a Failure is returned, a value raised, or something other than the result delivered)")
        ctx.check(ok_self, "await/yields-itself", cons, detail=DOMAIN_NOTE, fails="the object handed to the driver is not the awaited Deferred itself")
        ctx.check(ok_fresh, "await/result-reread-after-resume", cons, detail=DOMAIN_NOTE, fails="after being resumed the awaiter uses the result it read before suspending (stale _NO_RESULT)")
        return resumes
    tests, outside = E.vocabulary()
    domain = ("finite-exhaustive: every valuation of (paused, has a result, result is a Failure) - the only facts about the Deferred the "
              f"{len(tests)} branch conditions of __iter__ read ({'; '.join(tests)})"
              + (f"; conditions outside that vocabulary are followed both ways: {'; '.join(outside)}" if outside else "")
              + " - at the first poll and, as a fixpoint, at every resume point with all locals stale (so any number of suspensions is covered)")
    ctx.ok("await/domain-complete", iq, domain)
    pending, done = [], set()
    for env in envs:
        outs = E.poll(g.entry, env, {})
        ctx.check(bool(outs), "await/delivers-both-outcomes", iq + " | " + lab(env), "no path through __iter__ for this state", detail=domain)
        pending += [n for n, _ in judge(outs, env, f"{iq} | first poll: {lab(env)}")]
    # fixpoint over resume points: after a suspension the abstract state is (the yield it resumes from, every local stale)
    while pending:
        n = pending.pop()
        if n in done:
            continue
        done.add(n)
        where = short_text(g.node(n).ast)
        for env2 in envs:
            outs2 = []
            for d, l in g.succ[n]:
                if l != "exc":
                    outs2 += E.poll(d, env2, {"*": "STALE"})
            pending += [m for m, _ in judge(outs2, env2, f"{iq} | resumed at `{where}`: {lab(env2)}") if m not in done]
    ctx.check(any_yield, "await/suspends", iq, "__iter__ never yields: awaiting an unfired Deferred cannot suspend")



def _value_of(v, e) -> bool:
    """`e.value` or getattr(e, "value", ...)"""
    if e is None:
        return False
    if attr_of(v, "value", e):
        return True
    return isinstance(v, ast.Call) and dotted(v.func) == "getattr" and len(v.args) >= 2 and is_name(v.args[0], e) and isinstance(v.args[1], ast.Constant) and v.args[1].value == "value"


def _is_failure_test(e, res) -> bool:
    return isinstance(e, ast.Call) and dotted(e.func) == "isinstance" and len(e.args) == 2 and is_name(e.args[0], res) and is_name(e.args[1], "Failure")


def _uncast(e):
    while isinstance(e, ast.Call) and (dotted(e.func) or "").split(".")[-1] == "cast" and len(e.args) == 2:
        e = e.args[1]
    return e


def _reads_self_result(v) -> bool:
    for x in ast.walk(v):
        if attr_of(x, "result", "self"):
            return True
        if isinstance(x, ast.Call) and dotted(x.func) == "getattr" and len(x.args) >= 2 and is_name(x.args[0], "self") \
                and isinstance(x.args[1], ast.Constant) and x.args[1].value == "result":
            return True
    return False


def _routes_to_hook(fn, status_name) -> bool:
    """fn (lambda / def with one parameter p) does exactly `_addCancelCallbackToDeferred(p, <status_name>)`"""
    if isinstance(fn, ast.Lambda):
        ps, body = [a.arg for a in fn.args.args], fn.body
    elif isinstance(fn, (ast.FunctionDef,)):
        ps = [a.arg for a in fn.args.args]
        stmts = [st for st in fn.body if not (isinstance(st, ast.Expr) and isinstance(st.value, ast.Constant))]
        if len(stmts) != 1 or not isinstance(stmts[0], (ast.Expr, ast.Return)):
            return False
        body = stmts[0].value
    else:
        return False
    return len(ps) == 1 and isinstance(body, ast.Call) and is_name(body.func, "_addCancelCallbackToDeferred") and len(body.args) == 2 \
        and not body.keywords and is_name(body.args[0], ps[0]) and is_name(body.args[1], status_name)


def _canceller_ok(dcall, status_name, encl=None, mod=None) -> bool:
    """Deferred(<canceller>) whose canceller does `_addCancelCallbackToDeferred(d, <status>)`: a lambda, a nested function of the
    enclosing function, or the product of a module-level factory called with the status."""
    if not (isinstance(dcall, ast.Call) and dotted(dcall.func) == "Deferred"):
        return False
    c = dcall.args[0] if dcall.args else next((k.value for k in dcall.keywords if k.arg == "canceller"), None)
    if isinstance(c, ast.Lambda):
        return _routes_to_hook(c, status_name)
    if isinstance(c, ast.Name) and encl is not None:
        defs = [st for st in ast.walk(encl) if isinstance(st, ast.FunctionDef) and st is not encl and st.name == c.id]
        return len(defs) == 1 and _routes_to_hook(defs[0], status_name)
    if isinstance(c, ast.Call) and isinstance(c.func, ast.Name) and mod is not None and len(c.args) == 1 and not c.keywords and is_name(c.args[0], status_name):
        fac = mod.find(c.func.id)
        if isinstance(fac, ast.FunctionDef) and len(fac.args.args) == 1:
            fp = fac.args.args[0].arg
            rets = [st for st in ast.walk(fac) if isinstance(st, ast.Return) and mod.enclosing_function(st) is fac]
            if len(rets) == 1:
                rv = rets[0].value
                if isinstance(rv, ast.Lambda):
                    return _routes_to_hook(rv, fp)
                if isinstance(rv, ast.Name):
                    defs = [st for st in fac.body if isinstance(st, ast.FunctionDef) and st.name == rv.id]
                    return len(defs) == 1 and _routes_to_hook(defs[0], fp)
    return False


D = DEFER
MUTANTS = [
    Mutant("outcome-read-from-fired-deferred", D,
           "            # a deferred was yielded, get the result.\n            result.addBoth(_gotResultInlineCallbacks, waiting, gen, status, context)  # type: ignore[attr-defined]\n",
           "            if result.called and not result.paused and not result.callbacks:  # type: ignore[attr-defined]\n                fired = result\n                result = fired.result  # type: ignore[attr-defined]\n                fired.result = None  # type: ignore[attr-defined]\n                continue\n            # a deferred was yielded, get the result.\n            result.addBoth(_gotResultInlineCallbacks, waiting, gen, status, context)  # type: ignore[attr-defined]\n",
           expect_rule="outcome/read-only-when-idle"),
    Mutant("outcome-peek-in-helper", D,
           "    if waiting[0]:\n        waiting[0] = False\n        waiting[1] = r\n",
           "    if waiting[0]:\n        waiting[0] = False\n        waiting[1] = getattr(status.waitingOn, \"result\", r)\n",
           expect_rule="outcome/read-only-when-idle"),
    Mutant("waitingOn-before-wrapping", D,
           "        if not isDeferred and (iscoroutine(result) or inspect.isgenerator(result)):\n            result = _cancellableInlineCallbacks(result)",
           "        status.waitingOn = result  # type: ignore[assignment]\n        if not isDeferred and (iscoroutine(result) or inspect.isgenerator(result)):\n            result = _cancellableInlineCallbacks(result)",
           more=[(D, "                waiting[0] = False\n                status.waitingOn = result  # type: ignore[assignment]\n                return\n", "                waiting[0] = False\n                return\n")],
           expect_rule="cancel-target/"),
    Mutant("fall-through-after-errback", D, "        except BaseException:\n            status.deferred.errback()\n            return\n",
           "        except BaseException:\n            status.deferred.errback()\n", expect_rule="fire/then-return"),
    Mutant("handler-narrowed", D, "        except BaseException:\n            status.deferred.errback()\n", "        except Exception:\n            status.deferred.errback()\n",
           expect_rule="resume/exceptions-caught"),
    Mutant("replace-deferred-after-cancel", D,
           "    status.deferred = Deferred(lambda d: _addCancelCallbackToDeferred(d, status))\n\n    # We would only end up here",
           "    # We would only end up here",
           more=[(D, "    awaited.cancel()\n\n    return status.deferred\n", "    awaited.cancel()\n    status.deferred = Deferred(lambda d: _addCancelCallbackToDeferred(d, status))\n\n    return status.deferred\n")],
           expect_rule="cancel/new-result-before-call-out"),
    Mutant("register-success-only", D, "result.addBoth(_gotResultInlineCallbacks, waiting, gen, status, context)", "result.addCallback(_gotResultInlineCallbacks, waiting, gen, status, context)",
           expect_rule="await/both-outcomes-resume"),
    Mutant("slot-reset-before-read", D, "            result = waiting[1]\n            # Reset waiting to initial values for next loop.", "            waiting[1] = None\n            result = waiting[1]\n            # Reset waiting to initial values for next loop.",
           expect_rule="await/sync-outcome-read-before-reset"),
    Mutant("old-callbacks-dropped", D, "    it = it.addErrback(_handleCancelInlineCallbacks, status)\n    it.callbacks.extend(tmp)\n", "    it = it.addErrback(_handleCancelInlineCallbacks, status)\n",
           expect_rule="cancel-hook/steps-present"),
    Mutant("rotation-of-the-wrong-end", D, "    it.callbacks, tmp = [], it.callbacks\n    it = it.addErrback(_handleCancelInlineCallbacks, status)\n    it.callbacks.extend(tmp)\n",
           "    it.addErrback(_handleCancelInlineCallbacks, status)\n    it.callbacks = it.callbacks[1:] + it.callbacks[:1]\n", expect_rule="cancel-hook/"),
    Mutant("handler-added-last", D, "    it.callbacks, tmp = [], it.callbacks\n    it = it.addErrback(_handleCancelInlineCallbacks, status)\n    it.callbacks.extend(tmp)\n",
           "    it = it.addErrback(_handleCancelInlineCallbacks, status)\n", expect_rule="cancel-hook/"),
    Mutant("await-stale-result", D, "        while True:\n            if self.paused:\n                # If we're paused, we have no result to give\n                yield self\n                continue\n\n            result = getattr(self, \"result\", _NO_RESULT)\n",
           "        result = getattr(self, \"result\", _NO_RESULT)\n        while True:\n            if self.paused:\n                # If we're paused, we have no result to give\n                yield self\n                continue\n\n",
           expect_rule="await/result-reread-after-resume"),
    Mutant("await-ignores-pause", D, "            if self.paused:\n                # If we're paused, we have no result to give\n                yield self\n                continue\n\n            result = getattr",
           "            result = getattr", expect_rule="await/not-while-paused"),
    Mutant("cancel-result-too", D, "    awaited.cancel()\n\n    return status.deferred\n", "    awaited.cancel()\n    status.deferred.cancel()\n\n    return status.deferred\n",
           expect_rule="cancel/exactly-one-target"),
    Mutant("return-value-from-wrong-source", D, "            callbackValue = getattr(e, \"value\", None)\n", "            callbackValue = result\n", expect_rule="return-value/flow"),
    Mutant("failure-sent-as-value", D, "            if isFailure:\n                result = context.run(\n                    cast(Failure, result).throwExceptionIntoGenerator, gen\n                )\n            else:\n                result = context.run(gen.send, result)\n",
           "            result = context.run(gen.send, result)\n", expect_rule="resume/send-or-throw"),
    Mutant("cancel-status-deferred-not-awaited", D, "    awaited = status.waitingOn\n", "    awaited = status.deferred\n", expect_rule="cancel/target-is-waitingOn"),
    Mutant("helper-restarts-with-stale-status", D, "        _inlineCallbacks(r, gen, status, context)\n", "        _inlineCallbacks(r, gen, _CancellationStatus(status.deferred), context)\n",
           expect_rule="await/helper-continues-same-run"),
    Mutant("suspend-without-recording", D, "                status.waitingOn = result  # type: ignore[assignment]\n", "", expect_rule="cancel-target/recorded"),
    Mutant("return-dropped-after-callback", D, "            status.deferred.callback(callbackValue)\n            return\n", "            status.deferred.callback(callbackValue)\n",
           expect_rule="fire/then-return"),
    Mutant("failure-route-swaps-gen-and-status", D, "result.addBoth(_gotResultInlineCallbacks, waiting, gen, status, context)",
           "result.addCallbacks(_gotResultInlineCallbacks, _gotResultInlineCallbacks, callbackArgs=(waiting, gen, status, context), errbackArgs=(waiting, status, gen, context))",
           expect_rule="await/helper-continues-same-run"),
    Mutant("await-reads-no-result", D, "            result = getattr(self, \"result\", _NO_RESULT)\n            if result is _NO_RESULT:\n                yield self\n                continue\n\n            if isinstance(result, Failure):",
           "            if not self.called:\n                yield self\n                continue\n            result = self.callbacks\n            if isinstance(result, Failure):", expect_rule="await/"),
    Mutant("cell-read-before-registration", D, "            result.addBoth(_gotResultInlineCallbacks, waiting, gen, status, context)  # type: ignore[attr-defined]\n            if waiting[0]:",
           "            stillWaiting = waiting[0]\n            result.addBoth(_gotResultInlineCallbacks, waiting, gen, status, context)  # type: ignore[attr-defined]\n            if stillWaiting:", expect_rule="resume/"),
    Mutant("result-deferred-cached-before-resuming", D, "    stopIteration: bool = False\n    callbackValue: Any = None\n\n    while 1:\n",
           "    stopIteration: bool = False\n    callbackValue: Any = None\n    outcomeDeferred = status.deferred\n\n    while 1:\n",
           more=[(D, "            status.deferred.callback(callbackValue)\n            return\n", "            outcomeDeferred.callback(callbackValue)\n            return\n")],
           expect_rule="fire/reads-current-result-deferred"),
    Mutant("marker-cell-re-armed-with-the-wrong-marker", D, "    waiting: List[Any] = [True, None]\n\n    stopIteration: bool = False\n", "    waiting: List[Any] = [_HERE]\n\n    stopIteration: bool = False\n",
           more=[(D, "    if waiting[0]:\n        waiting[0] = False\n        waiting[1] = r\n    else:\n        _inlineCallbacks(r, gen, status, context)\n",
                  "    if waiting[0] is _GONE:\n        _inlineCallbacks(r, gen, status, context)\n        return\n    waiting[0] = r\n"),
                 (D, "            if waiting[0]:\n                # Haven't called back yet, set flag so that we get reinvoked\n                # and return from the loop\n                waiting[0] = False\n                status.waitingOn",
                  "            if waiting[0] is _HERE:\n                waiting[0] = _GONE\n                status.waitingOn"),
                 (D, "            result = waiting[1]\n", "            result = waiting[0]\n"),
                 (D, "            # branch above would have been taken.\n\n            waiting[0] = True\n            waiting[1] = None\n", "            # branch above would have been taken.\n\n            waiting[0] = _GONE\n"),
                 (D, "def _gotResultInlineCallbacks(\n", "_HERE = object()\n_GONE = object()\n\n\ndef _gotResultInlineCallbacks(\n")], expect_rule=None),
    Mutant("failure-flag-hoisted-out-of-the-loop", D, "    while 1:\n        try:\n            # Send the last result back as the result of the yield expression.\n            isFailure = isinstance(result, Failure)\n",
           "    isFailure = isinstance(result, Failure)\n    while 1:\n        try:\n            # Send the last result back as the result of the yield expression.\n",
           more=[(D, "            result = waiting[1]\n            # Reset waiting to initial values for next loop.", "            result = waiting[1]\n            isFailure = isinstance(result, Failure)\n            # Reset waiting to initial values for next loop.")],
           expect_rule="resume/decision-uses-this-iterations-outcome"),
    Mutant("cancel-forwarded-only-to-uncalled-links", D, "        elif isinstance(self.result, Deferred):\n            # Waiting for another deferred -- cancel it instead.\n",
           "        elif isinstance(self.result, Deferred) and not self.result.called:\n            # Waiting for another deferred -- cancel it instead.\n", expect_rule="C03:cancel/forward"),
    Mutant("boxed-return-value-from-the-wrong-source", D, "    stopIteration: bool = False\n    callbackValue: Any = None\n", "    done: tuple = ()\n",
           more=[(D, "            stopIteration = True\n            callbackValue = getattr(e, \"value\", None)\n", "            done = (result,)\n"),
                 (D, "            stopIteration = True\n            callbackValue = e.value\n", "            done = (e.value,)\n"),
                 (D, "        if stopIteration:\n", "        if done:\n"),
                 (D, "            status.deferred.callback(callbackValue)\n", "            status.deferred.callback(done[0])\n")],
           expect_rule="return-value/flow"),
]
SILENT = [
    Silent("outcome-read-fully-guarded", D,
           "            # a deferred was yielded, get the result.\n            result.addBoth(_gotResultInlineCallbacks, waiting, gen, status, context)  # type: ignore[attr-defined]\n",
           "            if result.called and not result.paused and not result._runningCallbacks:  # type: ignore[attr-defined]\n                _settled = result.result  # type: ignore[attr-defined]\n            # a deferred was yielded, get the result.\n            result.addBoth(_gotResultInlineCallbacks, waiting, gen, status, context)  # type: ignore[attr-defined]\n"),
    Silent("cancel-attribute-directly", D, "    awaited = status.waitingOn\n    assert awaited is not None\n    awaited.cancel()\n", "    assert status.waitingOn is not None\n    status.waitingOn.cancel()\n"),
    Silent("suspend-stores-reordered", D, "                waiting[0] = False\n                status.waitingOn = result  # type: ignore[assignment]\n                return\n",
           "                status.waitingOn = result  # type: ignore[assignment]\n                waiting[0] = False\n                return\n"),
    Silent("errback-explicit-failure", D, "        except BaseException:\n            status.deferred.errback()\n            return\n", "        except:  # noqa\n            status.deferred.errback(Failure())\n            return\n"),
    Silent("iter-elif", D, "            result = getattr(self, \"result\", _NO_RESULT)\n            if result is _NO_RESULT:\n                yield self\n                continue\n\n            if isinstance(result, Failure):",
           "            outcome = result = getattr(self, \"result\", _NO_RESULT)\n            if outcome is _NO_RESULT:\n                yield self\n                continue\n            elif isinstance(result, Failure):"),
    Silent("rename-tmp", D, "    it.callbacks, tmp = [], it.callbacks\n    it = it.addErrback(_handleCancelInlineCallbacks, status)\n    it.callbacks.extend(tmp)\n",
           "    old = it.callbacks\n    it.callbacks = []\n    it.addErrback(_handleCancelInlineCallbacks, status)\n    it.callbacks.extend(old)\n"),
    Silent("iter-merged-suspend-test", D, "            if self.paused:\n                # If we're paused, we have no result to give\n                yield self\n                continue\n\n            result = getattr(self, \"result\", _NO_RESULT)\n            if result is _NO_RESULT:\n",
           "            result = getattr(self, \"result\", _NO_RESULT)\n            if self.paused or result is _NO_RESULT:\n"),
    Silent("replacement-through-local", D, "    status.deferred = Deferred(lambda d: _addCancelCallbackToDeferred(d, status))\n\n    # We would",
           "    fresh = Deferred(lambda d: _addCancelCallbackToDeferred(d, status))\n    status.deferred = fresh\n\n    # We would",
           more=[(D, "    awaited.cancel()\n\n    return status.deferred\n", "    awaited.cancel()\n\n    return fresh\n")]),
    Silent("callback-inside-handler", D, "            stopIteration = True\n            callbackValue = getattr(e, \"value\", None)\n", "            status.deferred.callback(getattr(e, \"value\", None))\n            return\n"),
    Silent("registration-by-keywords", D, "result.addBoth(_gotResultInlineCallbacks, waiting, gen, status, context)",
           "result.addCallbacks(callback=_gotResultInlineCallbacks, errback=_gotResultInlineCallbacks, callbackArgs=(waiting, gen, status, context), errbackArgs=(waiting, gen, status, context))"),
    Silent("await-conditional-read", D, "            result = getattr(self, \"result\", _NO_RESULT)\n            if result is _NO_RESULT:\n                yield self",
           "            result = self.result if self.called else _NO_RESULT\n            if result is _NO_RESULT:\n                yield self"),
    Silent("suspend-test-through-temporary", D, "            if waiting[0]:\n                # Haven't called back yet, set flag so that we get reinvoked\n                # and return from the loop\n                waiting[0] = False\n                status.waitingOn = result  # type: ignore[assignment]\n                return\n\n            result = waiting[1]\n            # Reset waiting to initial values for next loop.  gotResult uses\n            # waiting, but this isn't a problem because gotResult is only\n            # executed once, and if it hasn't been executed yet, the return\n            # branch above would have been taken.\n\n            waiting[0] = True\n            waiting[1] = None\n",
           "            stillWaiting = waiting[0]\n            if not stillWaiting:\n                result, waiting[1] = waiting[1], None\n                waiting[0] = True\n                continue\n            waiting[0] = False\n            status.waitingOn = result\n            return\n"),
    Silent("resume-extracted-into-helper", D, "            isFailure = isinstance(result, Failure)\n\n            if isFailure:\n                result = context.run(\n                    cast(Failure, result).throwExceptionIntoGenerator, gen\n                )\n            else:\n                result = context.run(gen.send, result)\n",
           "            isFailure = isinstance(result, Failure)\n            result = _advance(gen, result, context)\n",
           more=[(D, "@_extraneous\ndef _inlineCallbacks(", "def _advance(gen, outcome, context):\n    if isinstance(outcome, Failure):\n        return context.run(outcome.throwExceptionIntoGenerator, gen)\n    return context.run(gen.send, outcome)\n\n\n@_extraneous\ndef _inlineCallbacks(")]),
    Silent("failure-routed-straight-to-the-driver", D, "result.addBoth(_gotResultInlineCallbacks, waiting, gen, status, context)",
           "result.addCallbacks(_gotResultInlineCallbacks, _inlineCallbacks, callbackArgs=(waiting, gen, status, context), errbackArgs=(gen, status, context))"),
    Silent("result-deferred-read-at-the-firing-through-local", D, "            status.deferred.callback(callbackValue)\n            return\n",
           "            outcomeDeferred = status.deferred\n            outcomeDeferred.callback(callbackValue)\n            return\n"),
    Silent("cancellers-named-and-from-a-factory", D, "    status.deferred = Deferred(lambda d: _addCancelCallbackToDeferred(d, status))\n\n    # We would",
           "    status.deferred = Deferred(_makeCanceller(status))\n\n    # We would",
           more=[(D, "    deferred: Deferred[_T] = Deferred(lambda d: _addCancelCallbackToDeferred(d, status))\n    status = _CancellationStatus(deferred)\n",
                  "    def onCancel(d):\n        _addCancelCallbackToDeferred(d, status)\n\n    deferred: Deferred[_T] = Deferred(onCancel)\n    status = _CancellationStatus(deferred)\n"),
                 (D, "def _handleCancelInlineCallbacks(\n", "def _makeCanceller(status):\n    def onCancel(d):\n        _addCancelCallbackToDeferred(d, status)\n\n    return onCancel\n\n\ndef _handleCancelInlineCallbacks(\n")]),
    Silent("await-single-polling-loop", D,
           "        while True:\n            if self.paused:\n                # If we're paused, we have no result to give\n                yield self\n                continue\n\n            result = getattr(self, \"result\", _NO_RESULT)\n            if result is _NO_RESULT:\n                yield self\n                continue\n\n            if isinstance(result, Failure):\n                # Clear the failure on debugInfo so it doesn't raise \"unhandled\n                # exception\"\n                assert self._debugInfo is not None\n                self._debugInfo.failResult = None\n                result.raiseException()\n            else:\n                return result  # type: ignore[return-value]\n",
           "        while True:\n            result = _NO_RESULT if self.paused else getattr(self, \"result\", _NO_RESULT)\n            if result is not _NO_RESULT:\n                break\n            yield self\n        if not isinstance(result, Failure):\n            return result\n        assert self._debugInfo is not None\n        self._debugInfo.failResult = None\n        result.raiseException()\n"),
    Silent("resume-selected-through-a-tuple", D, "            if isFailure:\n                result = context.run(\n                    cast(Failure, result).throwExceptionIntoGenerator, gen\n                )\n            else:\n                result = context.run(gen.send, result)\n",
           "            if isFailure:\n                step, what = cast(Failure, result).throwExceptionIntoGenerator, gen\n            else:\n                step, what = gen.send, result\n            result = context.run(step, what)\n"),
    Silent("return-handled-after-the-loop", D, "            stopIteration = True\n            callbackValue = getattr(e, \"value\", None)\n", "            callbackValue = getattr(e, \"value\", None)\n            break\n",
           more=[(D, "            stopIteration = True\n            callbackValue = e.value\n", "            callbackValue = e.value\n            break\n"),
                 (D, "        if stopIteration:\n            # Call the callback outside of the exception handler to avoid inappropriate/confusing\n            # \"During handling of the above exception, another exception occurred:\" if the callback\n            # itself throws an exception.\n            status.deferred.callback(callbackValue)\n            return\n\n", ""),
                 (D, "            waiting[0] = True\n            waiting[1] = None\n\n\ndef _addCancelCallbackToDeferred(", "            waiting[0] = True\n            waiting[1] = None\n\n    status.deferred.callback(callbackValue)\n\n\ndef _addCancelCallbackToDeferred(")]),
    Silent("await-polls-in-the-loop-condition", D,
           "        while True:\n            if self.paused:\n                # If we're paused, we have no result to give\n                yield self\n                continue\n\n            result = getattr(self, \"result\", _NO_RESULT)\n            if result is _NO_RESULT:\n                yield self\n                continue\n\n            if isinstance(result, Failure):\n                # Clear the failure on debugInfo so it doesn't raise \"unhandled\n                # exception\"\n                assert self._debugInfo is not None\n                self._debugInfo.failResult = None\n                result.raiseException()\n            else:\n                return result  # type: ignore[return-value]\n",
           "        while self.paused or (outcome := getattr(self, \"result\", _NO_RESULT)) is _NO_RESULT:\n            yield self\n        if isinstance(outcome, Failure):\n            assert self._debugInfo is not None\n            self._debugInfo.failResult = None\n            outcome.raiseException()\n        return outcome\n"),
    Silent("one-slot-cell-with-private-markers", D, "    waiting: List[Any] = [True, None]\n\n    stopIteration: bool = False\n", "    waiting: List[Any] = [_HERE]\n\n    stopIteration: bool = False\n",
           more=[(D, "    if waiting[0]:\n        waiting[0] = False\n        waiting[1] = r\n    else:\n        _inlineCallbacks(r, gen, status, context)\n",
                  "    if waiting[0] is _GONE:\n        _inlineCallbacks(r, gen, status, context)\n        return\n    waiting[0] = r\n"),
                 (D, "            if waiting[0]:\n                # Haven't called back yet, set flag so that we get reinvoked\n                # and return from the loop\n                waiting[0] = False\n                status.waitingOn",
                  "            if waiting[0] is _HERE:\n                waiting[0] = _GONE\n                status.waitingOn"),
                 (D, "            result = waiting[1]\n", "            result = waiting[0]\n"),
                 (D, "            # branch above would have been taken.\n\n            waiting[0] = True\n            waiting[1] = None\n", "            # branch above would have been taken.\n\n            waiting[0] = _HERE\n"),
                 (D, "def _gotResultInlineCallbacks(\n", "_HERE = object()\n_GONE = object()\n\n\ndef _gotResultInlineCallbacks(\n")]),
    Silent("handler-added-then-rotated-to-the-front", D, "    it.callbacks, tmp = [], it.callbacks\n    it = it.addErrback(_handleCancelInlineCallbacks, status)\n    it.callbacks.extend(tmp)\n",
           "    it.addErrback(_handleCancelInlineCallbacks, status)\n    it.callbacks = it.callbacks[-1:] + it.callbacks[:-1]\n"),
    Silent("return-value-in-a-marker-initialised-local", D, "    stopIteration: bool = False\n    callbackValue: Any = None\n", "    answer: Any = _NO_RESULT\n",
           more=[(D, "            stopIteration = True\n            callbackValue = getattr(e, \"value\", None)\n", "            answer = getattr(e, \"value\", None)\n"),
                 (D, "            stopIteration = True\n            callbackValue = e.value\n", "            answer = e.value\n"),
                 (D, "        if stopIteration:\n", "        if answer is not _NO_RESULT:\n"),
                 (D, "            status.deferred.callback(callbackValue)\n", "            status.deferred.callback(answer)\n")]),
    Silent("return-value-boxed-in-a-one-tuple-and-named-cell-slots", D, "    stopIteration: bool = False\n    callbackValue: Any = None\n", "    done: tuple = ()\n",
           more=[(D, "            stopIteration = True\n            callbackValue = getattr(e, \"value\", None)\n", "            done = (getattr(e, \"value\", None),)\n"),
                 (D, "            stopIteration = True\n            callbackValue = e.value\n", "            done = (e.value,)\n"),
                 (D, "        if stopIteration:\n", "        if done:\n"),
                 (D, "            status.deferred.callback(callbackValue)\n", "            status.deferred.callback(done[0])\n"),
                 (D, "    if waiting[0]:\n        waiting[0] = False\n        waiting[1] = r\n    else:\n        _inlineCallbacks(r, gen, status, context)\n",
                  "    if not waiting[_FLAG]:\n        _inlineCallbacks(r, gen, status, context)\n        return\n    waiting[_FLAG] = False\n    waiting[_VALUE] = r\n"),
                 (D, "def _gotResultInlineCallbacks(\n", "_FLAG = 0\n_VALUE = 1\n\n\ndef _gotResultInlineCallbacks(\n")]),
]
