"""C23 - the HTTP client completes every request exactly once, with the exact body."""
from __future__ import annotations

import ast

from sa.astx import call_attr, call_name, const_eval, lin_expect, lincmp, module_consts, src, walk_local, NotConst
from sa.effects import class_accesses
from sa.selftest import Mutant, Silent
from sa.source import AnalysisError
from sa.props._lib_f import Abstain, InterpError, MDeferred, MExc, MFailure, ModelRaised, NullLogger, inline_predicates, structural
from sa.source import class_assigns, methods
from sa.props._lib_f import (assign_sites, call_sites, catches_everything, class_functions, cmp_polarity, const_str,
                             enclosing_try_handlers, from_here, guarded_eq, handler_names, is_self_attr, local_assignments,
                             named_calls, never_returns_normally, none_guard, param_names, resolver, subst_eval)

PROPERTY = "C23"
INCLUDE = [("C22", None, "the HTTP client decodes chunked response bodies with http._ChunkedTransferDecoder: its clauses are necessary for "
            "'the body delivered equals the body bytes received' with chunked coding")]
P = "web/_newclient.py"
H = "web/http.py"
TECHNIQUE = ("structural: CFG dominance / must-pass / must-precede, state-set refinement along edge guards and typestate tables on a NORMALISED view of HTTPClientParser / "
             "Response (private helpers inlined, temporaries substituted, guard clauses as if/else, one-line predicates inlined); finite-exhaustive: the interim and no-body "
             "guards resolved for every status code 0..999 and every (no-body code?, HEAD?) truth assignment; bounded: the client classes interpreted as model objects on "
             "generated response histories")
EXPLANATION = (
    "Per clause.  (K1) THE RESPONSE DEFERRED FIRES EXACTLY ONCE - structural [parser/fire-sites, detach-after-fire, headers-complete-fires, body-decided, "
    "finished-before-body-finished, done-before-finisher, lost-errback-guard]: on the normalised HTTPClientParser, _responseDeferred is fired only in allHeadersReceived and "
    "connectionLost, every firing is followed on all normal paths by its detachment, allHeadersReceived cannot return normally without firing it or resetting for a 1xx, "
    "a decoder is installed XOR the body is marked finished before the firing, _finished() (state DONE) dominates every direct _bodyDataFinished() and the finisher "
    "call-out, and connectionLost errbacks only under `bodyDecoder is None and state != DONE` and does so on every such path.  finite-exhaustive [parser/interim-range, "
    "parser/no-body-branch, parser/no-body-codes]: the guard of the reset branch is resolved for every status code 0..999 (reset, and no firing, exactly for 100..199); for "
    "every truth assignment of (code in NO_BODY_CODES, method == HEAD) no decoder is reachable / length is 0 when either holds and a decoder is reachable when neither does; "
    "NO_BODY_CODES evaluates to {204, 304}.  structural [parser/interim-resets-message-state]: the per-message fields (what the connectionMade closure initialises, derived) that the "
    "next response's parsing / framing decision reads (derived from the non-interim part of allHeadersReceived and the line/header handlers, through their call closures) are all "
    "stored or deleted on the interim branch - so nothing a 1xx response carried (Content-Length, Transfer-Encoding, Connection) reaches the final response's framing.  (K2) THE REQUEST DEFERRED FIRES EXACTLY ONCE - structural [protocol/*]: _finishedRequest is fired/chained only where the "
    "refined state set is exactly {TRANSMITTING} and the state is changed before the firing, TRANSMITTING is entered only from QUIESCENT, the 6-state connectionLost "
    "matrix is complete and terminal, lost / parse-error / writeTo-error paths reach _disconnectParser (which detaches the parser before calling it) or errback the request, "
    "abort Deferreds are reset, and no per-request attribute is written after a call-out that can reach user code unless the state left QUIESCENT first.  (K3) THE BODY "
    "CONSUMER GETS connectionLost EXACTLY ONCE - structural [response/dispatch-matrix, transitions, consumer-lost-sites, finished-raises] on the normalised Response: the "
    "3 dispatchers x 4 states handler matrix is complete, the only state writes are the four transitions of the delivery machine and each such handler cannot return "
    "without making its transition, the consumer's connectionLost is called only in (bodyDataFinished, CONNECTED) and (deliverBody, DEFERRED_CLOSE), once per path, and "
    "is followed by the move to FINISHED, all of whose handlers never return normally.  (K4) THE REASON - structural [parser/lost-body-outcome, parser/lost-reason]: "
    "noMoreData() is asked once, only in the decoder branch, inside handlers for PotentialDataLoss and _DataLoss; every outcome (normal, each handler) passes through "
    "exactly one _bodyDataFinished with, respectively, the default (ResponseDone), Failure() of the PotentialDataLoss, Failure(ResponseFailed(...)).  (K5) THE BODY "
    "DELIVERED EQUALS THE BODY RECEIVED - structural only for the forwarding links [forward/identity, parser/decoder-wiring: bytes are handed unchanged from rawDataReceived "
    "to the decoder, the decoder is wired to response._bodyDataReceived / _finished] and by inclusion of C22 (chunked decoder; kinds as declared there); finite-exhaustive [decoder/identity-orderings]: http._IdentityTransferDecoder over every ordering of segment length and remaining length "
    "(<, =, >, 0, unknown; one and two segments; noMoreData re-entrantly from the finish callback and afterwards): exact body bytes, rest to the finish callback once, a complete "
    "body never reports loss, an incomplete one _DataLoss, unknown length PotentialDataLoss (order-only domain argument checked on the code); the value-level "
    "clause (identity decoder boundary, Response buffering before deliverBody, flush order, pause/resume) has BOUNDED evidence only [client/evaluated-histories]: "
    "HTTP11ClientProtocol, HTTPClientParser (with LineReceiver), Response and both transfer decoders are instantiated as model objects whose methods are the repository's "
    "functions (interpreted over the AST, never imported) and fed generated responses (Content-Length, chunked, close-delimited, HEAD, 204, 304, 1xx interims - also interims carrying framing headers of their own -, bytes following the body in the same segment, LF-only "
    "lines) whole and in segments, with the connection lost in status line / headers / body, early, late and transport-resuming consumers, persistent connections; the "
    "property statement is the oracle per history.  Why bounded only: the buffering clause is a statement about byte VALUES across re-entrant callbacks (a consumer that "
    "resumes the transport inside dataReceived), for which no shape-level decider was found that is silent on the behaviour-preserving refactors of the buffer handling; "
    "the same histories also re-check K1-K4 dynamically.  Not decided: abort() histories, body equality for all chunkings beyond the enumerated splits."
)
RULE_KINDS = {
    "parser/": "structural", "response/": "structural", "protocol/": "structural", "forward/": "structural",
    "decoder/identity-orderings": "finite-exhaustive", "parser/interim-range": "finite-exhaustive", "parser/no-body-branch": "finite-exhaustive", "parser/no-body-codes": "finite-exhaustive",
    "client/evaluated-histories": "bounded",
    # included "C22:<rule>" obligations are classified by sa/props/c22.py (sa/report.rule_kind looks them up there)
}
ASSUMPTIONS = [
    "transfer-decoder table values are callables (a non-None transferDecoder means a decoder is installed)",
    "Deferred.callback/errback/chainDeferred do not raise for an unfired Deferred",
    "makeStatefulDispatcher dispatches on the string stored in self._state (read: it does)",
]

DONE_DETACH = "self._responseDeferred"


def _fires(call, attr_owner):
    """call is <attr_owner>.callback(...) / .errback(...)"""
    return (isinstance(call.func, ast.Attribute) and call.func.attr in ("callback", "errback")
            and src(call.func.value) == attr_owner)


def _state_strings(mod, clsname):
    out = set()
    for q, f in class_functions(mod, clsname):
        for n in walk_local(f):
            if isinstance(n, ast.Assign) and any(is_self_attr(t, "_state") for t in n.targets):
                s = const_str(n.value)
                if s is not None:
                    out.add(s)
    ca = class_assigns(mod.find(clsname))
    if "_state" in ca and const_str(ca["_state"]) is not None:
        out.add(const_str(ca["_state"]))
    return out


def _dispatchers(cls):
    """{dispatch name: attribute name} from ``x = makeStatefulDispatcher("name", x)``."""
    out = {}
    for n in cls.body:
        if isinstance(n, ast.Assign) and isinstance(n.value, ast.Call) and call_attr(n.value) == "makeStatefulDispatcher" and n.value.args:
            s = const_str(n.value.args[0])
            if s:
                out[s] = n.targets[0].id if isinstance(n.targets[0], ast.Name) else s
    return out


def _handlers(cls, name):
    """{STATE: function node} for handlers ``_<name>_<STATE>`` (class-level aliases resolved)."""
    ms = methods(cls)
    out = {}
    pfx = f"_{name}_"
    for k, f in ms.items():
        if k.startswith(pfx):
            out[k[len(pfx):]] = f
    for k, v in class_assigns(cls).items():
        if k.startswith(pfx) and isinstance(v, ast.Name) and v.id in ms:
            out[k[len(pfx):]] = ms[v.id]
    return out


def _refine_states(g, n, start, attr="self._state"):
    s = set(start)
    for t, lab in g.edge_guards(n):
        e = g.node(t).ast
        if not (isinstance(e, ast.Compare) and len(e.ops) == 1):
            continue
        l, r = e.left, e.comparators[0]
        op = e.ops[0]
        if isinstance(op, (ast.Eq, ast.NotEq)):
            c = const_str(r) if src(l) == attr else (const_str(l) if src(r) == attr else None)
            if c is None:
                continue
            eq = isinstance(op, ast.Eq) == (lab == "T")
            s = (s & {c}) if eq else (s - {c})
        elif isinstance(op, (ast.In, ast.NotIn)) and src(l) == attr and isinstance(r, (ast.Tuple, ast.List, ast.Set)):
            cs = {const_str(x) for x in r.elts}
            if None in cs:
                continue
            inn = isinstance(op, ast.In) == (lab == "T")
            s = (s & cs) if inn else (s - cs)
    return s


KEEP = {"HTTPClientParser": {"allHeadersReceived", "connectionLost", "_finished", "statusReceived", "dataReceived", "isConnectionControlHeader", "parseVersion", "__init__"},
        "HTTPParser": {"lineReceived", "rawDataReceived", "switchToBodyMode", "connectionMade", "headerReceived", "allHeadersReceived", "statusReceived", "isConnectionControlHeader"},
        "Response": None}


class _NormCtx:
    """the same ctx, but functions / classes of the listed classes are handed out on the normalised view (private helpers inlined at their call sites, pure
    single-assignment temporaries substituted: sa/props/_lib_c.norm_class)"""

    def __init__(self, ctx):
        self._ctx = ctx

    def __getattr__(self, name):
        return getattr(self._ctx, name)

    def _keep(self, clsname):
        k = KEEP.get(clsname)
        if k is None:
            from sa.source import methods as _m
            k = {n for n in _m(self._ctx.cls(P, clsname)) if n.count("_") >= 2 or not n.startswith("_")} | {"__init__", "_construct"}
        return k

    def cls(self, rel, qual):
        if rel == P and qual in KEEP:
            from sa.props._lib_c import norm_class
            orig = self._ctx.cls(rel, qual)
            ncls = inline_predicates(norm_class(self._ctx, rel, qual, keep=self._keep(qual)), orig, keep=self._keep(qual))
            if ncls is not orig and not getattr(ncls, "_sa_temps_done", False):
                from sa.props._lib_f import subst_local_temps
                for fn in [n for n in ncls.body if isinstance(n, (ast.FunctionDef, ast.AsyncFunctionDef))]:
                    subst_local_temps(self._ctx, fn)          # `response = self.response; code = response.code` -> judged as self.response.code
                ncls._sa_temps_done = True
            return ncls
        return self._ctx.cls(rel, qual)

    def func(self, rel, qual, which=0):
        if rel == P and "." in qual and qual.split(".")[0] in KEEP and qual.count(".") == 1:
            clsname, name = qual.split(".")
            self._ctx.func(rel, qual)
            for n in self.cls(rel, clsname).body:
                if isinstance(n, (ast.FunctionDef, ast.AsyncFunctionDef)) and n.name == name:
                    return n
            raise Abstain(f"{qual} vanished during normalisation")
        return self._ctx.func(rel, qual, which)


class _TempCtx:
    """the same ctx, but the methods of HTTP11ClientProtocol are handed out with their naming temporaries substituted (`failure = Failure(X(reason))` ... `d.errback(failure)`
    is judged as `d.errback(Failure(X(reason)))`; `waiting = self._abortDeferreds` as the attribute itself)"""

    def __init__(self, ctx):
        self._ctx = ctx

    def __getattr__(self, name):
        return getattr(self._ctx, name)

    def func(self, rel, qual, which=0):
        f = self._ctx.func(rel, qual, which)
        if rel == P and qual.startswith("HTTP11ClientProtocol."):
            from sa.props._lib_f import temp_view
            return temp_view(self._ctx, f)
        return f


def _norm_class_functions(nctx, clsname):
    out = []

    def rec(node, prefix):
        for ch in ast.iter_child_nodes(node):
            if isinstance(ch, (ast.FunctionDef, ast.AsyncFunctionDef)):
                out.append((prefix + ch.name, ch))
                rec(ch, prefix + ch.name + ".")
            elif not isinstance(ch, ast.ClassDef):
                rec(ch, prefix)
    rec(nctx.cls(P, clsname), clsname + ".")
    return out


def check(ctx):
    mod = ctx.mod(P)
    with ctx.section("s-parser"):
        structural(ctx, "parser/*", "client/evaluated-histories (bounded)", _check_parser_structural, ctx, mod)
    with ctx.section("s-interim-reset"):
        structural(ctx, "parser/interim-resets-message-state", "client/evaluated-histories (bounded)", _check_interim_structural, ctx, mod)
    with ctx.section("fe-identity-decoder"):
        try:
            _fe_identity_decoder(ctx)
        except (InterpError, ModelRaised) as e:      # an exception of the interpreted code that no scenario expected is confined to this section
            raise AnalysisError(f"C23/fe-identity-decoder: the decoder uses a construct the evaluator cannot interpret: {e}")
    with ctx.section("s-response"):
        structural(ctx, "response/*", "client/evaluated-histories (bounded)", _check_response_structural, ctx, mod)
    with ctx.section("protocol"):
        _check_protocol(_TempCtx(ctx), mod)
    with ctx.section("client-evaluated"):
        try:
            _client_evaluated(ctx)
        except (InterpError, ModelRaised) as e:      # an exception of the interpreted code that no scenario expected is confined to this section
            raise AnalysisError(f"C23/client-evaluated: the client code uses a construct the evaluator cannot interpret: {e}")


# ------------------------------------------------------------------------------------------------
def _check_parser(ctx, mod):
    cls = ctx.cls(P, "HTTPClientParser")
    Q = "twisted.web._newclient.HTTPClientParser."
    # (1) who fires _responseDeferred
    nsites = 0
    for q, f in (_norm_class_functions(ctx, "HTTPClientParser") if isinstance(ctx, _NormCtx) else class_functions(mod, "HTTPClientParser")):
        g = ctx.cfg(f)
        sites = call_sites(g, lambda c: _fires(c, DONE_DETACH))
        for n, c in sites:
            nsites += 1
            ctx.check(q in ("HTTPClientParser.allHeadersReceived", "HTTPClientParser.connectionLost"), "parser/fire-sites",
                      ctx.construct("twisted.web._newclient." + q, c), "the response Deferred is fired in an unexpected method")
            detach = [i for i, st in assign_sites(g, lambda t: src(t) == DONE_DETACH)] + \
                     g.ids(lambda x: x.kind == "stmt" and isinstance(x.ast, ast.Delete) and any(src(t) == DONE_DETACH for t in x.ast.targets))
            w = g.must_pass([n], detach, exc=False)
            ctx.check(bool(detach) and w is None, "parser/detach-after-fire", ctx.construct("twisted.web._newclient." + q, c),
                      "the response Deferred stays attached after it was fired (a later connectionLost/headers would fire it again)",
                      witness=g.describe(w))
    ctx.floor("parser/fire-sites", nsites, 2)

    # allHeadersReceived
    f = ctx.func(P, "HTTPClientParser.allHeadersReceived")
    g = ctx.cfg(f)
    q = Q + "allHeadersReceived"
    cb = [n for n, c in call_sites(g, lambda c: _fires(c, DONE_DETACH) and c.func.attr == "callback")]
    ctx.check(len(cb) == 1, "parser/headers-complete-fires", q, f"allHeadersReceived has {len(cb)} callback sites for the response Deferred (exactly one expected)")
    for n, c in call_sites(g, lambda c: _fires(c, DONE_DETACH) and c.func.attr == "callback"):
        ctx.check(len(c.args) == 1 and src(c.args[0]) == "self.response", "parser/headers-complete-fires", ctx.construct(q, c),
                  "the response Deferred is not fired with the response object")
    resets = [n for n, c in named_calls(g, "self.connectionMade")]
    ctx.check(len(resets) == 1, "parser/interim-reset", q, "the interim (1xx) branch no longer resets the parser with connectionMade()")
    bad = []
    for v in range(0, 1000):
        R = g.reach([g.entry], edge_ok=resolver(g, {"self.response.code": v}))
        reset_r, cb_r = any(r in R for r in resets), any(c in R for c in cb)
        if (100 <= v <= 199) != reset_r or (100 <= v <= 199 and cb_r):
            bad.append(v)
    ctx.check(not bad, "parser/interim-range", q + " | <status codes reset as interim>",
              "the status codes for which the parser is reset (and the response Deferred not fired) are not exactly 100..199; "
              f"wrong for {bad[:3]}{'...' if len(bad) > 3 else ''}")
    for r in resets:
        w = g.path([r], cb, strict=True)
        ctx.check(w is None, "parser/interim-reset", ctx.construct(q, g.node(r).ast),
                  "after resetting for a 1xx response the method goes on to fire the response Deferred", witness=g.describe(w))
        dels = g.ids(lambda x: x.kind == "stmt" and isinstance(x.ast, ast.Delete) and any(src(t) == "self.response" for t in x.ast.targets))
        ctx.check(g.must_pass([r], dels, exc=False) is None and bool(dels), "parser/interim-reset", q + " | del self.response",
                  "the interim response object is kept after the reset")
    w = g.must_pass([g.entry], set(cb) | set(resets), exc=False)
    ctx.check(w is None, "parser/headers-complete-fires", q + " | <every normal path>",
              "allHeadersReceived can return normally without firing the response Deferred", witness=g.describe(w))
    sbm = [n for n, c in named_calls(g, "self.switchToBodyMode")]
    bdf = [n for n, c in named_calls(g, "self.response._bodyDataFinished")]
    fin = [n for n, c in named_calls(g, "self._finished")]
    ctx.check(bool(sbm) and bool(bdf), "parser/body-decided", q, "allHeadersReceived lost its switchToBodyMode / _bodyDataFinished sites")
    for c in cb:
        w = g.must_precede(set(sbm) | set(bdf), [c], exc=False)
        ctx.check(w is None, "parser/body-decided", ctx.construct(q, g.node(c).ast),
                  "the response can be handed out with neither a body decoder installed nor the body marked finished", witness=g.describe(w))
    for a in sbm:
        for b in bdf:
            w = g.path([a], [b], strict=True) or g.path([b], [a], strict=True)
            ctx.check(w is None, "parser/body-decided", ctx.construct(q, g.node(b).ast) + " <-> switchToBodyMode",
                      "a body decoder is installed and the body is also marked finished on one path", witness=g.describe(w))
    # the decoder is wired to the response and to _finished
    for n, c in named_calls(g, "self.switchToBodyMode"):
        inner = c.args[0] if c.args else None
        ok = isinstance(inner, ast.Call) and [src(a) for a in inner.args] == ["self.response._bodyDataReceived", "self._finished"]
        ctx.check(ok, "parser/decoder-wiring", ctx.construct(q, c), "the body decoder is not wired to response._bodyDataReceived / self._finished")
    # _finished() before every direct _bodyDataFinished()
    for b in bdf:
        w = g.must_precede(fin, [b], exc=False)
        ok = w is None
        how = "dominated by self._finished()"
        if not ok:
            # path-sensitive case: guarded by `X is None` where every `X = None` is preceded by _finished()
            for t, lab in g.edge_guards(b):
                e = g.node(t).ast
                if isinstance(e, ast.Compare) and len(e.ops) == 1 and isinstance(e.left, ast.Name) and src(e.comparators[0]) == "None":
                    isnone = isinstance(e.ops[0], (ast.Is, ast.Eq)) == (lab == "T")
                    if not isnone:
                        continue
                    var = e.left.id
                    nones = [st for st in local_assignments(f, var) if isinstance(st, ast.Assign) and isinstance(st.value, ast.Constant) and st.value.value is None]
                    if nones and all(g.must_precede(fin, g.ids_of(st), exc=False) is None for st in nones):
                        ok = True
                        how = f"guarded by `{var} is None`, and every `{var} = None` follows self._finished()"
        ctx.check(ok, "parser/finished-before-body-finished", ctx.construct(q, g.node(b).ast),
                  "the body is marked finished while the parser is not DONE: a later connectionLost errbacks the already fired/deleted response Deferred",
                  detail=how, witness=g.describe(w))
    # no-body responses
    env = module_consts(ctx.mod("web/_responses.py"))
    nb = class_assigns(cls).get("NO_BODY_CODES")
    try:
        codes = set(const_eval(nb, env)) if nb is not None else None
    except NotConst:
        codes = None
    ctx.check(codes == {204, 304}, "parser/no-body-codes", Q + "NO_BODY_CODES", f"the set of body-less status codes is {codes}, RFC 9110: 204 and 304")
    zero = [n for n, st in assign_sites(g, lambda x: src(x) == "self.response.length") if isinstance(st, ast.Assign) and src(st.value) == "0"]
    for v in (200, 204, 304, 404):
        for m in (b"GET", b"HEAD"):
            ok_e = resolver(g, {"self.response.code": v, "self.request.method": m, "self.NO_BODY_CODES": codes or set()})
            R = g.reach([g.entry], edge_ok=ok_e)
            label = q + f" | code={v} method={m.decode()}"
            # feasibility takes local None-flags into account (`decoderFactory = None ... if decoderFactory is None:`), not only the guards on code / method
            from sa.props._lib_f import flag_feasible_path
            if v in (204, 304) or m == b"HEAD":
                w = g.path([g.entry], sbm, edge_ok=ok_e) if flag_feasible_path(g, [g.entry], sbm, edge_ok=ok_e) else None
                ctx.check(w is None, "parser/no-body-branch", label,
                          "a body decoder is installed for a response that cannot have a body (HEAD/204/304): the next response's bytes are taken as its body",
                          witness=g.describe(w))
                w = g.path([g.entry], cb, avoid=zero, edge_ok=ok_e) if flag_feasible_path(g, [g.entry], cb, avoid=zero, edge_ok=ok_e) else None
                ctx.check(bool(zero) and w is None, "parser/no-body-branch", label + " | length", "response.length is not set to 0 for a body-less response",
                          witness=g.describe(w))
            else:
                ctx.check(flag_feasible_path(g, [g.entry], sbm, edge_ok=ok_e), "parser/no-body-branch", label, "a response that has a body never gets a body decoder")

    # _finished: state = DONE before the finisher call-out
    f = ctx.func(P, "HTTPClientParser._finished")
    g = ctx.cfg(f)
    q = Q + "_finished"
    done = [n for n, st in assign_sites(g, lambda x: src(x) == "self.state") if isinstance(st, ast.Assign) and src(st.value) == "DONE"]
    outs = [n for n, c in named_calls(g, "self.finisher")]
    ctx.check(bool(outs), "parser/done-before-finisher", q, "_finished no longer calls the finisher")
    for o in outs:
        w = g.must_precede(done, [o])
        ctx.check(bool(done) and w is None, "parser/done-before-finisher", ctx.construct(q, g.node(o).ast),
                  "the finisher runs before the parser is DONE: the protocol disconnects the parser, whose connectionLost then errbacks the response Deferred a second time",
                  witness=g.describe(w))
        c = [c for n, c in named_calls(g, "self.finisher") if n == o][0]
        ctx.check(len(c.args) == 1 and src(c.args[0]) in param_names(f), "parser/done-before-finisher", ctx.construct(q, c) + " | arg",
                  "the finisher is not given the extra bytes")

    # connectionLost
    f = ctx.func(P, "HTTPClientParser.connectionLost")
    g = ctx.cfg(f, swallowing=lambda e: src(e) == "_ignoreDecoderErrors")
    q = Q + "connectionLost"
    for n, c in call_sites(g, lambda c: _fires(c, DONE_DETACH)):
        ctx.check(c.func.attr == "errback", "parser/lost-errback-guard", ctx.construct(q, c), "connectionLost calls back the response Deferred with a success")
        ok = none_guard(g, n, "self.bodyDecoder", True) and guarded_eq(g, n, "self.state", "DONE", False)
        ctx.check(ok, "parser/lost-errback-guard", ctx.construct(q, c),
                  "the response Deferred is errbacked on connection loss although it has already fired (a decoder exists or the parser is DONE)")
    errs = call_sites(g, lambda c: _fires(c, DONE_DETACH))
    ctx.check(len(errs) >= 1, "parser/lost-errback-guard", q, "connection loss before the headers are complete no longer fails the request")
    # every path with no decoder and state != DONE reaches the errback
    tests = [t for t in g.ids(lambda x: x.kind == "test") if cmp_polarity(g.node(t).ast, "self.state", "DONE") is not None]
    for t in tests:
        pol = cmp_polarity(g.node(t).ast, "self.state", "DONE")
        nd = [d for d, l in g.succ[t] if l == ("F" if pol else "T")]
        w = from_here(g, nd, [n for n, c in errs])
        ctx.check(w is None, "parser/lost-errback-guard", ctx.construct(q, g.node(t).ast) + " | reaches errback",
                  "on connection loss before the headers completed there is a path that does not fail the request", witness=g.describe(w))
    nmd = named_calls(g, "self.bodyDecoder.noMoreData")
    ctx.check(len(nmd) == 1, "parser/lost-body-outcome", q, "connectionLost no longer asks the decoder noMoreData() exactly once")
    bdfs = named_calls(g, "self.response._bodyDataFinished")
    bdf_ids = [n for n, c in bdfs]
    for n, c in nmd:
        ctx.check(none_guard(g, n, "self.bodyDecoder", False), "parser/lost-body-outcome", ctx.construct(q, c), "noMoreData() is not confined to the decoder branch")
        hs = enclosing_try_handlers(f, c)
        names = {nm for h in hs for nm in handler_names(h)}
        ctx.check({"PotentialDataLoss", "_DataLoss"} <= names, "parser/lost-body-outcome", ctx.construct(q, c) + " | handlers",
                  f"handlers for the decoder's outcomes are missing (have {sorted(names)})")
        w = g.must_pass([n], bdf_ids, exc=False)
        ctx.check(w is None, "parser/lost-body-outcome", ctx.construct(q, c) + " | complete body",
                  "when the decoder reports a complete body the consumer is not told", witness=g.describe(w))
        for h in hs:
            hid = g.ids_of(h)
            w = from_here(g, hid, bdf_ids)
            ctx.check(w is None, "parser/lost-body-outcome", q + f" | except {'/'.join(handler_names(h))}",
                      "a decoder outcome is swallowed without telling the body consumer", witness=g.describe(w))
            inside = [c2 for c2 in ast.walk(h) if isinstance(c2, ast.Call) and call_name(c2) == "self.response._bodyDataFinished"]
            for c2 in inside:
                a = c2.args[0] if c2.args else None
                if "PotentialDataLoss" in handler_names(h):
                    ok = isinstance(a, ast.Call) and call_attr(a) == "Failure" and not a.args and not a.keywords
                    ctx.check(ok, "parser/lost-reason", ctx.construct(q, c2), "a close-delimited body is not reported with the PotentialDataLoss failure")
                elif "_DataLoss" in handler_names(h):
                    ok = isinstance(a, ast.Call) and call_attr(a) == "Failure" and a.args and "ResponseFailed" in src(a.args[0])
                    ctx.check(ok, "parser/lost-reason", ctx.construct(q, c2), "a truncated body is not reported with a ResponseFailed failure")
    all_hs = enclosing_try_handlers(f, nmd[0][1]) if nmd else []
    for n, c in bdfs:
        if not any(any(x is c for x in ast.walk(h)) for h in all_hs):
            noarg = not c.args and not c.keywords
            ctx.check(noarg, "parser/lost-reason", ctx.construct(q, c), "the complete-body outcome passes a reason other than the ResponseDone default")
        others = [m for m in bdf_ids if m != n]
        w = g.path([n], others, strict=True)
        ctx.check(w is None, "parser/lost-body-outcome", ctx.construct(q, c) + " | once", "the body is marked finished twice on one path", witness=g.describe(w))

    # HTTPParser.rawDataReceived forwards the bytes unchanged
    f = ctx.func(P, "HTTPParser.rawDataReceived")
    calls = [c for c in ast.walk(f) if isinstance(c, ast.Call) and call_name(c) == "self.bodyDecoder.dataReceived"]
    ctx.check(len(calls) == 1 and [src(a) for a in calls[0].args] == param_names(f)[1:], "forward/identity", "twisted.web._newclient.HTTPParser.rawDataReceived",
              "body bytes are not forwarded unchanged to the decoder")


# ------------------------------------------------------------------------------------------------
RESPONSE_STATES = {"INITIAL", "CONNECTED", "DEFERRED_CLOSE", "FINISHED"}
RESPONSE_TRANSITIONS = {("deliverBody", "INITIAL"): "CONNECTED", ("bodyDataFinished", "INITIAL"): "DEFERRED_CLOSE",
                        ("bodyDataFinished", "CONNECTED"): "FINISHED", ("deliverBody", "DEFERRED_CLOSE"): "FINISHED"}
CONSUMER_LOST = {("bodyDataFinished", "CONNECTED"), ("deliverBody", "DEFERRED_CLOSE")}


def _consumer_calls(g, f, attr):
    """calls <consumer>.<attr>(...) where consumer is self._bodyProtocol or the protocol parameter"""
    recv = {"self._bodyProtocol"} | set(param_names(f)[1:2])
    return call_sites(g, lambda c: isinstance(c.func, ast.Attribute) and c.func.attr == attr and src(c.func.value) in recv)


def _check_response(ctx, mod):
    cls = ctx.cls(P, "Response")
    Q = "twisted.web._newclient.Response."
    disp = _dispatchers(cls)
    ctx.check(set(disp) == {"deliverBody", "bodyDataReceived", "bodyDataFinished"}, "response/dispatch-matrix", Q + "<dispatchers>",
              f"Response dispatchers are {sorted(disp)}")
    states = _state_strings(mod, "Response")
    ctx.check(states == RESPONSE_STATES, "response/dispatch-matrix", Q + "<states>", f"Response state strings are {sorted(states)}")
    nlost = 0
    for name in sorted(disp):
        hs = _handlers(cls, name)
        for s in sorted(states | RESPONSE_STATES):
            ctx.check(s in hs, "response/dispatch-matrix", Q + f"_{name}_{s}", f"no handler for {name} in state {s}: the dispatcher raises RuntimeError instead of handling the event")
        for s, f in sorted(hs.items()):
            g = ctx.cfg(f)
            q = Q + f"_{name}_{s}"
            ctx.functions.add(f"{P}:Response._{name}_{s}")
            # transitions
            for n, st in assign_sites(g, lambda x: is_self_attr(x, "_state")):
                new = const_str(st.value) if isinstance(st, ast.Assign) else None
                ctx.check(RESPONSE_TRANSITIONS.get((name, s)) == new, "response/transitions", ctx.construct(q, st),
                          f"transition {s} --{name}--> {new} is not one of the four of the body-delivery machine")
            if (name, s) in RESPONSE_TRANSITIONS:
                tr = [n for n, st in assign_sites(g, lambda x: is_self_attr(x, "_state"))]
                w = g.must_pass([g.entry], tr, exc=False)
                ctx.check(bool(tr) and w is None, "response/transitions", q + " | moves on",
                          f"{name} in state {s} can return without moving to {RESPONSE_TRANSITIONS[(name, s)]}", witness=g.describe(w))
            # consumer connectionLost sites
            lost = _consumer_calls(g, f, "connectionLost")
            for n, c in lost:
                nlost += 1
                ctx.check((name, s) in CONSUMER_LOST, "response/consumer-lost-sites", ctx.construct(q, c),
                          "the body consumer's connectionLost is called from a handler other than (bodyDataFinished, CONNECTED) / (deliverBody, DEFERRED_CLOSE)")
                fin = [i for i, st in assign_sites(g, lambda x: is_self_attr(x, "_state")) if isinstance(st, ast.Assign) and const_str(st.value) == "FINISHED"]
                w = g.must_pass([n], fin, exc=False)
                ctx.check(bool(fin) and w is None, "response/consumer-lost-sites", ctx.construct(q, c) + " | then FINISHED",
                          "after the consumer's connectionLost the response does not move to FINISHED (it could be called again)", witness=g.describe(w))
                others = [m for m, _ in lost if m != n]
                ctx.check(g.path([n], others, strict=True) is None and g.path([n], [n], strict=True) is None, "response/consumer-lost-sites",
                          ctx.construct(q, c) + " | once", "connectionLost can be called twice on one path")
            if (name, s) in CONSUMER_LOST:
                w = g.must_pass([g.entry], [n for n, c in lost], exc=False)
                ctx.check(bool(lost) and w is None, "response/consumer-lost-sites", q + " | reaches connectionLost",
                          "the body consumer is never told that the body ended", witness=g.describe(w))
            if s == "FINISHED":
                ctx.check(never_returns_normally(g), "response/finished-raises", q, "an event in the FINISHED state is accepted instead of raising")
            if s == "DEFERRED_CLOSE" and name != "deliverBody":
                ctx.check(never_returns_normally(g), "response/finished-raises", q, "body data / a second finish is accepted after the body was finished")
            if s == "CONNECTED" and name == "deliverBody":
                ctx.check(never_returns_normally(g), "response/finished-raises", q, "a second body consumer is accepted")
    ctx.floor("response/consumer-lost-sites", nlost, 2)



class _AbstainingCtx(_NormCtx):
    """anchor-style obligations (``the construct was not found``) abstain instead of judging: only rules that positively recognised their construct speak"""
    ANCHOR_MARKERS = ("sites were not both found", "was not found", "lost its", "one expected", "exactly one expected", "(exactly one", "no longer resets", "no longer asks",
                      "no longer calls", "not found", "are ['", "dispatchers are", "state strings are", "does not have exactly", "sites (", "not both")

    def check(self, cond, rule, construct, fails, detail="", witness=""):
        if not cond and any(m in fails for m in self.ANCHOR_MARKERS):
            raise Abstain(f"{rule}: {fails[:90]}")
        return self._ctx.check(cond, rule, construct, fails, detail=detail, witness=witness)

    def need(self, thing, what):
        if thing is None or thing == [] or thing is False:
            raise Abstain(f"anchor not found: {what}")
        return thing

    def floor(self, rule, count, minimum, what="sites"):
        if count < minimum:
            raise Abstain(f"{rule}: matched {count} {what}, {minimum} expected")


def _check_parser_structural(ctx, mod):
    _check_parser(_AbstainingCtx(ctx), mod)


def _self_attr_uses(fn):
    """(loads, stores) of self.<attr> directly in fn (nested defs excluded); a ``del self.x`` counts as a store (the field is re-created by the next message)"""
    loads, stores = set(), set()
    for n in walk_local(fn):
        if isinstance(n, ast.Attribute) and isinstance(n.value, ast.Name) and n.value.id == "self":
            (loads if isinstance(n.ctx, ast.Load) else stores).add(n.attr)
    return loads, stores


def _mro_method(classes, name):
    for c in classes:
        m = methods(c)
        if name in m:
            return m[name]
    return None


def _call_target(classes, c):
    """the method a call resolves to: self.<m>(...) along ``classes`` (first wins) or <Class>.<m>(self, ...) in that class and its bases as listed"""
    if not (isinstance(c, ast.Call) and isinstance(c.func, ast.Attribute) and isinstance(c.func.value, ast.Name)):
        return None
    if c.func.value.id == "self":
        return _mro_method(classes, c.func.attr)
    if c.args and src(c.args[0]) == "self":
        names = [k.name for k in classes]
        if c.func.value.id in names:
            return _mro_method(classes[names.index(c.func.value.id):], c.func.attr)
    return None


def _must_call(ctx, classes, fn, targets, _depth=0):
    """does every normal path through ``fn`` pass a call of one of ``targets`` (dotted texts), directly or through a self.<m>() whose every path does?"""
    if fn is None or _depth > 3:
        return False
    g = ctx.cfg(fn, swallowing=lambda e: "failuresHandled" in src(e))
    hits = [n for n, c in named_calls(g, *targets)]
    hits += [n for n, c in call_sites(g, lambda c: _call_target(classes, c) is not None and _call_target(classes, c) is not fn and
                                      _must_call(ctx, classes, _call_target(classes, c), targets, _depth + 1))]
    return bool(hits) and g.must_pass([g.entry], hits, exc=False) is None


def _closure_uses(classes, roots, seen=None):
    """(loads, stores) over the self.<m>() call closure of the given function nodes (methods resolved along ``classes``, first wins; <Base>.<m>(self) calls too)"""
    seen = set() if seen is None else seen
    loads, stores = set(), set()
    todo = list(roots)
    while todo:
        fn = todo.pop()
        if id(fn) in seen:
            continue
        seen.add(id(fn))
        l, s_ = _self_attr_uses(fn)
        loads |= l
        stores |= s_
        for c in walk_local(fn):
            tgt = _call_target(classes, c)
            if tgt is not None:
                todo.append(tgt)
    return loads, stores


def _s_interim_reset(ctx, mod):
    """STRUCTURAL: after an interim (1xx) response is swallowed, every per-message field that the framing decision of the NEXT response reads has been re-initialised.
    per-message fields = what the parser's connectionMade closure initialises (derived); read set = self-attributes read by the non-interim part of allHeadersReceived
    and its call closure; reset set = self-attributes stored / deleted on the interim branch, through its call closure"""
    classes = [ctx.cls(P, "HTTPClientParser"), ctx._ctx.cls(P, "HTTPParser")] if isinstance(ctx, _NormCtx) else [ctx.cls(P, "HTTPClientParser"), ctx.cls(P, "HTTPParser")]
    q = "twisted.web._newclient.HTTPClientParser.allHeadersReceived"
    cm = _mro_method(classes, "connectionMade")
    if cm is None:
        raise Abstain("no connectionMade in the parser classes")
    _, per_message = _closure_uses(classes, [cm])
    if not per_message:
        raise Abstain("connectionMade initialises nothing")
    f = ctx.func(P, "HTTPClientParser.allHeadersReceived")
    g = ctx.cfg(f)
    interim, final = set(), set()
    for v, bucket in ((150, interim), (200, final), (404, final), (204, final)):
        bucket |= g.reach([g.entry], edge_ok=resolver(g, {"self.response.code": v}))
    only_interim = interim - final
    only_final = final - interim
    if not only_interim or not only_final:
        raise Abstain("the interim branch of allHeadersReceived was not separated by its status-code guard")

    def uses(nodes):
        loads, stores, calls = set(), set(), []
        for i in nodes:
            a = g.node(i).ast
            if a is None or g.node(i).kind not in ("stmt", "test", "for", "with"):
                continue
            for n in ast.walk(a):
                if isinstance(n, ast.Attribute) and isinstance(n.value, ast.Name) and n.value.id == "self":
                    (loads if isinstance(n.ctx, ast.Load) else stores).add(n.attr)
                t = _call_target(classes, n)
                if t is not None:
                    calls.append(t)
        l2, s2 = _closure_uses(classes, calls)
        return loads | l2, stores | s2
    read, _ = uses(only_final)
    # the header lines of the next response are routed by these too (lineReceived / headerReceived closure): they fill the fields the decision reads
    lr = [m_ for m_ in (_mro_method(classes, "lineReceived"), _mro_method(classes, "headerReceived"), _mro_method(classes, "statusReceived")) if m_ is not None]
    read |= _closure_uses(classes, lr)[0]
    _, reset = uses(only_interim)
    needed = sorted(per_message & read)
    if not needed:
        raise Abstain("the framing decision reads none of the per-message fields")
    for a in needed:
        ctx.check(a in reset, "parser/interim-resets-message-state", q + f" | self.{a} after an interim response",
                  f"self.{a} is per-message state (initialised by connectionMade) and is read when the next response is parsed / framed, but the interim (1xx) branch does not "
                  f"re-initialise it (it resets {sorted(reset & per_message)}): what a 1xx response left there - e.g. its Content-Length / Transfer-Encoding headers - is taken for "
                  "the final response's")


def _check_interim_structural(ctx, mod):
    _s_interim_reset(_AbstainingCtx(ctx), mod)


def _check_response_structural(ctx, mod):
    _check_response(_AbstainingCtx(ctx), mod)


def _check_protocol(ctx, mod):
    cls = ctx.cls(P, "HTTP11ClientProtocol")
    C = "HTTP11ClientProtocol"
    Q = "twisted.web._newclient.HTTP11ClientProtocol."
    states = _state_strings(mod, C)
    ctx.check(len(states) >= 7 and "TRANSMITTING" in states and "CONNECTION_LOST" in states, "protocol/dispatch-matrix", Q + "<states>",
              f"protocol state strings are {sorted(states)}")
    lost = _handlers(cls, "connectionLost")
    for s in sorted(states - {"CONNECTION_LOST"}):
        ctx.check(s in lost, "protocol/dispatch-matrix", Q + f"_connectionLost_{s}",
                  f"no connectionLost handler for state {s}: losing the connection there raises RuntimeError and the request is never failed")
    fr = _handlers(cls, "finishResponse")
    for s in ("WAITING", "TRANSMITTING"):
        ctx.check(s in fr, "protocol/dispatch-matrix", Q + f"_finishResponse_{s}", f"a response completing in state {s} has no handler")
    for s, f in sorted(lost.items()):
        g = ctx.cfg(f)
        term = [n for n, st in assign_sites(g, lambda x: is_self_attr(x, "_state")) if isinstance(st, ast.Assign) and const_str(st.value) == "CONNECTION_LOST"]
        w = g.must_pass([g.entry], term, exc=False)
        ctx.check(bool(term) and w is None, "protocol/lost-handler-terminal", Q + f"_connectionLost_{s}",
                  "connectionLost does not move to the terminal CONNECTION_LOST state (a later request would be written to a dead transport)", witness=g.describe(w))

    # fire sites of _finishedRequest
    handler_states = {}
    for nm, hs in (("connectionLost", lost), ("finishResponse", fr)):
        for s, f in hs.items():
            handler_states.setdefault(id(f), set()).add(s)
    nsites = 0
    for qn, f in class_functions(mod, C):
        g = ctx.cfg(f)
        def is_fire(c):
            if _fires(c, "self._finishedRequest"):
                return True
            return isinstance(c.func, ast.Attribute) and c.func.attr in ("chainDeferred",) and any(src(a) == "self._finishedRequest" for a in c.args)
        for n, c in call_sites(g, is_fire):
            nsites += 1
            start = handler_states.get(id(f), states)
            st = _refine_states(g, n, start)
            ctx.check(st == {"TRANSMITTING"}, "protocol/request-fire-state", ctx.construct("twisted.web._newclient." + qn, c),
                      f"the request Deferred is fired/chained where the state may be {sorted(st)}; only TRANSMITTING still owns an unfired, unchained Deferred "
                      "(elsewhere it was already chained to the parser's Deferred: it would fire twice)")
            leave = [i for i, s_ in assign_sites(g, lambda x: is_self_attr(x, "_state")) if isinstance(s_, ast.Assign) and const_str(s_.value) not in (None, "TRANSMITTING")]
            w = g.must_precede(leave, [n])
            ctx.check(bool(leave) and w is None, "protocol/request-fire-leaves-state", ctx.construct("twisted.web._newclient." + qn, c),
                      "the request Deferred is fired/chained without first leaving TRANSMITTING (the other firing site stays enabled)", witness=g.describe(w))
            if c.func.attr == "chainDeferred":
                ctx.check(src(c.func.value) == "self._responseDeferred", "protocol/request-fire-state", ctx.construct("twisted.web._newclient." + qn, c) + " | source",
                          "the request Deferred is chained to something other than the parser's response Deferred")
    ctx.floor("protocol/request-fire-state", nsites, 4)

    # TRANSMITTING entered only from QUIESCENT in request()
    for qn, f in class_functions(mod, C):
        g = ctx.cfg(f)
        for n, st in assign_sites(g, lambda x: is_self_attr(x, "_state")):
            if isinstance(st, ast.Assign) and const_str(st.value) == "TRANSMITTING":
                ok = qn == C + ".request" and _refine_states(g, n, states) == {"QUIESCENT"}
                ctx.check(ok, "protocol/transmitting-only-from-quiescent", ctx.construct("twisted.web._newclient." + qn, st),
                          "a new request can be started while another is outstanding (its Deferred would be overwritten and never fire)")
    f = ctx.func(P, C + ".request")
    g = ctx.cfg(f)
    q = Q + "request"
    ent = [n for n, st in assign_sites(g, lambda x: is_self_attr(x, "_state")) if isinstance(st, ast.Assign) and const_str(st.value) == "TRANSMITTING"]
    ctx.check(len(ent) == 1, "protocol/transmitting-only-from-quiescent", q, "request() does not enter TRANSMITTING exactly once")
    rets = g.ids(lambda x: x.kind == "stmt" and isinstance(x.ast, ast.Return))
    for r in rets:
        if "QUIESCENT" not in _refine_states(g, r, states):
            ctx.check(call_attr(g.node(r).ast.value) == "fail", "protocol/transmitting-only-from-quiescent", ctx.construct(q, g.node(r).ast),
                      "a request refused because the protocol is busy does not return a failed Deferred")
    # writeTo errors become a failed Deferred
    wt = [c for c in ast.walk(f) if isinstance(c, ast.Call) and call_attr(c) == "writeTo"]
    ctx.check(len(wt) == 1, "protocol/errors-fail-request", q, "request() does not call writeTo exactly once")
    for c in wt:
        hs = enclosing_try_handlers(f, c)
        ok = catches_everything(hs) and any(isinstance(s_, ast.Assign) and call_attr(s_.value) == "fail" for h in hs for s_ in h.body)
        ctx.check(ok, "protocol/errors-fail-request", ctx.construct(q, c),
                  "an exception raised by writeTo escapes request(): the protocol stays TRANSMITTING with no Deferred to fail")
    ret_fr = [r for r in rets if src(g.node(r).ast.value) == "self._finishedRequest"]
    ctx.check(len(ret_fr) == 1, "protocol/errors-fail-request", q + " | returns the request Deferred", "request() does not return self._finishedRequest")
    # parser is given the finisher, and its response Deferred is remembered
    # (looked for in request() and in every method request() reaches through self.<m>() calls: the wiring may live in an extracted helper)
    pcls = [mod.find(C)]
    reach, todo = [], [f]
    while todo:
        fn = todo.pop()
        if any(fn is r for r in reach):
            continue
        reach.append(fn)
        todo += [t for t in (_call_target(pcls, c) for c in walk_local(fn)) if t is not None]
    sites = [(fn, c) for fn in reach for c in ast.walk(fn) if isinstance(c, ast.Call) and call_attr(c) == "HTTPClientParser"]
    if len(sites) != 1:
        ctx.note(f"protocol/parser-wiring: {len(sites)} HTTPClientParser(...) sites reachable from request(): shape not recognised, clause left to client/evaluated-histories (bounded)")
    else:
        wfn, mkc = sites[0]
        wq = Q + wfn.name
        ctx.check(len(mkc.args) == 2 and src(mkc.args[1]) == "self._finishResponse", "protocol/parser-wiring", q,
                  f"the parser is created with `{src(mkc.args[1]) if len(mkc.args) > 1 else '<nothing>'}` as its finisher, not with self._finishResponse")
        # names under which the new parser is known in that function: the target(s) of the construction, and what is copied from / to them
        alias = set()
        for st in walk_local(wfn):
            if isinstance(st, ast.Assign) and st.value is mkc:
                alias |= {src(t) for t in st.targets}
        for _ in range(3):
            for st in walk_local(wfn):
                if isinstance(st, ast.Assign) and src(st.value) in alias:
                    alias |= {src(t) for t in st.targets}
        rd = [st for fn in reach for st in walk_local(fn) if isinstance(st, ast.Assign) and any(is_self_attr(t, "_responseDeferred") for t in st.targets) and not
              (isinstance(st.value, ast.Constant) and st.value.value is None)]
        if len(rd) != 1 or not any(rd[0] is st for st in walk_local(wfn)):
            ctx.note(f"protocol/parser-wiring: {len(rd)} assignments of self._responseDeferred reachable from request(): shape not recognised, clause left to client/evaluated-histories (bounded)")
        else:
            v = rd[0].value
            ok = isinstance(v, ast.Attribute) and v.attr == "_responseDeferred" and src(v.value) in alias
            ctx.check(ok, "protocol/parser-wiring", q + " | _responseDeferred",
                      f"the protocol remembers `{src(v)}` as the response Deferred, which is not the new parser's ({sorted(alias)})")

    # dataReceived: any exception from the parser gives up the connection and fails the request
    f = ctx.func(P, C + ".dataReceived")
    g = ctx.cfg(f, exception_is_all=False)
    q = Q + "dataReceived"
    pd = named_calls(g, "self._parser.dataReceived")
    ctx.check(len(pd) == 1, "protocol/errors-fail-request", q, "dataReceived does not feed the parser exactly once")
    gu = [n for n, c in named_calls(g, "self._giveUp")]
    for n, c in pd:
        w = g.path([n], [g.raise_exit], avoid=gu, strict=True)
        ctx.check(bool(gu) and w is None and catches_everything(enclosing_try_handlers(f, c)), "protocol/errors-fail-request", ctx.construct(q, c),
                  "an exception from the parser (or the body consumer beneath it) escapes without _giveUp(): the request never fails",
                  witness=g.describe(w))
        ctx.check([src(a) for a in c.args] == param_names(f)[1:], "forward/identity", ctx.construct(q, c), "received bytes are not forwarded unchanged to the parser")
    for n, c in named_calls(g, "self._giveUp"):
        a = c.args[0] if c.args else None
        ctx.check(isinstance(a, ast.Call) and call_attr(a) == "Failure" and not a.args, "protocol/errors-fail-request", ctx.construct(q, c),
                  "the parse error is not passed on as the failure reason")

    # _giveUp / _connectionLost_WAITING / _connectionLost_ABORTING reach _disconnectParser
    for name in ("_giveUp", "_connectionLost_WAITING", "_connectionLost_ABORTING"):
        f = ctx.func(P, C + "." + name)
        g = ctx.cfg(f)
        dp = [n for n, c in named_calls(g, "self._disconnectParser")]
        w = g.must_pass([g.entry], dp, exc=False)
        ctx.check(bool(dp) and w is None, "protocol/lost-drains", Q + name,
                  "the parser is not disconnected on every path: neither the request Deferred nor the body consumer hears about the loss", witness=g.describe(w))
        if name != "_connectionLost_ABORTING":
            for n, c in named_calls(g, "self._disconnectParser"):
                ctx.check([src(a) for a in c.args] == param_names(f)[1:2], "protocol/lost-drains", ctx.construct(Q + name, c), "the loss reason is not passed to the parser")
    f = ctx.func(P, C + "._connectionLost_TRANSMITTING")
    g = ctx.cfg(f)
    q = Q + "_connectionLost_TRANSMITTING"
    eb = call_sites(g, lambda c: _fires(c, "self._finishedRequest") and c.func.attr == "errback")
    w = g.must_pass([g.entry], [n for n, c in eb], exc=False)
    ctx.check(bool(eb) and w is None and all("RequestTransmissionFailed" in src(c) for n, c in eb), "protocol/lost-drains", q,
              "connection loss while transmitting does not errback the request with RequestTransmissionFailed", witness=g.describe(w))
    sw = [n for n, c in named_calls(g, "self._currentRequest.stopWriting")]
    ctx.check(bool(sw) and g.must_pass([g.entry], sw, exc=False) is None, "protocol/lost-drains", q + " | stopWriting", "the request body producer is not stopped")

    # _disconnectParser
    f = ctx.func(P, C + "._disconnectParser")
    g = ctx.cfg(f)
    q = Q + "_disconnectParser"
    aliases = {t.id for st in walk_local(f) if isinstance(st, ast.Assign) and src(st.value) == "self._parser" for t in st.targets if isinstance(t, ast.Name)}
    cl = call_sites(g, lambda c: isinstance(c.func, ast.Attribute) and c.func.attr == "connectionLost" and (src(c.func.value) in aliases or src(c.func.value) == "self._parser"))
    ctx.check(len(cl) == 1, "protocol/disconnect-parser", q, f"_disconnectParser has {len(cl)} parser.connectionLost sites (exactly one expected)")
    clear = [n for n, st in assign_sites(g, lambda x: is_self_attr(x, "_parser")) if isinstance(st, ast.Assign) and src(st.value) == "None"]
    for n, c in cl:
        ctx.check(src(c.func.value) in aliases and (none_guard(g, n, "self._parser", False) or any(none_guard(g, n, a_, False) for a_ in aliases)), "protocol/disconnect-parser", ctx.construct(q, c),
                  "parser.connectionLost is not called through a local taken under `self._parser is not None`")
        w = g.must_precede(clear, [n])
        ctx.check(bool(clear) and w is None, "protocol/disconnect-parser", ctx.construct(q, c) + " | detached first",
                  "the parser is still attached while its connectionLost runs: the re-entrant _finishResponse (close-delimited body) disconnects it a second time "
                  "and the body consumer's connectionLost is attempted twice", witness=g.describe(w))
        ctx.check([src(a) for a in c.args] == param_names(f)[1:2], "protocol/disconnect-parser", ctx.construct(q, c) + " | reason", "the reason is not passed to the parser")
    names_ = ["self._parser"] + sorted(aliases)
    tests = [t for t in g.ids(lambda x: x.kind == "test") if any(cmp_polarity(g.node(t).ast, nm_, "None") is not None or src(g.node(t).ast) == nm_ for nm_ in names_)]
    for t in tests:
        e = g.node(t).ast
        pol = next((cmp_polarity(e, nm_, "None") for nm_ in names_ if cmp_polarity(e, nm_, "None") is not None), None)
        lab = "T" if (pol is None or pol is False) else "F"
        nn = [d for d, l in g.succ[t] if l == lab]
        w = from_here(g, nn, [n for n, c in cl])
        ctx.check(w is None, "protocol/disconnect-parser", q + " | every path with a parser", "with a parser attached, _disconnectParser can return without calling its connectionLost",
                  witness=g.describe(w))

    # per-request state is never written after a call-out that can reach user code while a new request may start (state possibly QUIESCENT)
    PER_REQUEST = {"_parser", "_currentRequest", "_finishedRequest", "_responseDeferred", "_transportProxy"}
    ncall = 0
    for qn, fn in class_functions(mod, C):
        gg = ctx.cfg(fn)
        al = {t.id for st in walk_local(fn) if isinstance(st, ast.Assign) and src(st.value) in ("self._parser", "self._finishedRequest", "self._responseDeferred")
              for t in st.targets if isinstance(t, ast.Name)}

        def is_callout(c, al=al):
            if not isinstance(c.func, ast.Attribute):
                return False
            recv, m = src(c.func.value), c.func.attr
            if m in ("connectionLost", "dataReceived") and (recv in al or recv == "self._parser"):
                return True
            if m in ("callback", "errback", "chainDeferred") and (recv in al or recv in ("self._finishedRequest", "self._responseDeferred")):
                return True
            if recv == "self" and m in ("_quiescentCallback", "_disconnectParser", "_giveUp"):
                return True
            if m in ("stopWriting", "writeTo", "cancel"):
                return True
            return False
        writes = [n for n, st in assign_sites(gg, lambda x: is_self_attr(x) and x.attr in PER_REQUEST)] + \
            gg.ids(lambda x: x.kind == "stmt" and isinstance(x.ast, ast.Delete) and any(is_self_attr(t) and t.attr in PER_REQUEST for t in x.ast.targets))
        nonq = [n for n, st in assign_sites(gg, lambda x: is_self_attr(x, "_state")) if isinstance(st, ast.Assign) and const_str(st.value) not in (None, "QUIESCENT")]
        quie = [n for n, st in assign_sites(gg, lambda x: is_self_attr(x, "_state")) if isinstance(st, ast.Assign) and const_str(st.value) == "QUIESCENT"]
        for n, c in call_sites(gg, is_callout):
            ncall += 1
            busy = bool(nonq) and gg.must_precede(nonq, [n]) is None and gg.path(quie, [n], strict=True) is None
            if busy:
                ctx.ok("protocol/no-state-write-after-callout", ctx.construct("twisted.web._newclient." + qn, c), "state is not QUIESCENT here: no new request can start re-entrantly")
                continue
            w = gg.path([n], writes, strict=True)
            ctx.check(w is None, "protocol/no-state-write-after-callout", ctx.construct("twisted.web._newclient." + qn, c),
                      "per-request state (_parser/_currentRequest/_finishedRequest/_responseDeferred/_transportProxy) is written after a call-out that can reach user code: "
                      "a consumer that issues the next request from its connectionLost (connection pool hand-back) has that request's fresh state wiped, its Deferred never fires",
                      witness=gg.describe(w))
    ctx.floor("protocol/no-state-write-after-callout", ncall, 10)

    # _finishResponse_WAITING: with a parser attached every path disconnects it
    f = fr.get("WAITING")
    if f is not None:
        g = ctx.cfg(f, swallowing=lambda e: "failuresHandled" in src(e))
        q = Q + "_finishResponse_WAITING"
        ctx.functions.add(f"{P}:{C}._finishResponse_WAITING")
        via = [n for n, c in named_calls(g, "self._giveUp", "self._disconnectParser")]
        # ... or a call of a method of the class that itself passes such a call on every normal path (the hand-back may live in an extracted helper)
        via += [n for n, c in call_sites(g, lambda c: _call_target([cls], c) is not None and _must_call(ctx, [cls], _call_target([cls], c), ("self._giveUp", "self._disconnectParser")))]
        early = [r for r in g.ids(lambda x: x.kind == "stmt" and isinstance(x.ast, ast.Return)) if none_guard(g, r, "self._parser", True)]
        w = g.must_pass([g.entry], set(via) | set(early), exc=False)
        ctx.check(bool(via) and w is None, "protocol/finish-disconnects", q,
                  "a completed response can leave its parser attached (the body consumer never gets connectionLost; the next response is fed to the old parser)",
                  witness=g.describe(w))
        ctx.check(len(early) >= 1, "protocol/finish-disconnects", q + " | re-entry guard",
                  "the `self._parser is None` early return is gone: a finish reported from inside parser.connectionLost would disconnect again")

    # abort Deferreds are reset after firing
    f = ctx.func(P, C + "._connectionLost_ABORTING")
    g = ctx.cfg(f)
    loops = g.ids(lambda x: x.kind == "for" and src(x.ast.iter) == "self._abortDeferreds")
    reset = [n for n, st in assign_sites(g, lambda x: is_self_attr(x, "_abortDeferreds"))]
    for l in loops:
        done = [d for d, lab in g.succ[l] if lab == "done"]
        w = from_here(g, done, reset)
        ctx.check(bool(reset) and w is None, "protocol/abort-deferreds-reset", Q + "_connectionLost_ABORTING",
                  "the abort Deferreds are fired but kept (a second pass would fire them again)", witness=g.describe(w))
    ctx.check(len(loops) == 1, "protocol/abort-deferreds-reset", Q + "_connectionLost_ABORTING | loop", "abort() Deferreds are not fired on connection loss")


# ------------------------------------------------------------------------------------------------
# ================================================================================================================================
# End-to-end evaluation: HTTP11ClientProtocol + HTTPClientParser (+ LineReceiver) + Response + the transfer decoders are instantiated
# as model objects whose methods are the repository's own functions (interpreted, never imported or run) and fed generated responses
# in segments, with the connection lost at chosen byte positions.  The oracle is the property statement itself.
# ================================================================================================================================
class _EHeaders:
    _sa_model = True

    def __init__(self, raw=None):
        self.raw = {}
        for k, v in (raw or {}).items():
            self.raw[k.lower()] = list(v)

    def addRawHeader(self, n, v):
        self.raw.setdefault(n.lower(), []).append(v)

    def setRawHeaders(self, n, vs):
        self.raw[n.lower()] = list(vs)

    def getRawHeaders(self, n, default=None):
        return list(self.raw[n.lower()]) if n.lower() in self.raw else default

    def hasHeader(self, n):
        return n.lower() in self.raw

    def getAllRawHeaders(self):
        return [(k.title(), v) for k, v in self.raw.items()]


class _ETransport:
    _sa_model = True
    disconnecting = False

    def __init__(self):
        self.out, self.log = [], []
        self.paused, self.held, self.deliver = False, [], None

    def write(self, d):
        self.out.append(d)

    def writeSequence(self, seq):
        self.out.extend(seq)

    def loseConnection(self):
        self.log.append("lose")

    def abortConnection(self):
        self.log.append("abort")

    def pauseProducing(self):
        self.log.append("pause")
        self.paused = True

    def resumeProducing(self):
        """like a reactor: bytes that arrived while the protocol had paused the transport are delivered as soon as it resumes"""
        self.log.append("resume")
        self.paused = False
        while self.held and not self.paused and self.deliver is not None:
            self.deliver(self.held.pop(0))

    def stopProducing(self):
        self.log.append("stop")

    def registerProducer(self, *a):
        return None

    def unregisterProducer(self):
        return None

    def setTcpNoDelay(self, *a):
        return None

    def feed(self, data):
        if self.paused:
            self.held.append(data)
        elif self.deliver is not None:
            self.deliver(data)

    def flush_on_close(self):
        """a closing connection still hands over what the kernel had buffered"""
        while self.held and self.deliver is not None:
            self.deliver(self.held.pop(0))


class _EConsumer:
    _sa_model = True

    def __init__(self, eager=False):
        self.data, self.lost, self.made, self.eager, self.transport = [], [], 0, eager, None

    def makeConnection(self, t):
        self.made += 1
        self.transport = t
        if self.eager is True:
            t.resumeProducing()       # a consumer may ask for data right away: the bytes held back arrive re-entrantly

    def dataReceived(self, d):
        self.data.append(d)
        if self.eager == "on-data" and self.transport is not None:
            t, self.transport = self.transport, None
            t.resumeProducing()       # ... or from its first dataReceived: more body bytes arrive while the buffered ones are being flushed

    def connectionLost(self, reason):
        self.lost.append(reason)


def _client_world(ctx):
    from sa.props._lib_f import World, swallowing_env
    for fn in ("HTTP11ClientProtocol.request", "HTTP11ClientProtocol.dataReceived", "HTTPClientParser.allHeadersReceived", "HTTPClientParser.connectionLost",
               "HTTPParser.lineReceived", "Response._bodyDataFinished_CONNECTED"):
        ctx.func(P, fn)
    ctx.func(H, "_IdentityTransferDecoder.dataReceived")
    ctx.func(H, "_ChunkedTransferDecoder.dataReceived")
    abnf = World(ctx.mod("web/_abnf.py"))
    httpw = World(ctx.mod(H), externals={"_ishexdigits": abnf.resolve("_ishexdigits"), "_hexint": abnf.resolve("_hexint")})
    basic = World(ctx.mod("protocols/basic.py"))
    proto = World(ctx.mod("internet/protocol.py"))
    basic.link(proto)
    mod = ctx.mod(P)
    env = {"UNKNOWN_LENGTH": object(), "_moduleLog": NullLogger(), "TYPE_CHECKING": False, "NO_CONTENT": 204, "NOT_MODIFIED": 304, "_ClientRequestProxy": lambda x: x}
    env.update(swallowing_env(mod))

    def succeed(v=None):
        d = MDeferred()
        d.callback(v)
        return d

    def fail(v=None):
        d = MDeferred()
        d.errback(v)
        return d
    ext = {"_istoken": abnf.resolve("_istoken"), "_decint": abnf.resolve("_decint"), "networkString": lambda s_: s_.encode("ascii"), "Deferred": lambda *a: MDeferred(*a),
           "Headers": lambda *a: _EHeaders(*a), "Logger": lambda *a, **k: NullLogger(), "ITCPTransport.providedBy": lambda x: False,
           "Failure._withoutTraceback": lambda e: MFailure(e), "ConnectionDone": lambda *a: MExc("ConnectionDone", a), "CancelledError": lambda *a: MExc("CancelledError", a),
           "succeed": succeed, "fail": fail, "implementer": lambda *a: (lambda c: c)}
    return World(mod, externals=ext, env=env).link(basic).link(proto).link(httpw)


# (name, request method, response bytes, body bytes, how the body ends: "length" | "chunked" | "close" | "none")
_RESPONSES = [
    ("content-length", b"GET", b"HTTP/1.1 200 OK\r\nContent-Length: 11\r\nX-A: b\r\n\r\nhello world", b"hello world", "length"),
    ("chunked", b"GET", b"HTTP/1.1 200 OK\r\nTransfer-Encoding: chunked\r\n\r\n5\r\nhello\r\n6;ext=1\r\n world\r\n0\r\n\r\n", b"hello world", "chunked"),
    ("close-delimited", b"GET", b"HTTP/1.1 200 OK\r\nX-A: b\r\n\r\nhello world", b"hello world", "close"),
    ("head", b"HEAD", b"HTTP/1.1 200 OK\r\nContent-Length: 11\r\n\r\n", b"", "none"),
    ("204", b"GET", b"HTTP/1.1 204 No Content\r\nX-A: b\r\n\r\n", b"", "none"),
    ("304", b"GET", b"HTTP/1.1 304 Not Modified\r\nContent-Length: 11\r\n\r\n", b"", "none"),
    ("100-then-200", b"GET", b"HTTP/1.1 100 Continue\r\n\r\nHTTP/1.1 199 Early\r\nX: y\r\n\r\nHTTP/1.1 200 OK\r\nContent-Length: 2\r\n\r\nhi", b"hi", "length"),
    ("head-100-then-200", b"HEAD", b"HTTP/1.1 100 Continue\r\n\r\nHTTP/1.1 200 OK\r\nContent-Length: 5\r\nX-Final: 1\r\n\r\n", b"", "none"),
    ("zero-length", b"GET", b"HTTP/1.1 200 OK\r\nContent-Length: 0\r\n\r\n", b"", "none"),
    ("lf-only-lines", b"GET", b"HTTP/1.1 200 OK\nContent-Length: 2\n\nok", b"ok", "length"),
    # the segment that completes the body also carries bytes that follow it
    ("length-then-trailing-bytes", b"GET", b"HTTP/1.1 200 OK\r\nContent-Length: 11\r\n\r\nhello worldHTTP/1.1 200 OK\r\n", b"hello world", "length"),
    ("chunked-then-trailing-bytes", b"GET", b"HTTP/1.1 200 OK\r\nTransfer-Encoding: chunked\r\n\r\n2\r\nhi\r\n0\r\n\r\nXYZ", b"hi", "chunked"),
    # interim responses that carry framing / connection-control headers of their own: they must not leak into the final response
    ("interim-with-content-length", b"GET", b"HTTP/1.1 100 Continue\r\nContent-Length: 0\r\n\r\nHTTP/1.1 200 OK\r\nContent-Length: 2\r\n\r\nhi", b"hi", "length"),
    ("interim-with-transfer-encoding", b"GET", b"HTTP/1.1 103 Early Hints\r\nTransfer-Encoding: chunked\r\nConnection: close\r\n\r\nHTTP/1.1 200 OK\r\nContent-Length: 2\r\n\r\nhi", b"hi", "length"),
    ("interim-with-length-then-close-delimited", b"GET", b"HTTP/1.1 102 Processing\r\nContent-Length: 3\r\n\r\nHTTP/1.1 200 OK\r\nX-A: b\r\n\r\nhello", b"hello", "close"),
]


def _exchange(w, method, wire, cuts, lose=True, deliver="at-headers", persistent=False, eager=False):
    """feed ``wire`` cut at ``cuts``; the consumer is attached as soon as the response Deferred fires; finally the connection is lost.  Returns the observations."""
    p = w.new("HTTP11ClientProtocol")
    tr = _ETransport()
    p.makeConnection(tr)
    req = w.new("Request", method, b"/", _EHeaders({b"Host": [b"x"]}), None, persistent)
    d = p.request(req)
    tr.deliver = p.dataReceived
    box = []
    d.addBoth(lambda r: (box.append(r), r)[1])
    cons = _EConsumer(eager)
    attached = [False]
    problems = []

    def attach():
        if box and not attached[0] and not isinstance(box[0], MFailure) and deliver != "never":
            attached[0] = True
            box[0].deliverBody(cons)
    pos = 0
    try:
        for c in list(cuts) + [len(wire)]:
            if c > pos:
                tr.feed(wire[pos:c])
                pos = c
            if deliver == "at-headers":
                attach()
        if deliver == "after-feeding":
            attach()
        before_loss = {"lost": len(cons.lost), "state": p._state}
        if lose:
            if deliver in ("at-headers", "after-feeding"):
                tr.flush_on_close()
            p.connectionLost(MFailure(MExc("ConnectionDone")))
        else:
            before_loss = {"lost": len(cons.lost), "state": p._state}
        if deliver == "late":
            attach()
    except ModelRaised as e:
        problems.append(f"raises {e.name}")
    return {"fired": list(d.fired), "result": box[0] if box else None, "cons": cons, "state": p._state, "problems": problems, "transport": tr,
            "before_loss": locals().get("before_loss", {})}


def _head_end(wire):
    """position where the final (non-1xx) response's header block ends, or None"""
    head_end = None
    # position where the final (non-1xx) response's header block ends
    pos = 0
    while True:
        sep = [wire.find(x, pos) for x in (b"\r\n\r\n", b"\n\n")]
        sep = min((i + len(x) for i, x in zip(sep, (b"\r\n\r\n", b"\n\n")) if i != -1), default=None)
        if sep is None:
            break
        status = wire[pos:].split(b" ", 2)[1][:3]
        if status[:1] == b"1":
            pos = sep
            continue
        head_end = sep
        break
    return head_end


def _judge(name, method, wire, body, ending, cut_desc, obs, received):
    """the property statement, for one history; ``received`` = number of wire bytes delivered before the connection was lost"""
    why = list(obs["problems"])
    head_end = _head_end(wire)
    headers_complete = head_end is not None and received >= head_end
    fired = obs["fired"]
    if len(fired) != 1:
        why.append(f"the request Deferred fired {len(fired)} times")
    res = obs["result"]
    if headers_complete:
        if isinstance(res, MFailure) or res is None:
            why.append(f"the headers were complete but the request Deferred has {res!r} instead of the response")
        else:
            status = wire[:head_end].split(b"HTTP/1.1 ")[-1][:3]
            if str(getattr(res, "code", None)).encode() != status:
                why.append(f"the request Deferred fired with a response of status {getattr(res, 'code', None)} instead of the final {status.decode()}")
            got_body = b"".join(obs["cons"].data)
            have = wire[head_end:received]
            msg_end = wire.index(b"0\r\n\r\n", head_end) + 5 if ending == "chunked" else len(wire)      # bytes after the last-chunk are not part of the message
            if ending == "chunked":
                want_body = body if received >= msg_end else None      # partial chunked bodies: only a prefix check
                if want_body is None and not body.startswith(got_body):
                    why.append(f"the consumer received {got_body!r}, which is not a prefix of the body {body!r}")
            elif ending == "none":
                want_body = b""
            else:
                want_body = have[:len(body)]
            if want_body is not None and got_body != want_body:
                why.append(f"the consumer received {got_body!r} instead of {want_body!r}")
            lost = obs["cons"].lost
            if len(lost) != 1:
                why.append(f"the body consumer's connectionLost was called {len(lost)} times")
            else:
                reason = lost[0].value.name if isinstance(lost[0], MFailure) else repr(lost[0])
                complete = ending == "none" or (ending == "length" and received - head_end >= len(body)) or (ending == "chunked" and received >= msg_end)
                if ending == "close":
                    want_reason = {"PotentialDataLoss"}
                elif complete:
                    want_reason = {"ResponseDone"}
                else:
                    want_reason = {"ResponseFailed"}
                if reason not in want_reason:
                    why.append(f"the body consumer's connectionLost got {reason} instead of {'/'.join(sorted(want_reason))}")
    else:
        if not isinstance(res, MFailure):
            why.append(f"the connection was lost before the headers were complete but the request Deferred has {res!r} instead of a failure")
    return why


def _fe_identity_decoder(ctx):
    """FINITE-EXHAUSTIVE over the orderings of len(segment) and the remaining length (<, =, >, incl. 0 and unknown), one and two segments, noMoreData() called re-entrantly from
    the finish callback and again afterwards: the data callback gets exactly the body bytes, the finish callback the rest, once; a decoder whose body is complete never reports
    loss; an incomplete one reports _DataLoss, an unbounded one PotentialDataLoss.  Domain argument: the decoder combines len(data) and contentLength only by comparison and
    subtraction (checked on the code), so lengths 0..3 against segments 0..5 realise every ordering"""
    from sa.props._lib_f import World
    ctx.func(H, "_IdentityTransferDecoder.dataReceived")
    ctx.func(H, "_IdentityTransferDecoder.noMoreData")
    q = "twisted.web.http._IdentityTransferDecoder"
    hw = World(ctx.mod(H), externals={"PotentialDataLoss": lambda *a: MExc("PotentialDataLoss", a), "_DataLoss": lambda *a: MExc("_DataLoss", a)})
    payload = b"abcdefghij"
    bad, n = [], 0

    def run(length, segs, reenter):
        got, rest, events = [], [], []
        holder = []

        def fin(r):
            rest.append(r)
            events.append("finish")
            if reenter:
                try:
                    holder[0].noMoreData()
                    events.append("nomore-inside:ok")
                except ModelRaised as e:
                    events.append("nomore-inside:" + e.name)
        dec = hw.new("_IdentityTransferDecoder", length, lambda d: got.append(d), fin)
        holder.append(dec)
        pos = 0
        for k in segs:
            try:
                dec.dataReceived(payload[pos:pos + k])
                events.append("data:ok")
            except ModelRaised as e:
                events.append("data:" + e.name)
            pos += k
        try:
            dec.noMoreData()
            events.append("nomore:ok")
        except ModelRaised as e:
            events.append("nomore:" + e.name)
        return b"".join(got), rest, events, pos
    for length in (None, 0, 1, 2, 3):
        for segs in [(a,) for a in range(0, 6)] + [(a, b_) for a in range(0, 4) for b_ in range(0, 4)]:
            for reenter in ((False,) if length is None else (False, True)):
                n += 1
                body, rest, events, fed = run(length, segs, reenter)
                why = []
                if length is None:
                    if body != payload[:fed]:
                        why.append(f"delivers {body!r} of {payload[:fed]!r}")
                    if events[-1] != "nomore:PotentialDataLoss":
                        why.append(f"noMoreData ends with {events[-1]} instead of PotentialDataLoss")
                else:
                    # segments after completion are refused (RuntimeError) - only the bytes up to the completing segment count
                    acc, done_at = 0, None
                    for i, k in enumerate(segs):
                        acc += k
                        if acc >= length:
                            done_at = i
                            break
                    if body != payload[:min(fed if done_at is None else acc, length)]:
                        why.append(f"delivers {body!r} instead of {payload[:min(acc, length)]!r}")
                    if done_at is not None:
                        if rest != [payload[length:acc]]:
                            why.append(f"finish callback calls {rest!r} instead of once with {payload[length:acc]!r}")
                        losses = [e for e in events if e.startswith("nomore") and not e.endswith(":ok")]
                        if losses:
                            why.append(f"the body is complete but noMoreData reports {losses} (the consumer is told ResponseFailed for a complete body)")
                    else:
                        if rest:
                            why.append(f"finish callback called ({rest!r}) before the body was complete")
                        if events[-1] != "nomore:_DataLoss":
                            why.append(f"{length - acc} bytes missing but noMoreData ends with {events[-1]} instead of _DataLoss")
                if why:
                    bad.append((length, segs, reenter, why))
    # domain argument on the code
    dom = []
    for fn in ("dataReceived", "noMoreData"):
        f = ctx.func(H, "_IdentityTransferDecoder." + fn)
        for x in ast.walk(f):
            if isinstance(x, ast.BinOp) and not isinstance(x.op, (ast.Sub, ast.Add)):
                dom.append(f"operator {type(x.op).__name__}")
            if isinstance(x, ast.Constant) and isinstance(x.value, int) and not isinstance(x.value, bool) and abs(x.value) > 1:
                dom.append(f"constant {x.value}")
    if dom:
        ctx.note(f"decoder/identity-orderings: domain argument not verified ({dom[:2]}); the verdict is about the enumerated cases only")
    msg = ""
    if bad:
        length, segs, reenter, why = bad[0]
        msg = (f"Content-Length {length}, segments of {list(segs)} bytes" + (", noMoreData() called from the finish callback" if reenter else "") + ": " + "; ".join(why[:2]) +
               f"; {len(bad)} of {n} cases wrong")
    ctx.check(not bad, "decoder/identity-orderings", q + " | <remaining length x segment lengths x re-entrant noMoreData>", msg, detail=f"{n} cases")


def _client_evaluated(ctx):
    w = _client_world(ctx)
    q = "twisted.web._newclient.HTTP11ClientProtocol"
    bad = []
    n = 0
    for name, method, wire, body, ending in _RESPONSES:
        head_end = _head_end(wire)
        plans = [((), len(wire), "whole"), ((head_end,), len(wire), "split after the headers"), ((7, head_end - 1, head_end + 1), len(wire), "split in status line / headers / body")]
        truncations = [(5, "in the status line"), (max(head_end - 3, 1), "inside the header block")]
        if ending != "none":
            truncations += [(head_end, "right after the headers"), (min(head_end + max(len(wire) - head_end, 1) // 2, len(wire)), "in the middle of the body")]
        if name in ("204", "304", "zero-length", "lf-only-lines"):
            truncations = truncations[1:2]
            plans = plans[:2]
        if name.startswith("interim-with") or name.endswith("trailing-bytes"):
            # the basic responses above already cover every cut position; these add one dimension (interim headers / trailing bytes): whole, two splits, one loss
            plans = plans[:1] + [((head_end, len(wire) - 2), len(wire), "split after the headers and two bytes before the end")]
            truncations = truncations[-1:]
        for cutoff, label in truncations:
            plans.append(((cutoff // 2,), cutoff, f"connection lost {label} (after {cutoff} bytes)"))
        seen = set()
        for cuts, upto, label in plans:
            key = (tuple(c for c in cuts if 0 < c < upto), upto)
            if key in seen:
                continue
            seen.add(key)
            n += 1
            obs = _exchange(w, method, wire[:upto], key[0])
            why = _judge(name, method, wire, body, ending, label, obs, upto)
            if why:
                bad.append((name, label, why))
    # the consumer arrives only after everything (DEFERRED_CLOSE path)
    for name, method, wire, body, ending in _RESPONSES[:3]:
        n += 1
        obs = _exchange(w, method, wire, (), deliver="late")
        why = _judge(name, method, wire, body, ending, "consumer attached after the connection closed", obs, len(wire))
        if why:
            bad.append((name, "consumer attached after the connection closed", why))
    # a consumer that asks for data from makeConnection (bytes held back while the transport was paused arrive re-entrantly)
    for name, method, wire, body, ending in _RESPONSES[:3]:
        n += 1
        he = _head_end(wire)
        obs = _exchange(w, method, wire, (he, he + 3, he + 6), eager=True)
        why = _judge(name, method, wire, body, ending, "eager consumer", obs, len(wire))
        if why:
            bad.append((name, "consumer resuming the transport from makeConnection, body arriving in pieces", why))
        n += 1
        obs = _exchange(w, method, wire, (he + 3, he + 6), deliver="after-feeding")
        why = _judge(name, method, wire, body, ending, "eager consumer", obs, len(wire))
        if why:
            bad.append((name, "some body bytes buffered before a late deliverBody, the rest delivered synchronously when the transport is resumed", why))
    # persistent connections: a complete response is finished (consumer told, protocol reusable) without waiting for the connection to close
    for name, method, wire, body, ending in [r for r in _RESPONSES if r[4] in ("length", "chunked", "none") and not r[0].startswith("interim-with")]:
        for cuts in ((_head_end(wire),),):
            n += 1
            obs = _exchange(w, method, wire, cuts, lose=False, persistent=True)
            why = list(obs["problems"])
            if len(obs["cons"].lost) != 1 or not isinstance(obs["cons"].lost[0], MFailure) or obs["cons"].lost[0].value.name != "ResponseDone":
                why.append(f"after the complete response the consumer's connectionLost calls are {obs['cons'].lost!r} (ResponseDone once expected, without closing the connection)")
            if obs["state"] != "QUIESCENT":
                why.append(f"the protocol is in state {obs['state']} instead of QUIESCENT: the persistent connection cannot be reused")
            if b"".join(obs["cons"].data) != body:
                why.append(f"the consumer received {b''.join(obs['cons'].data)!r} instead of {body!r}")
            if len(obs["fired"]) != 1:
                why.append(f"the request Deferred fired {len(obs['fired'])} times")
            if why:
                bad.append((name, f"persistent connection, cuts {cuts}", why))
    msg = ""
    if bad:
        nm, label, why = bad[0]
        msg = f"response '{nm}', {label}: " + "; ".join(why[:3]) + f"; {len(bad)} of {n} histories violate the property"
    ctx.check(not bad, "client/evaluated-histories", q + " | <response x segmentation x loss histories>", msg, detail=f"{n} histories")
    ctx.extra["client_histories"] = n


MUTANTS = [
    Mutant("interim-range-through-a-status-local-one-too-wide", P, '        if 100 <= self.response.code < 200:\n', '        answer = self.response\n        status = answer.code\n        if 100 <= status <= 200:\n', expect_rule="parser/interim-range"),
    Mutant("transmission-loss-reported-through-a-named-wrong-failure", P, '        self._finishedRequest.errback(Failure(RequestTransmissionFailed([reason])))\n', '        lost = Failure(ResponseFailed([reason]))\n        self._finishedRequest.errback(lost)\n', expect_rule="protocol/lost-drains"),
    Mutant("no-body-verdict-flag-read-the-wrong-way", P, "        if self.response.code in self.NO_BODY_CODES or self.request.method == b\"HEAD\":\n            self.response.length = 0\n", "        bodyless = None\n        if self.response.code in self.NO_BODY_CODES or self.request.method == b\"HEAD\":\n            bodyless = True\n        if bodyless is None:\n            self.response.length = 0\n", expect_rule="parser/no-body-branch"),
    Mutant("interim-reset-keeps-connection-headers", P, "            self.connectionMade()\n            del self.response\n",
           "            self.headers = Headers()\n            self.state = STATUS\n            self._partialHeader = None\n            del self.response\n",
           expect_rule="parser/interim-resets-message-state"),
    Mutant("interim-reset-only-the-line-state", P, "            self.connectionMade()\n            del self.response\n",
           "            self.state = STATUS\n            self._partialHeader = None\n            self.connHeaders = Headers()\n            del self.response\n",
           expect_rule="parser/interim-resets-message-state"),
    Mutant("identity-decoder-remaining-length-goes-negative", H, "            self.dataCallback = self.finishCallback = None\n            self.contentLength = 0\n\n            dataCallback(data[:contentLength])",
           "            self.dataCallback = self.finishCallback = None\n            self.contentLength -= len(data)\n\n            dataCallback(data[:contentLength])", expect_rule="decoder/identity-orderings"),
    Mutant("identity-decoder-finishes-one-byte-late", H, "        elif len(data) < self.contentLength:\n            self.contentLength -= len(data)", "        elif len(data) <= self.contentLength:\n            self.contentLength -= len(data)",
           expect_rule="decoder/identity-orderings"),
    Mutant("errback-even-when-done", P, "        elif self.state != DONE:\n            if self._everReceivedData:", "        else:\n            if self._everReceivedData:"),
    Mutant("interim-range-inclusive-200", P, "        if 100 <= self.response.code < 200:", "        if 100 <= self.response.code <= 200:"),
    Mutant("zero-length-skips-finished", P,
           "                if contentLength == 0:\n                    self._finished(self.clearLineBuffer())\n                    transferDecoder = None\n",
           "                if contentLength == 0:\n                    transferDecoder = None\n"),
    Mutant("finisher-before-done", P, "        self.state = DONE\n        self.finisher(rest)\n", "        self.finisher(rest)\n        self.state = DONE\n"),
    Mutant("potential-data-loss-as-done", P, "                except PotentialDataLoss:\n                    self.response._bodyDataFinished(Failure())\n",
           "                except PotentialDataLoss:\n                    self.response._bodyDataFinished()\n"),
    Mutant("drop-dataloss-handler", P,
           "                except _DataLoss:\n                    self.response._bodyDataFinished(\n                        Failure(ResponseFailed([reason, Failure()], self.response))\n                    )\n",
           ""),
    Mutant("initial-finish-goes-finished", P, "        self._state = \"DEFERRED_CLOSE\"\n        if reason is None:", "        self._state = \"FINISHED\"\n        if reason is None:"),
    Mutant("reason-always-done", P,
           "        if reason is None:\n            reason = Failure._withoutTraceback(\n                ResponseDone(\"Response body fully received\")\n            )\n        self._bodyProtocol.connectionLost(reason)",
           "        reason = Failure._withoutTraceback(\n            ResponseDone(\"Response body fully received\")\n        )\n        self._bodyProtocol.connectionLost(reason)"),
    Mutant("buffer-prepend", P, "        self._bodyBuffer.append(data)", "        self._bodyBuffer.insert(0, data)"),
    Mutant("chain-in-both-branches", P,
           "            self._state = \"TRANSMITTING_AFTER_RECEIVING_RESPONSE\"\n            self._responseDeferred.chainDeferred(self._finishedRequest)\n",
           "            self._state = \"TRANSMITTING_AFTER_RECEIVING_RESPONSE\"\n        self._responseDeferred.chainDeferred(self._finishedRequest)\n"),
    Mutant("written-callback-unguarded", P, "            if self._state == \"TRANSMITTING\":\n                self._state = \"WAITING\"\n",
           "            if self._state != \"CONNECTION_LOST\":\n                self._state = \"WAITING\"\n"),
    Mutant("drop-lost-handler-after-response", P,
           "    def _connectionLost_TRANSMITTING_AFTER_RECEIVING_RESPONSE(self, reason):", "    def _connectionLost_TRANSMITTING_AFTER_RESPONSE(self, reason):"),
    Mutant("parser-detached-late", P,
           "            parser = self._parser\n            self._parser = None\n            self._currentRequest = None",
           "            parser = self._parser\n            self._currentRequest = None",
           more=[(P, "            parser.connectionLost(reason)\n\n    def _giveUp", "            parser.connectionLost(reason)\n            self._parser = None\n\n    def _giveUp")]),
    Mutant("request-state-cleared-after-parser-callout", P,
           "            self._parser = None\n            self._currentRequest = None\n            self._finishedRequest = None\n            self._responseDeferred = None\n",
           "            self._parser = None\n",
           more=[(P, "            parser.connectionLost(reason)\n\n    def _giveUp", "            parser.connectionLost(reason)\n            self._currentRequest = None\n            self._finishedRequest = None\n            self._responseDeferred = None\n\n    def _giveUp")]),
    Mutant("narrow-parser-exception-handler", P, "            self._parser.dataReceived(bytes)\n        except BaseException:", "            self._parser.dataReceived(bytes)\n        except Exception:"),
    Mutant("narrow-writeTo-handler", P, "            _requestDeferred = request.writeTo(self.transport)\n        except BaseException:",
           "            _requestDeferred = request.writeTo(self.transport)\n        except Exception:"),
    Mutant("waiting-loss-skips-parser", P, "        self._disconnectParser(reason)\n        self._state = \"CONNECTION_LOST\"\n",
           "        if self._finishedRequest is None:\n            self._disconnectParser(reason)\n        self._state = \"CONNECTION_LOST\"\n"),
    Mutant("identity-boundary-le", H, "        elif len(data) < self.contentLength:", "        elif len(data) <= self.contentLength:"),
    Mutant("chunked-nomoredata-accepts-trailer-state", H, "        if self.state != \"FINISHED\":\n            raise _DataLoss(",
           "        if self.state not in (\"FINISHED\", \"TRAILER\"):\n            raise _DataLoss("),
    Mutant("no-body-codes-drop-304", P, "    NO_BODY_CODES = {NO_CONTENT, NOT_MODIFIED}", "    NO_BODY_CODES = {NO_CONTENT}"),
]
SILENT = [
    Silent("interim-test-on-locals-naming-the-response-and-its-code", P, '        if 100 <= self.response.code < 200:\n', '        answer = self.response\n        status = answer.code\n        if 100 <= status < 200:\n'),
    Silent("transmission-loss-reported-through-a-named-failure", P, '        self._finishedRequest.errback(Failure(RequestTransmissionFailed([reason])))\n', '        lost = Failure(RequestTransmissionFailed([reason]))\n        self._finishedRequest.errback(lost)\n'),
    Silent("no-body-verdict-carried-in-a-local-flag", P, "        if self.response.code in self.NO_BODY_CODES or self.request.method == b\"HEAD\":\n            self.response.length = 0\n", "        bodyless = None\n        if self.response.code in self.NO_BODY_CODES or self.request.method == b\"HEAD\":\n            bodyless = True\n        if bodyless is not None:\n            self.response.length = 0\n"),
    Silent("interim-reset-through-the-base-class", P, "            self.connectionMade()\n            del self.response\n", "            HTTPParser.connectionMade(self)\n            del self.response\n"),
    Silent("identity-decoder-remaining-length-by-subtraction", H, "            self.dataCallback = self.finishCallback = None\n            self.contentLength = 0\n\n            dataCallback(data[:contentLength])",
           "            self.dataCallback = self.finishCallback = None\n            self.contentLength -= contentLength\n\n            dataCallback(data[:contentLength])"),
    Silent("interim-reset-in-helper", P, "            self.connectionMade()\n            del self.response\n            return\n", "            self._resetForNextResponse()\n            return\n",
           more=[(P, "    def connectionLost(self, reason: Failure | None = None) -> None:\n        if self.bodyDecoder is not None:",
                  "    def _resetForNextResponse(self):\n        self.connectionMade()\n        del self.response\n\n    def connectionLost(self, reason: Failure | None = None) -> None:\n        if self.bodyDecoder is not None:")]),
    Silent("response-done-failure-helper", P, "        if reason is None:\n            reason = Failure._withoutTraceback(\n                ResponseDone(\"Response body fully received\")\n            )\n        self._bodyProtocol.connectionLost(reason)",
           "        finalReason = reason if reason is not None else self._done()\n        self._bodyProtocol.connectionLost(finalReason)",
           more=[(P, "    def _bodyDataFinished_DEFERRED_CLOSE(self):", "    def _done(self):\n        return Failure._withoutTraceback(ResponseDone(\"Response body fully received\"))\n\n    def _bodyDataFinished_DEFERRED_CLOSE(self):")]),
    Silent("identity-no-more-data-with-local", H, "        finishCallback = self.finishCallback\n        self.dataCallback = self.finishCallback = None\n        if self.contentLength is None:\n            finishCallback(b\"\")\n            raise PotentialDataLoss()\n        elif self.contentLength != 0:\n            raise _DataLoss()",
           "        finishCallback = self.finishCallback\n        remaining = self.contentLength\n        self.dataCallback = self.finishCallback = None\n        if remaining is None:\n            finishCallback(b\"\")\n            raise PotentialDataLoss()\n        if remaining:\n            raise _DataLoss()"),
    Silent("disconnect-parser-early-return", P, "        if self._parser is not None:\n            parser = self._parser\n            self._parser = None\n", "        parser = self._parser\n        if parser is not None:\n            self._parser = None\n"),
    Silent("request-state-cleared-just-before-parser-callout", P,
           "            self._parser = None\n            self._currentRequest = None\n            self._finishedRequest = None\n            self._responseDeferred = None\n",
           "            self._parser = None\n",
           more=[(P, "            self._transportProxy = None\n            parser.connectionLost(reason)\n", "            self._transportProxy = None\n            self._currentRequest = self._finishedRequest = self._responseDeferred = None\n            parser.connectionLost(reason)\n")]),
    Silent("none-instead-of-del", P, "        self._responseDeferred.callback(self.response)\n        del self._responseDeferred\n",
           "        self._responseDeferred.callback(self.response)\n        self._responseDeferred = None\n"),
    Silent("invert-done-test", P,
           "        elif self.state != DONE:\n            if self._everReceivedData:\n                exceptionClass = ResponseFailed\n            else:\n                exceptionClass = ResponseNeverReceived\n            self._responseDeferred.errback(Failure(exceptionClass([reason])))\n            del self._responseDeferred\n",
           "        elif self.state == DONE:\n            pass\n        else:\n            if self._everReceivedData:\n                exceptionClass = ResponseFailed\n            else:\n                exceptionClass = ResponseNeverReceived\n            self._responseDeferred.errback(Failure(exceptionClass([reason])))\n            del self._responseDeferred\n"),
    Silent("interim-range-rewritten", P, "        if 100 <= self.response.code < 200:", "        if self.response.code >= 100 and not self.response.code > 199:", allow_error=False),
    Silent("rename-parser-local", P,
           "            parser = self._parser\n            self._parser = None\n",
           "            oldParser = self._parser\n            self._parser = None\n",
           more=[(P, "            parser.connectionLost(reason)\n\n    def _giveUp", "            oldParser.connectionLost(reason)\n\n    def _giveUp")]),
    Silent("identity-boundary-flipped", H, "        elif len(data) < self.contentLength:", "        elif self.contentLength > len(data):"),
    Silent("bare-except", P, "            self._parser.dataReceived(bytes)\n        except BaseException:", "            self._parser.dataReceived(bytes)\n        except:"),
]
