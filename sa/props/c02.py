"""C02 - Deferred chaining depth never exhausts the stack."""
from __future__ import annotations

import ast

from sa.astx import dotted, src
from sa.selftest import Mutant, Silent
from sa.source import AnalysisError
from sa.props._lib_a import (DEFER, Q, CallGraph, ChainWalk, ICModel, RunShape, group, avoiding_path, call_nodes, calls_of, guarded_by_any, nodes_of,
                             aliases, is_name, params, stmt_nodes, targets_values)

PROPERTY = "C02"
TECHNIQUE = "structural: call-graph no-re-entry/no-recursion, cell typestate over CFG, chain-stack walk"
EXPLANATION = (
    "All rules are structural. (a) [call-graph reachability] On the call+reference graph of defer.py (resolution policy in _lib_a.CallGraph) no function reachable from "
    "Deferred._runCallbacks through resolved calls leads back to _runCallbacks: every call site in that closure is an obligation, "
    "the only re-entry is the opaque user callback; the _CONTINUE hand-over pushes the waiting Deferred on the explicit chain "
    "stack processed by the same loop (decided as: no nested call and the waiting Deferred becomes a work item of that loop - its position in the "
    "work list is C01's clause, not this one), and waiting for a returned Deferred uses the raw callbacks.append. "
    "(b) [typestate over every CFG path] For _inlineCallbacks the registration edge to _gotResultInlineCallbacks closes a cycle; it is decided by a finite-state "
    "propagation of (waiting[0], helper pending, fired): the helper re-enters _inlineCallbacks only with waiting[0] false, "
    "waiting[0] is True at every registration, False at the suspending return, re-armed before the back edge, and every return "
    "has either fired the result or left a resumer. The only other cycle allowed is the nested generator/coroutine edge through "
    "_cancellableInlineCallbacks under the iscoroutine/isgenerator guard (depth = static nesting, not number of awaits). "
    "(c) Deferred.__iter__/__await__ call nothing inside the module. (d) No function in the resolved-call closure of either engine can "
    "reach itself, directly or mutually (a recursion there walks _chainedTo/callbacks links, i.e. the chain length). Not decided: stack used by user code; chainDeferred chains."
)
RULE_KINDS = {
    # call-graph reachability / no-recursion closure, CFG dominance, the (cell, pending, fired) typestate propagated over every path of
    # _inlineCallbacks, and the symbolic chain-stack walk: all for-all-paths verdicts on the code, nothing evaluated on sample inputs
    "*": "structural",
}
ASSUMPTIONS = [
    "method calls on arbitrary receivers are resolved by name against Deferred and its in-module subclasses (over-approximation)",
    "calls through builtins / imported helpers (Failure, warnAboutFunction, getattr, isinstance, type, context.run) do not call back "
    "into defer.py except through the user's callables",
]

RUN = "Deferred._runCallbacks"
IC = "_inlineCallbacks"


def check(ctx):
    mod = ctx.mod(DEFER)
    cg = CallGraph(mod)
    ctx.need(RUN in cg.funcs and IC in cg.funcs, "Deferred._runCallbacks and _inlineCallbacks in the call graph")
    back = cg.reaching(RUN)                       # everything that can (transitively) start the chain loop
    reach_ic = cg.reaching(IC)

    # ======================================================================================
    # (a) no re-entry from _runCallbacks
    # ======================================================================================
    with group(ctx, "run-callbacks/call-graph"):
        closure = cg.reach_from(RUN)              # everything the chain loop can call through resolved edges
        nsites = 0
        for fn in sorted(closure):
            for s in cg.sites[fn]:
                nsites += 1
                bad = s.target in back
                how = " -> ".join(cg.chain_to(s.target, RUN) or [s.target]) if bad else ""
                ctx.check(not bad, "no-reentry/run-callbacks", ctx.construct(Q + fn, s.node),
                          f"the chain loop calls {s.target}, which runs callbacks again ({how}): one stack frame per chained Deferred",
                          detail=f"{s.kind} -> {s.target}")
        ctx.floor("no-reentry/run-callbacks", nsites, 1)
    with group(ctx, "no-recursion"):
        _check_no_recursion(ctx, cg)
    S = None
    with group(ctx, "run-callbacks/shape"):
        S = RunShape(ctx)
    if S is not None:
        with group(ctx, "run-callbacks/calls"):
            _check_run_calls(ctx, cg, S, back)
        with group(ctx, "run-callbacks/iterative"):
            _check_iterative(ctx, S)

    # ======================================================================================
    # (b) _inlineCallbacks
    # ======================================================================================
    M = None
    with group(ctx, "inline/model"):
        M = ICModel(ctx)
    if M is not None:
        with group(ctx, "inline/registrations"):
            _check_registrations(ctx, cg, M, reach_ic)
        for name, (H, k) in sorted(M.helpers.items()):
            with group(ctx, f"inline/helper {name}"):
                _check_helper(ctx, M, name, H, k)
        with group(ctx, "inline/cell-states"):
            _check_cell_states(ctx, M)
        with group(ctx, "inline/cycles"):
            _check_cycles(ctx, cg, M, reach_ic)

    # ======================================================================================
    # (c) __iter__ / __await__
    # ======================================================================================
    with group(ctx, "await"):
        ctx.func(DEFER, "Deferred.__iter__")
        cls = ctx.cls(DEFER, "Deferred")
        aw = [st for st in cls.body if isinstance(st, ast.Assign) and any(is_name(t, "__await__") for t in st.targets)]
        ctx.check(("Deferred.__await__" not in cg.funcs and len(aw) == 1 and is_name(aw[0].value, "__iter__")) or "Deferred.__await__" in cg.funcs,
                  "await/alias", Q + "Deferred.__await__", "__await__ is neither __iter__ nor a method")
        for nm in ("Deferred.__iter__",) + (("Deferred.__await__",) if "Deferred.__await__" in cg.funcs else ()):
            fn = cg.funcs[nm]
            for s in cg.sites[nm]:
                ctx.check(False if s.target in back or s.target in reach_ic else True, "await/no-engine-call", ctx.construct(Q + nm, s.node),
                          f"awaiting a Deferred calls {s.target}, which runs callbacks / the generator driver")
            calls = [x for x in ast.walk(fn) if isinstance(x, ast.Call)]
            for x in calls:
                if id(x) not in {id(s.node) for s in cg.sites[nm]}:
                    ctx.ok("await/no-engine-call", ctx.construct(Q + nm, x), "unresolved (builtin / Failure method)")
            ctx.check(not any(isinstance(x, ast.YieldFrom) for x in ast.walk(fn)) and
                      all(is_name(x.value, "self") for x in ast.walk(fn) if isinstance(x, ast.Yield)), "await/yields-itself", Q + nm,
                      "awaiting does not simply yield the Deferred to the driver (delegation would nest one frame per await)")


def _check_no_recursion(ctx, cg):
    """No function in the resolved-call closure of the two engines may reach itself (directly or mutually): such a recursion
    walks a structure whose size is the chain length (_chainedTo links, callbacks, the chain stack), so its depth grows with it.
    Only *call* edges count (a function merely passed as an argument is invoked later by the chain loop, which is the opaque
    call-out); the two cycles through _inlineCallbacks that are decided elsewhere (registration edge under the waiting cell,
    nested generator under the iscoroutine/isgenerator guard) are cut at their edge into _inlineCallbacks."""
    is_call = lambda s: s.kind != "call"           # skip predicate: drop reference edges
    roots = [RUN, IC] + sorted(t for s in cg.sites.get(IC, []) if s.kind == "ref" for t in [s.target] if t in cg.reaching(IC))
    closure = set()
    for r in roots:
        closure |= cg.reach_from(r, skip=is_call)
    allowed_into_ic = {"_cancellableInlineCallbacks"} | {r for r in roots if r not in (RUN, IC)}

    def skip(s):
        return s.kind != "call" or (s.target == IC and s.func in allowed_into_ic)
    n = 0
    for fn in sorted(closure):
        cyc_sites = [s for s in cg.sites.get(fn, []) if not skip(s) and s.target in closure and
                     (s.target == fn or fn in cg.reach_from(s.target, skip=skip))]
        n += 1
        if not cyc_sites:
            ctx.ok("no-recursion/closure", Q + fn, "cannot reach itself through resolved calls")
        for s in cyc_sites:
            chain = cg.chain_to(s.target, fn, skip=skip) or [s.target]
            ctx.check(False, "no-recursion/closure", ctx.construct(Q + fn, s.node),
                      f"{fn} can re-enter itself ({' -> '.join([fn] + chain)}) and is reachable from the chain / generator engine: the recursion "
                      "follows links between Deferreds (e.g. _chainedTo), so its depth grows with the chain length and ends in RecursionError "
                      "for long chains")
        # note (not a violation): a call made once per loop iteration to a function that itself loops is quadratic in the chain length
        f = cg.funcs[fn]
        for s in cg.sites.get(fn, []):
            if s.kind == "call" and s.target in closure and _in_loop(s.node, f) and any(isinstance(x, (ast.While, ast.For)) for x in ast.walk(cg.funcs[s.target])):
                ctx.note(f"{fn}: `{s.text[:60]}` is called inside a loop and {s.target} loops itself (possibly quadratic in the chain length)")
    ctx.floor("no-recursion/closure", n, 4)


def _in_loop(node, func) -> bool:
    p = getattr(node, "_parent", None)
    while p is not None and p is not func:
        if isinstance(p, (ast.While, ast.For, ast.AsyncFor)):
            return True
        p = getattr(p, "_parent", None)
    return False


def _check_run_calls(ctx, cg, S, back):
    """every call expression in _runCallbacks is accounted for: resolved (call-graph rule), the user call-out, or external"""
    q = S.q
    resolved_ids = {id(s.node) for s in cg.sites[RUN]}
    n_calls = 0
    for x in ast.walk(S.f):
        if not isinstance(x, ast.Call):
            continue
        n_calls += 1
        if id(x) in resolved_ids:
            continue
        if is_name(x.func, S.cb):
            ctx.ok("no-reentry/opaque-callout", q + " | <user callback call-out>", "the only re-entry point")
            continue
        # a call on a local that holds a bound method of a Deferred would hide a re-entry
        tgt = _local_method_alias(S.f, x.func.id) if isinstance(x.func, ast.Name) else None
        ctx.check(tgt is None or not any(f"{c}.{tgt}" in back for c in cg.family), "no-reentry/external-call",
                  ctx.construct(q, x), f"the chain loop calls a local alias of .{tgt}, which runs callbacks again",
                  detail="not resolvable inside defer.py (builtin / imported / container method): cannot re-enter by assumption")
    ctx.floor("no-reentry/calls-seen", n_calls, 4)


def _check_iterative(ctx, S):
    """The hand-over is iterative: decided by the symbolic walk of one round of the outer loop (ChainWalk) - after the _CONTINUE
    hand-over the *same frame* starts its next round with the waiting Deferred on top of the logical chain stack (explicit list plus,
    where used, a separately kept current Deferred) and the current one right below it."""
    g, q = S.g, S.q
    W = ChainWalk(S)
    if W.ambiguous:
        raise AnalysisError("C02: several candidate chain stacks in Deferred._runCallbacks")
    ctx.check(W.stack_var is not None, "iterative/loop-over-chain-stack", q + " | <explicit chain stack>",
              "_runCallbacks has no explicit stack of Deferreds: a _CONTINUE hand-over can only be processed by a nested call, one frame per "
              "chained Deferred")
    cont_T = [d for t in S.cont_tests for d, l in g.succ[t] if l in ("T", "F") and S._cont_fact(g.node(t).ast, l == "T") is True]
    ctx.check(bool(cont_T), "iterative/handover-uses-chain-stack", q + " | <_CONTINUE marker recognised>",
              "the _CONTINUE marker is no longer recognised: chained Deferreds are resumed some other way")
    if W.stack_var is not None:
        ctx.check(W.checkpoint is not None and W.mode is not None, "iterative/loop-over-chain-stack", q + " | <outer loop over the chain stack>",
                  "_runCallbacks no longer has an outer loop that takes its current Deferred from the chain stack round after round")
        hand = W.handover_worklist()      # iteration only: the chainee is a work item of this loop; where on the stack is C01's clause
        ctx.check(bool(hand), "iterative/handover-uses-chain-stack", q + " | <_CONTINUE branch>",
                  "no path of the hand-over comes back to the outer loop: the waiting Deferred is not processed by this frame")
        for okv, obs, path in hand:
            ctx.check(okv, "iterative/handover-uses-chain-stack", q + " | <_CONTINUE branch>",
                      "after the hand-over the waiting Deferred is not what the same loop processes next (it is not put on top of the chain "
                      f"stack): {obs}", detail=obs, witness="" if okv else g.describe(path))
    # waiting for a returned Deferred: raw append of the continuation
    for r in S.regs:
        call = calls_of(g, r, S._is_reg)[0]
        ctx.check(call.func.attr == "append", "iterative/raw-registration", ctx.construct(q, call),
                  "the continuation is not registered with a raw list append")
    ctx.check(bool(S.regs), "iterative/raw-registration", q + " | <registration of the continuation>",
              "no raw `callbacks.append(current._continuation())` found: chaining goes through an API that may run callbacks")


def _check_registrations(ctx, cg, M, reach_ic):
    """Every callable registered on an awaited object, for each outcome, is a helper that re-enters
    _inlineCallbacks only under the waiting-cell guard."""
    iq = M.q
    ctx.check(bool(M.regs), "inline/registration-present", iq,
              "_inlineCallbacks registers nothing on the Deferred the generator yielded: the generator is never resumed from it")
    ctx.check(M.W is not None, "inline/waiting-cell-present", iq,
              "_inlineCallbacks has no `waiting` cell list: nothing can tell a synchronous firing from a late one, so resumption must recurse")
    for r in M.regs:
        c = M.reg_calls[r]
        for outcome, callee, extra in M.routes[r]:
            what = "success" if outcome == "ok" else "failure"
            cons = ctx.construct(iq, c) + f" [{what}]"
            if callee is None:
                ctx.check(False, "inline/both-outcomes-guarded", cons,
                          f"a {what} of the awaited Deferred is not routed to the waiting-cell helper ({c.func.attr}): the generator is never resumed for it")
                continue
            tg = cg._resolve_name(IC, callee.id) if isinstance(callee, ast.Name) else []
            if isinstance(callee, ast.Name) and callee.id in M.helpers:
                ctx.ok("inline/registered-callable-guarded", cons, f"{callee.id} receives the waiting cell; its body is decided by the helper rules")
                ctx.ok("inline/both-outcomes-guarded", cons, f"{what} -> {callee.id}")
                continue
            if tg and any(t in reach_ic for t in tg):
                ctx.check(False, "inline/registered-callable-guarded", cons,
                          f"`{src(callee)}` is registered for the {what} of the awaited Deferred and reaches _inlineCallbacks without the waiting-cell "
                          f"guard ({' -> '.join(cg.chain_to(tg[0], IC) or tg[:1])}): an already-fired Deferred re-enters the driver recursively, one "
                          "frame per await (RecursionError for a few hundred pre-fired awaits)")
                continue
            if tg:
                ctx.check(False, "inline/both-outcomes-guarded", cons,
                          f"`{src(callee)}` handles the {what} of the awaited Deferred but never resumes the generator")
                continue
            raise AnalysisError(f"C02: callable `{src(callee)}` registered on the awaited object cannot be resolved")
        ctx.check(isinstance(c.func.value, ast.Name) and M.is_yielded(c.func.value.id), "inline/registration-shape", ctx.construct(iq, c),
                  "the registration is not made on the object the generator yielded")


def _check_helper(ctx, M, name, H, k):
    """The helper, read as a function of the value the cell holds when it runs (abstract evaluation of its CFG, M.helper_effect):
    with the value the loop arms the cell with it must hand the outcome over without re-entering; with the value the loop leaves
    when it gives up it must re-enter.  The protocol values are whatever constants / private markers the code uses."""
    hq = Q + name
    hg = ctx.cfg(H)
    hp = params(H)
    if len(hp) <= k:
        ctx.check(False, "inline/registration-shape", hq, f"{name} has no parameter for the waiting cell passed as extra argument {k}")
        return
    Wp = hp[k]
    Wa, Ra = aliases(H, Wp), aliases(H, hp[0])
    recalls = call_nodes(hg, lambda c: is_name(c.func, IC))
    ctx.check(bool(recalls), "inline/helper-resumes", hq, "the helper never resumes the generator")
    armed = sorted({c for r in M.regs for (c, p, f) in M.at(r)}, key=repr)                 # cell values at a registration
    left = sorted({c for a, l in M.g.pred[M.g.exit] for (c, p, f) in M.edge_states(a, l) if p == 1}, key=repr)   # ... at a suspending return
    show = lambda v: "unknown" if v is None else (v[1] if isinstance(v, tuple) else str(v))
    for v in armed:
        effs = M.helper_effect(v)
        ctx.check(bool(effs) and not any(called for _, called in effs), "inline/helper-reenters-only-when-not-waiting",
                  ctx.construct(hq, hg.node(recalls[0]).ast) if recalls else hq,
                  f"with the cell holding {show(v)} - its value while the loop that registered the helper is still on the stack - the helper "
                  "calls _inlineCallbacks: one frame per already-fired Deferred awaited (RecursionError after a few hundred awaits)")
        ctx.check(bool(effs) and all(c2 != v for c2, called in effs if not called), "inline/helper-clears-cell", hq + f" | <cell = {show(v)}>",
                  "a synchronous firing leaves the cell as the loop armed it: the loop takes the Deferred for unfired and returns; nobody resumes "
                  "the generator")
    for v in left:
        effs = M.helper_effect(v)
        ctx.check(bool(effs) and all(called for _, called in effs), "inline/helper-resumes", hq + f" | <cell = {show(v)}>",
                  f"with the cell holding {show(v)} - what the loop leaves when it returns to wait - a late firing can return without "
                  "resuming the generator")
    ctx.check(len({repr(sorted(M.helper_effect(v), key=repr)) for v in set(armed) | set(left)}) > 1 or not (armed and left),
              "inline/helper-tests-cell", hq, f"the helper behaves the same whatever `{Wp}[0]` holds")
    # the outcome is left in the cell list on every path that does not re-enter
    stores = stmt_nodes(hg, lambda st: any(isinstance(t, ast.Subscript) and isinstance(t.value, ast.Name) and t.value.id in Wa and is_name(v) and v.id in Ra
                                           for t, v in targets_values(st) if v is not None))
    wit = avoiding_path(hg, [hg.entry], [hg.exit], set(stores) | set(recalls))
    ctx.check(bool(stores) and wit is None, "inline/helper-stores-result", hq,
              "a synchronous firing does not leave the outcome in the cell list for the loop to pick up", witness=hg.describe(wit))


def _check_cell_states(ctx, M):
    ig, iq, W = M.g, M.q, M.W
    # (ii)/(iii) cell states in the loop
    for r in M.regs:
        st = M.at(r)
        bad = sorted(((c, p, f) for (c, p, f) in st if c is None or p != 0 or f != 0 or any(called for _, called in M.helper_effect(c))), key=str)
        ctx.check(bool(st) and not bad, "inline/cell-true-at-registration", ctx.construct(iq, M.reg_calls[r]),
                  f"the helper can be registered in state (cell, pending, fired) = {bad[:3]}: with the cell in that state an already-fired "
                  "Deferred makes the helper call _inlineCallbacks recursively, once per await")
    for a, states in _exit_states(M):
        n = ig.node(a)
        bad = sorted((s for s in states if not (s[2] == 1 or (s[1] == 1 and M.resumes_later(s[0])))), key=str)
        ctx.check(not bad, "inline/return-leaves-a-resumer", ctx.construct(iq, n.ast) + f" @{_which(M, a)}",
                  f"_inlineCallbacks can return in state (waiting[0], pending, fired) = {bad[:3]}: neither the result Deferred fired nor "
                  "a helper left that will re-enter (waiting[0] must be False while the helper is pending)")
    for n in M.resumes:
        st = M.at(n)
        bad = sorted((s for s in st if s[1] == 1 or s[2] == 1), key=str)
        ctx.check(bool(st) and not bad, "inline/resume-only-with-result", ctx.construct(iq, ig.node(n).ast),
                  f"the generator can be resumed in state {bad[:3]}: while the awaited Deferred is still pending or after the result fired")
    ctx.check(bool(M.cell_tests), "inline/loop-tests-cell", iq, f"the loop never tests `{W}[0]` after registering the helper")
    # the loop is a loop: registration can reach a resume without leaving the function
    for r in M.regs:
        ctx.check(ig.path([r], M.resumes, edge_ok=lambda a, b, l: l != "exc", strict=True) is not None, "inline/loop-unfolds",
                  ctx.construct(iq, M.reg_calls[r]), "after a synchronous firing control does not return to the resume point inside the same frame")


def _check_cycles(ctx, cg, M, reach_ic):
    """cycles through _inlineCallbacks in the call graph"""
    ig, iq = M.g, M.q
    for s in cg.sites[IC]:
        if s.target not in reach_ic:
            ctx.ok("inline/no-other-cycle", ctx.construct(iq, s.node), f"{s.kind} -> {s.target}: does not lead back")
            continue
        nodes = nodes_of(ig, s.node)
        if s.kind == "ref" and s.target in M.helpers and nodes and all(n in M.regs for n in nodes):
            ctx.ok("inline/no-other-cycle", ctx.construct(iq, s.node), "registration edge decided by the cell propagation")
            continue
        if s.kind == "call" and s.target == "_cancellableInlineCallbacks":
            ok = bool(nodes) and all(guarded_by_any(ig, n, _is_gen_test, True) for n in nodes)
            ctx.check(ok, "inline/nested-generator-edge-guarded", ctx.construct(iq, s.node),
                      "_cancellableInlineCallbacks (which re-enters _inlineCallbacks) is called for values that are not generator / "
                      "coroutine objects: recursion per yielded value")
            continue
        ctx.check(False, "inline/no-other-cycle", ctx.construct(iq, s.node),
                  f"_inlineCallbacks reaches itself through {s.target} ({' -> '.join(cg.chain_to(s.target, IC) or [s.target])})")
    for name in sorted(M.helpers):
        for s in cg.sites.get(name, []):
            if s.target in reach_ic and not (s.kind == "call" and s.target == IC):
                ctx.check(False, "inline/no-other-cycle", ctx.construct(Q + name, s.node), f"the helper reaches _inlineCallbacks through {s.target}")


def _local_method_alias(f, name):
    for st in ast.walk(f):
        for t, v in targets_values(st) if isinstance(st, (ast.Assign, ast.AnnAssign)) else []:
            if is_name(t, name) and isinstance(v, ast.Attribute):
                return v.attr
    return None


def _is_gen_test(e) -> bool:
    return isinstance(e, ast.Call) and (dotted(e.func) or "").split(".")[-1] in ("iscoroutine", "isgenerator", "isawaitable", "iscoroutinefunction")


def _exit_states(M):
    """(pred node of the normal exit, states on that edge)"""
    g = M.g
    out = []
    for a, l in g.pred[g.exit]:
        if a in M.states:
            o = M.edge_states(a, l)
            if o:
                out.append((a, o))
    return sorted(out, key=lambda x: x[0])


def _which(M, a) -> str:
    """stable label of a return site: the nearest preceding fire / cell store, by kind"""
    g = M.g
    if any(p in M.fires for p, _ in g.pred[a]) or a in M.fires:
        return "after-fire"
    prevs = [p for p, _ in g.pred[a]]
    for p in prevs:
        if g.node(p).kind == "stmt":
            return "after " + src(g.node(p).ast)[:40]
    return "return"


D = DEFER
MUTANTS = [
    Mutant("handover-via-unpause", D, "                    chainee.paused -= 1\n                    chain.append(chainee)\n",
           "                    chainee.unpause()\n", expect_rule="no-reentry/run-callbacks"),
    Mutant("register-via-addBoth", D, "currentResult.callbacks.append(current._continuation())",
           "currentResult.addCallbacks(*current._continuation())", expect_rule="no-reentry/run-callbacks"),
    Mutant("failures-recursive-only", D, "                    chainee.paused -= 1\n                    chain.append(chainee)\n",
           "                    chainee.paused -= 1\n                    if isinstance(chainee.result, Failure):\n                        chainee._runCallbacks()\n                    else:\n                        chain.append(chainee)\n",
           expect_rule="no-reentry/run-callbacks"),
    Mutant("helper-always-reenters", D, "    if waiting[0]:\n        waiting[0] = False\n        waiting[1] = r\n    else:\n        _inlineCallbacks(r, gen, status, context)\n",
           "    _inlineCallbacks(r, gen, status, context)\n", expect_rule="inline/helper-reenters-only-when-not-waiting"),
    Mutant("rearm-dropped", D, "            # branch above would have been taken.\n\n            waiting[0] = True\n            waiting[1] = None\n",
           "            # branch above would have been taken.\n\n            waiting[1] = None\n", expect_rule="inline/cell-true-at-registration"),
    Mutant("suspend-leaves-cell-true", D, "                waiting[0] = False\n                status.waitingOn = result", "                status.waitingOn = result",
           expect_rule="inline/return-leaves-a-resumer"),
    Mutant("loop-test-dropped", D, "            if waiting[0]:\n                # Haven't called back yet, set flag so that we get reinvoked\n                # and return from the loop\n                waiting[0] = False\n                status.waitingOn = result  # type: ignore[assignment]\n                return\n",
           "            if True:\n                waiting[0] = False\n                status.waitingOn = result  # type: ignore[assignment]\n                return\n",
           expect_rule="inline/return-leaves-a-resumer"),
    Mutant("nested-edge-unguarded", D, "        if not isDeferred and (iscoroutine(result) or inspect.isgenerator(result)):\n            result = _cancellableInlineCallbacks(result)",
           "        if not isDeferred:\n            result = _cancellableInlineCallbacks(result)", expect_rule="inline/nested-generator-edge-guarded"),
    Mutant("helper-keeps-cell", D, "        waiting[0] = False\n        waiting[1] = r\n", "        waiting[1] = r\n", expect_rule="inline/helper-clears-cell"),
    Mutant("await-delegates", D, "            if result is _NO_RESULT:\n                yield self\n                continue\n",
           "            if result is _NO_RESULT:\n                yield from self.addBoth(passthru)\n                continue\n", expect_rule="await/"),
    Mutant("prefired-resumes-by-recursion", D, "            result = waiting[1]\n            # Reset waiting to initial values for next loop.",
           "            return _inlineCallbacks(waiting[1], gen, status, context)\n            # Reset waiting to initial values for next loop.",
           expect_rule="inline/no-other-cycle"),
    Mutant("failure-registered-straight-on-driver", D, "result.addBoth(_gotResultInlineCallbacks, waiting, gen, status, context)",
           "result.addCallbacks(_gotResultInlineCallbacks, _inlineCallbacks, callbackArgs=(waiting, gen, status, context), errbackArgs=(gen, status, context))",
           expect_rule="inline/registered-callable-guarded"),
    Mutant("success-only-registration", D, "result.addBoth(_gotResultInlineCallbacks, waiting, gen, status, context)",
           "result.addCallback(_gotResultInlineCallbacks, waiting, gen, status, context)", expect_rule="inline/both-outcomes-guarded"),
    Mutant("registered-through-lambda-on-driver", D, "result.addBoth(_gotResultInlineCallbacks, waiting, gen, status, context)",
           "result.addBoth(lambda r: _inlineCallbacks(r, gen, status, context))\n            waiting[0] = False", expect_rule="inline/"),
    Mutant("chain-stack-removed-recursive-handover", D, "        chain: List[Deferred[Any]] = [self]\n\n        while chain:\n            current = chain[-1]\n",
           "        current = self\n        if True:\n",
           more=[(D, "                    chainee.paused -= 1\n                    chain.append(chainee)\n", "                    chainee.paused -= 1\n                    chainee._runCallbacks()\n"),
                 (D, "                chain.pop()\n", "                pass\n")],
           expect_rule="iterative/loop-over-chain-stack"),
    Mutant("self-return-check-follows-chain-recursively", D, "                        if current.result is current:\n",
           "                        if current.result is current or (type(current.result) in _DEFERRED_SUBCLASSES and current.result._dependsOn(current)):\n",
           more=[(D, "    def _runCallbacks(self) -> None:\n        \"\"\"\n        Run the chain of callbacks once a result is available.\n",
                  "    def _dependsOn(self, other):\n        nxt = self._chainedTo\n        if nxt is None:\n            return False\n        return nxt is other or nxt._dependsOn(other)\n\n"
                  "    def _runCallbacks(self) -> None:\n        \"\"\"\n        Run the chain of callbacks once a result is available.\n")],
           expect_rule="no-recursion/closure"),
    Mutant("mutual-recursion-behind-pause", D, "    def pause(self) -> None:\n        \"\"\"\n        Stop processing on a L{Deferred} until L{unpause}() is called.\n        \"\"\"\n        self.paused += 1\n",
           "    def pause(self) -> None:\n        self.paused += 1\n        self._notePause()\n\n    def _notePause(self) -> None:\n        if self._chainedTo is not None:\n            self._chainedTo._markWaiter()\n\n    def _markWaiter(self) -> None:\n        self._notePause()\n",
           expect_rule="no-recursion/closure"),
    Mutant("cell-read-before-registration", D, "            result.addBoth(_gotResultInlineCallbacks, waiting, gen, status, context)  # type: ignore[attr-defined]\n            if waiting[0]:",
           "            stillWaiting = waiting[0]\n            result.addBoth(_gotResultInlineCallbacks, waiting, gen, status, context)  # type: ignore[attr-defined]\n            if stillWaiting:", expect_rule="inline/"),
    Mutant("cursor-shape-hand-over-by-nested-call", D, "        chain: List[Deferred[Any]] = [self]\n\n        while chain:\n            current = chain[-1]\n", "        current = self\n        parents: List[Deferred[Any]] = []\n\n        while True:\n",
           more=[(D, "            finished = True\n            current._chainedTo = None\n", "            current._chainedTo = None\n"),
                 (D, "                    chain.append(chainee)\n                    # Delay cleaning this Deferred and popping it from the chain\n                    # until after we've dealt with chainee.\n                    finished = False\n                    break\n", "                    chainee._runCallbacks()\n                    continue\n"),
                 (D, "            if finished:\n                # As much of the callback chain", "            if True:\n                # As much of the callback chain"),
                 (D, "                chain.pop()\n", "                if not parents:\n                    return\n                current = parents.pop()\n")], expect_rule="no-re"),
    Mutant("marker-cell-re-armed-with-the-wrong-marker", D, "    waiting: List[Any] = [True, None]\n\n    stopIteration: bool = False\n", "    waiting: List[Any] = [_HERE]\n\n    stopIteration: bool = False\n",
           more=[(D, "    if waiting[0]:\n        waiting[0] = False\n        waiting[1] = r\n    else:\n        _inlineCallbacks(r, gen, status, context)\n",
                  "    if waiting[0] is _GONE:\n        _inlineCallbacks(r, gen, status, context)\n        return\n    waiting[0] = r\n"),
                 (D, "            if waiting[0]:\n                # Haven't called back yet, set flag so that we get reinvoked\n                # and return from the loop\n                waiting[0] = False\n                status.waitingOn",
                  "            if waiting[0] is _HERE:\n                waiting[0] = _GONE\n                status.waitingOn"),
                 (D, "            result = waiting[1]\n", "            result = waiting[0]\n"),
                 (D, "            # branch above would have been taken.\n\n            waiting[0] = True\n            waiting[1] = None\n", "            # branch above would have been taken.\n\n            waiting[0] = _GONE\n"),
                 (D, "def _gotResultInlineCallbacks(\n", "_HERE = object()\n_GONE = object()\n\n\ndef _gotResultInlineCallbacks(\n")], expect_rule="inline/"),
    Mutant("waiting-deferred-never-queued", D, "                    chain.append(chainee)\n", "                    pass\n", expect_rule="iterative/handover-uses-chain-stack"),
]
SILENT = [
    Silent("rename-helper-params", D, "    if waiting[0]:\n        waiting[0] = False\n        waiting[1] = r\n    else:\n        _inlineCallbacks(r, gen, status, context)\n",
           "    cell, outcome = waiting, r\n    if cell[0]:\n        cell[0] = False\n        cell[1] = outcome\n    else:\n        _inlineCallbacks(outcome, gen, status, context)\n"),
    Silent("helper-branches-inverted", D, "    if waiting[0]:\n        waiting[0] = False\n        waiting[1] = r\n    else:\n        _inlineCallbacks(r, gen, status, context)\n",
           "    if not waiting[0]:\n        _inlineCallbacks(r, gen, status, context)\n        return\n    waiting[1] = r\n    waiting[0] = False\n"),
    Silent("handover-helper-function", D, "                    chainee.paused -= 1\n                    chain.append(chainee)\n",
           "                    chainee.paused -= 1\n                    chain.append(chainee)\n                    chainee._continuation()\n"),
    Silent("rearm-order", D, "            # branch above would have been taken.\n\n            waiting[0] = True\n            waiting[1] = None\n",
           "            # branch above would have been taken.\n\n            waiting[1] = None\n            waiting[0] = True\n"),
    Silent("suspend-test-inverted", D, "            if waiting[0]:\n                # Haven't called back yet, set flag so that we get reinvoked\n                # and return from the loop\n                waiting[0] = False\n                status.waitingOn = result  # type: ignore[assignment]\n                return\n\n            result = waiting[1]\n",
           "            if not waiting[0]:\n                result = waiting[1]\n            else:\n                status.waitingOn = result  # type: ignore[assignment]\n                waiting[0] = False\n                return\n"),
    Silent("deque-popleft", D, "        self.callbacks: List[_CallbackChain] = []\n", "        self.callbacks = deque()\n",
           more=[(D, "item = current.callbacks.pop(0)", "item = current.callbacks.popleft()")]),
    Silent("send-without-context", D, "                result = context.run(gen.send, result)\n", "                result = gen.send(result)\n"),
    Silent("registration-by-keywords", D, "result.addBoth(_gotResultInlineCallbacks, waiting, gen, status, context)",
           "result.addCallbacks(callback=_gotResultInlineCallbacks, errback=_gotResultInlineCallbacks, callbackArgs=(waiting, gen, status, context), errbackArgs=(waiting, gen, status, context))"),
    Silent("self-return-check-follows-chain-iteratively", D, "                        if current.result is current:\n",
           "                        if current.result is current or (type(current.result) in _DEFERRED_SUBCLASSES and current.result._dependsOn(current)):\n",
           more=[(D, "    def _runCallbacks(self) -> None:\n        \"\"\"\n        Run the chain of callbacks once a result is available.\n",
                  "    def _dependsOn(self, other):\n        d = self._chainedTo\n        while d is not None:\n            if d is other:\n                return True\n            d = d._chainedTo\n        return False\n\n"
                  "    def _runCallbacks(self) -> None:\n        \"\"\"\n        Run the chain of callbacks once a result is available.\n")]),
    Silent("current-variable-plus-pending-stack", D, "        chain: List[Deferred[Any]] = [self]\n\n        while chain:\n            current = chain[-1]\n",
           "        pending: List[Deferred[Any]] = []\n        current = self\n\n        while True:\n",
           more=[(D, "            finished = True\n            current._chainedTo = None\n", "            nextUp = None\n            current._chainedTo = None\n"),
                 (D, "                    chain.append(chainee)\n", "                    nextUp = chainee\n"),
                 (D, "                    finished = False\n                    break\n", "                    break\n"),
                 (D, "            if finished:\n                # As much of the callback chain", "            if nextUp is not None:\n                pending.append(current)\n                current = nextUp\n                continue\n            if True:\n                # As much of the callback chain"),
                 (D, "                chain.pop()\n", "                if not pending:\n                    return\n                current = pending.pop()\n")]),
    Silent("suspend-test-through-temporary", D, "            if waiting[0]:\n                # Haven't called back yet, set flag so that we get reinvoked\n                # and return from the loop\n                waiting[0] = False\n                status.waitingOn = result  # type: ignore[assignment]\n                return\n\n            result = waiting[1]\n            # Reset waiting to initial values for next loop.  gotResult uses\n            # waiting, but this isn't a problem because gotResult is only\n            # executed once, and if it hasn't been executed yet, the return\n            # branch above would have been taken.\n\n            waiting[0] = True\n            waiting[1] = None\n",
           "            stillWaiting = waiting[0]\n            if not stillWaiting:\n                result, waiting[1] = waiting[1], None\n                waiting[0] = True\n                continue\n            waiting[0] = False\n            status.waitingOn = result\n            return\n"),
    Silent("helper-tests-cell-through-temporary", D, "    if waiting[0]:\n        waiting[0] = False\n        waiting[1] = r\n    else:\n        _inlineCallbacks(r, gen, status, context)\n",
           "    armed = waiting[0]\n    if armed:\n        waiting[0] = False\n        waiting[1] = r\n        return\n    _inlineCallbacks(r, gen, status, context)\n"),
    Silent("resume-extracted-into-helper", D, "            isFailure = isinstance(result, Failure)\n\n            if isFailure:\n                result = context.run(\n                    cast(Failure, result).throwExceptionIntoGenerator, gen\n                )\n            else:\n                result = context.run(gen.send, result)\n",
           "            isFailure = isinstance(result, Failure)\n            result = _advance(gen, result, context)\n",
           more=[(D, "@_extraneous\ndef _inlineCallbacks(", "def _advance(gen, outcome, context):\n    if isinstance(outcome, Failure):\n        return context.run(outcome.throwExceptionIntoGenerator, gen)\n    return context.run(gen.send, outcome)\n\n\n@_extraneous\ndef _inlineCallbacks(")]),
    Silent("slot-selected-by-conditional-expression", D, "                if not isinstance(current.result, Failure):\n                    callback, args, kwargs = item[0]\n                else:\n                    # type note: Callback signature also works for Errbacks in\n                    #     this context.\n                    callback, args, kwargs = item[1]\n",
           "                callback, args, kwargs = item[1] if isinstance(current.result, Failure) else item[0]\n"),
    Silent("hand-over-detected-by-stack-depth", D, "            finished = True\n            current._chainedTo = None\n", "            before = len(chain)\n            current._chainedTo = None\n",
           more=[(D, "                    finished = False\n                    break\n", "                    break\n"),
                 (D, "            if finished:\n                # As much of the callback chain", "            if len(chain) == before:\n                # As much of the callback chain")]),
    Silent("waiting-cell-as-state-class", D, "    waiting: List[Any] = [True, None]\n\n    stopIteration: bool = False\n", "    waiting = _Box()\n\n    stopIteration: bool = False\n",
           more=[(D, "    if waiting[0]:\n        waiting[0] = False\n        waiting[1] = r\n    else:\n        _inlineCallbacks(r, gen, status, context)\n", "    if waiting.armed:\n        waiting.armed = False\n        waiting.value = r\n    else:\n        _inlineCallbacks(r, gen, status, context)\n"),
                 (D, "    r: object,\n    waiting: List[Any],\n", "    r: object,\n    waiting: \"_Box\",\n"),
                 (D, "            if waiting[0]:\n                # Haven't called back yet, set flag so that we get reinvoked\n                # and return from the loop\n                waiting[0] = False\n                status.waitingOn", "            if waiting.armed:\n                waiting.armed = False\n                status.waitingOn"),
                 (D, "            result = waiting[1]\n", "            result = waiting.value\n"),
                 (D, "            # branch above would have been taken.\n\n            waiting[0] = True\n            waiting[1] = None\n", "            # branch above would have been taken.\n\n            waiting.armed = True\n            waiting.value = None\n"),
                 (D, "def _gotResultInlineCallbacks(\n", "class _Box:\n    __slots__ = (\"armed\", \"value\")\n\n    def __init__(self):\n        self.armed = True\n        self.value = None\n\n\ndef _gotResultInlineCallbacks(\n")]),
    Silent("cursor-re-pointed-inside-the-inner-loop", D, "        chain: List[Deferred[Any]] = [self]\n\n        while chain:\n            current = chain[-1]\n", "        current = self\n        parents: List[Deferred[Any]] = []\n\n        while True:\n",
           more=[(D, "            finished = True\n            current._chainedTo = None\n", "            current._chainedTo = None\n"),
                 (D, "                    chain.append(chainee)\n                    # Delay cleaning this Deferred and popping it from the chain\n                    # until after we've dealt with chainee.\n                    finished = False\n                    break\n", "                    parents.append(current)\n                    current = chainee\n                    if current.paused:\n                        return\n                    current._chainedTo = None\n                    continue\n"),
                 (D, "            if finished:\n                # As much of the callback chain", "            if True:\n                # As much of the callback chain"),
                 (D, "                chain.pop()\n", "                if not parents:\n                    return\n                current = parents.pop()\n")]),
    Silent("one-slot-cell-with-private-markers", D, "    waiting: List[Any] = [True, None]\n\n    stopIteration: bool = False\n", "    waiting: List[Any] = [_HERE]\n\n    stopIteration: bool = False\n",
           more=[(D, "    if waiting[0]:\n        waiting[0] = False\n        waiting[1] = r\n    else:\n        _inlineCallbacks(r, gen, status, context)\n",
                  "    if waiting[0] is _GONE:\n        _inlineCallbacks(r, gen, status, context)\n        return\n    waiting[0] = r\n"),
                 (D, "            if waiting[0]:\n                # Haven't called back yet, set flag so that we get reinvoked\n                # and return from the loop\n                waiting[0] = False\n                status.waitingOn",
                  "            if waiting[0] is _HERE:\n                waiting[0] = _GONE\n                status.waitingOn"),
                 (D, "            result = waiting[1]\n", "            result = waiting[0]\n"),
                 (D, "            # branch above would have been taken.\n\n            waiting[0] = True\n            waiting[1] = None\n", "            # branch above would have been taken.\n\n            waiting[0] = _HERE\n"),
                 (D, "def _gotResultInlineCallbacks(\n", "_HERE = object()\n_GONE = object()\n\n\ndef _gotResultInlineCallbacks(\n")]),
    Silent("waiting-deferred-queued-below-the-top", D, "                    chain.append(chainee)\n", "                    chain.insert(-1, chainee)\n"),
]
