"""C24 - HTTP client requests serialise to exactly the intended message."""
from __future__ import annotations

import ast

import sa.astx as astx
from sa.astx import NotConst, call_attr, call_name, const_eval, src, walk_local
from sa.domains import TCHAR, VCHAR, fmt_set, loop_reject_set, regex_class
from sa.selftest import Mutant, Silent
from sa.source import AnalysisError
from sa.props._lib_f import (Abstain, InterpError, MDeferred, MExc, MFailure, ModelRaised, NullLogger, RepoObject, World, call_sites, named_calls, norm_function, norm_method,
                             param_names, resolver, structural, swallowing_env)

PROPERTY = "C24"
P = "web/_newclient.py"
A = "web/_abnf.py"
HH = "web/http_headers.py"
Q = "twisted.web._newclient."
TECHNIQUE = "validators over all 256 bytes + provenance/dominance at the write sink (normalised view); bounded byte-level scenarios as second layer"
EXPLANATION = (
    "FINITE-EXHAUSTIVE: _istoken's per-byte test and _VALID_URI's character class on all 256 byte values (the loop / the \\A CLASS+ \\Z shape make that exhaustive), both "
    "outcomes of the one predicate each _ensureValid* consults, emptiness classes of ChunkedEncoder.write (F24).  STRUCTURAL on the normalised view: every use of self.method / "
    "self.uri in Request._writeHeaders is the argument of its validator, no refusal can follow a transport write, the Host-count test decides every write, __init__ stores "
    "validated values, the framing line of each _writeTo* is paired with its encoder class and writeTo dispatches on UNKNOWN_LENGTH; failure of the generation (HTTP11ClientProtocol.request): the errback of writeTo's Deferred aborts the connection on every path "
    "while transmitting and leaves a state other than the accepting one (derived from request()'s entry guard), and the handler of an exception raised by writeTo itself hands a failed "
    "Deferred to that same errback on every path (or aborts itself) and never restores the accepting state - sync and async failure paths agree; every call of Request.stopWriting() in the protocol (the only way to cut a started body short) lies behind an errback of the "
    "request Deferred / an abort or close of the transport / a terminal connection state on every path (who-may-call, judged at the callers when it sits in a helper).  BOUNDED second layer (clauses with bounded "
    "evidence only: exact head bytes, header-line format, chunk format, terminator-once, Content-Length accounting, head-before-body order): "
    "Every clause is decided by interpreting the repository's own functions (whitelisted evaluator over the AST; classes become model objects whose methods are "
    "the class's functions, nested functions are closures, Deferred/transport/producer are synchronous models; nothing is imported or executed) and comparing "
    "the bytes written with an oracle, so the verdict does not depend on how the code is spelled: (a) _istoken / _ensureValidMethod / _ensureValidURI on every "
    "single byte, the empty string and newline-terminated values: accepted set == tchar resp. VCHAR, refusal == ValueError, Request() refuses at construction; "
    "(b) Headers stores values without CR/LF and refuses non-token names; (c) Request._writeHeaders over (persistent) x (framing line) x (header sets): the head is "
    "exactly request-line + the expected header lines + blank line, and with zero/two Host headers or a method/target made invalid after construction it raises "
    "and NOTHING has been written; (d) writeTo over (caller headers) x (no body / known / unknown length) x method: the head announces exactly the framing of the "
    "encoder the body goes through; (e) scenarios through the body encoders: chunked b'ab', b'', b'cd' -> 2 CRLF ab CRLF 2 CRLF cd CRLF 0 CRLF CRLF exactly once "
    "(empty write not encoded: F24, fixed), no terminator when the producer fails, writes after the end refused; Content-Length: exact / short / excess / late "
    "writes give success / WrongBodyLength / WrongBodyLength with the producer stopped and no excess byte forwarded / ExcessWrite. (f) body producers failing at several points (raising from startProducing before / after writing, errback at once / later; known length / chunked) "
    "followed by a second request on the same protocol: once a byte of the failed request is on the wire no byte of another request follows, the caller gets "
    "RequestGenerationFailed, the connection is aborted; (g) the complete response arriving while the body is still being produced: the producer is not stopped, the whole "
    "announced body reaches the wire, the caller gets the response. Not decided: parse-back by an independent parser for arbitrary inputs."
)
RULE_KINDS = {
    "failure/aborts-connection": "structural", "failure/leaves-refusing-state": "structural", "failure/sync-agrees-with-async": "structural",
    "failure/no-request-after-failed-generation": "bounded", "body/stopped-only-on-failure": "structural", "body/complete-when-response-arrives-early": "bounded",
    "validator/token-set": "finite-exhaustive", "validator/uri-class": "finite-exhaustive", "validator/decision": "finite-exhaustive", "validator/accepts-exactly": "finite-exhaustive",
    "validator/token-nonempty": "finite-exhaustive", "chunked/empty-write-guard": "finite-exhaustive",
    "sink/": "structural", "framing/pairing": "structural", "framing/choice": "structural",
    "validator/refused-at-construction": "bounded", "headers/": "bounded", "sink/head-bytes": "bounded", "sink/refused-before-write-evaluated": "bounded",
    "framing/head-matches-encoder": "bounded", "framing/head-first": "bounded", "chunked/": "bounded", "length/": "bounded",
}
ASSUMPTIONS = ["Deferred, transports and body producers behave like the synchronous models in sa/props/_lib_f.py (callbacks run in order, a result fires once)",
               "header names/values reach the wire only through twisted.web.http_headers.Headers"]


# ---- models of the collaborators -----------------------------------------------------------------------------------
class _Headers:
    _sa_model = True

    def __init__(self, raw):
        self.raw = dict(raw)

    def getRawHeaders(self, name, default=None):
        for k, v in self.raw.items():
            if k.lower() == name.lower():
                return list(v)
        return default

    def hasHeader(self, name):
        return self.getRawHeaders(name) is not None

    def getAllRawHeaders(self):
        return list(self.raw.items())


class _Transport:
    _sa_model = True

    def __init__(self):
        self.out = []
        self.producer = None
        self.unregistered = 0

    def writeSequence(self, seq):
        self.out.extend(list(seq))

    def write(self, data):
        self.out.append(data)

    def registerProducer(self, producer, streaming):
        self.producer = producer

    def unregisterProducer(self):
        self.producer = None
        self.unregistered += 1

    def bytes(self):
        return b"".join(x for x in self.out)


class _Producer:
    _sa_model = True

    def __init__(self, length, sync=()):
        self.length = length
        self.consumer = None
        self.done = None
        self.stopped = 0
        self.sync = tuple(sync)      # pieces written synchronously from inside startProducing()

    def startProducing(self, consumer):
        self.consumer = consumer
        self.done = MDeferred()
        for piece in self.sync:
            consumer.write(piece)
        return self.done

    def stopProducing(self):
        self.stopped += 1

    def pauseProducing(self):
        return None

    def resumeProducing(self):
        return None


UNKNOWN = object()


def _world(ctx):
    mod = ctx.mod(P)
    abnf = World(ctx.mod(A))
    env = {"UNKNOWN_LENGTH": UNKNOWN, "_moduleLog": NullLogger()}
    env.update(swallowing_env(mod))
    ext = {"_istoken": abnf.resolve("_istoken"), "_decint": abnf.resolve("_decint"), "networkString": lambda s_: s_.encode("ascii"),
           "Deferred": lambda *a: MDeferred(*a), "succeed": _succeed, "fail": _fail, "Logger": lambda *a, **k: NullLogger(), "proxyForInterface": lambda *a, **k: (lambda x: x)}
    for nm in ("Request", "ChunkedEncoder", "LengthEnforcingConsumer"):
        ctx.cls(P, nm)
    for fn in ("Request.writeTo", "Request._writeHeaders", "Request._writeToBodyProducerChunked", "Request._writeToBodyProducerContentLength", "Request._writeToEmptyBodyContentLength",
               "ChunkedEncoder.write", "ChunkedEncoder.unregisterProducer", "LengthEnforcingConsumer.write", "LengthEnforcingConsumer._noMoreWritesExpected",
               "_ensureValidMethod", "_ensureValidURI"):
        ctx.func(P, fn)
    return World(mod, externals=ext, env=env)


def _succeed(v=None):
    d = MDeferred()
    d.callback(v)
    return d


def _fail(v=None):
    d = MDeferred()
    d.errback(v if isinstance(v, MFailure) else MFailure(v if isinstance(v, MExc) else MExc(str(v))))
    return d


def _try(f, *a, **k):
    """(value, None) or (None, exception name)"""
    try:
        return f(*a, **k), None
    except ModelRaised as e:
        return None, e.name


def _outcome(d):
    """'pending' | ('ok', value) | ('fail', exception name) of a model Deferred (after consuming its result)"""
    if not isinstance(d, MDeferred):
        return ("not-a-deferred", d)
    box = []
    d.addBoth(lambda r: (box.append(r), r)[1])
    if not box:
        return "pending"
    r = box[0]
    return ("fail", r.value.name) if isinstance(r, MFailure) else ("ok", r)


# ==================================================================================================================================
# STRUCTURAL / FINITE-EXHAUSTIVE layer (normalised view: private helpers inlined, pure temporaries substituted)
# ==================================================================================================================================
KEEP_REQUEST = {"writeTo", "_writeHeaders", "__init__", "_writeToBodyProducerChunked", "_writeToBodyProducerContentLength", "_writeToEmptyBodyContentLength", "_construct", "stopWriting"}


def _bytes_const(node):
    try:
        v = const_eval(node)
    except NotConst:
        return None
    return v if isinstance(v, bytes) else None


def _fe_validators(ctx):
    """finite-exhaustive: (1) _istoken looks at its argument byte by byte against a constant set (+ emptiness): evaluating the per-byte test on all 256 values is exhaustive;
    (2) _VALID_URI is CLASS+ between \\A and \\Z: its accepted language is determined by the character class, evaluated on all 256 values; (3) the decision of each
    _ensureValid* depends on its argument only through that one predicate: both outcomes of the predicate are enumerated on the CFG."""
    f = ctx.func(A, "_istoken")
    q = "twisted.web._abnf._istoken"
    try:
        it, rej, test = loop_reject_set(f)
    except AnalysisError as e:
        raise Abstain(f"_istoken is not a per-byte reject loop: {e}")
    acc = set(range(256)) - rej
    if it != param_names(f)[0]:
        raise Abstain("the loop does not iterate over the argument")
    ctx.check(acc == TCHAR, "validator/token-set", q, f"accepted bytes differ from RFC 9110 tchar: extra {fmt_set(acc - TCHAR)}, missing {fmt_set(TCHAR - acc)}",
              detail="domain: the per-byte test evaluated on all 256 byte values; the loop applies it to every byte of the argument independently")
    mod = ctx.mod(P)
    pat = mod.module_assign("_VALID_URI")
    if not (isinstance(pat, ast.Call) and call_name(pat) == "re.compile" and len(pat.args) == 1 and not pat.keywords and _bytes_const(pat.args[0]) is not None):
        raise Abstain("_VALID_URI is not re.compile(<bytes constant>) without flags")
    try:
        rc = regex_class(_bytes_const(pat.args[0]))
    except AnalysisError as e:
        raise Abstain(f"_VALID_URI is not of the shape anchor CLASS{{m,n}} anchor: {e}")
    q = Q + "_VALID_URI"
    ok = rc["set"] == VCHAR and rc["anchored_start"] and rc["anchored_end"] == "Z" and rc["min"] is not None and rc["min"] >= 1 and rc["max"] is None
    ctx.check(ok, "validator/uri-class", q, f"the pattern accepts class extra {fmt_set(rc['set'] - VCHAR)} / missing {fmt_set(VCHAR - rc['set'])}, anchors start={rc['anchored_start']} "
              f"end={rc['anchored_end']!r} ('$' also matches before a trailing newline), repetition {rc['min']}..{rc['max']}: not exactly 1*VCHAR",
              detail="domain: the accepted language of \\A CLASS+ \\Z is determined by the class, evaluated on all 256 byte values")
    for name, pred_ok in (("_ensureValidMethod", lambda e: isinstance(e, ast.Call) and call_name(e) == "_istoken"),
                          ("_ensureValidURI", lambda e: isinstance(e, ast.Call) and call_name(e) in ("_VALID_URI.match", "_VALID_URI.fullmatch"))):
        f = norm_function(ctx, P, name)
        g = ctx.cfg(f)
        q = Q + name
        p_ = param_names(f)[0]
        preds = [x for x in walk_local(f) if pred_ok(x) and [src(a_) for a_ in x.args] == [p_]]
        if len({src(x) for x in preds}) != 1:
            raise Abstain(f"{name} does not consult exactly one predicate on its argument")
        ptxt = src(preds[0])
        rets = g.ids(lambda x: x.kind == "stmt" and isinstance(x.ast, ast.Return))
        raises = g.ids(lambda x: x.kind == "stmt" and isinstance(x.ast, ast.Raise))
        problems = []
        for outcome, label in (((object() if "match" in ptxt else True), "accepted"), ((None if "match" in ptxt else False), "refused")):
            ok_e = resolver(g, {ptxt: outcome})
            R = g.reach([g.entry], edge_ok=lambda a_, b_, l_: l_ != "exc" and ok_e(a_, b_, l_))
            ret_here = [r for r in rets if r in R]
            raise_here = [r for r in raises if r in R]
            falls = g.exit in R and not ret_here
            if label == "accepted":
                if raise_here or not ret_here or any(src(g.node(r).ast.value) != p_ for r in ret_here):
                    problems.append("an accepted value is refused or not returned unchanged")
            else:
                if ret_here or falls or not raise_here or any("ValueError" not in src(g.node(r).ast) for r in raise_here):
                    problems.append("a refused value is returned (or the refusal is not ValueError)")
        ctx.check(not problems, "validator/decision", q, "; ".join(problems), detail=f"both outcomes of `{ptxt}` enumerated on the CFG; no other test of the argument exists")


def _s_write_headers(ctx):
    """provenance + dominance at the sink: every use of self.method / self.uri in the head writer is the argument of its validator; nothing that can refuse comes after a
    transport write; the Host-count refusal dominates every write"""
    f = norm_method(ctx, P, "Request", "_writeHeaders", keep=KEEP_REQUEST)
    g = ctx.cfg(f)
    q = Q + "Request._writeHeaders"
    tp = param_names(f)[1]
    parents = {}
    for p_ in ast.walk(f):
        for c_ in ast.iter_child_nodes(p_):
            parents[id(c_)] = p_
    # the head writer and every method of the class it reaches through self.<m>() (e.g. a generator of the head lines that could not be inlined)
    from sa.source import methods as _methods_of
    rms = _methods_of(ctx.cls(P, "Request"))
    helpers, todo = [], [f]
    while todo:
        fn = todo.pop()
        for c in ast.walk(fn):
            if isinstance(c, ast.Call) and isinstance(c.func, ast.Attribute) and src(c.func.value) == "self" and c.func.attr in rms and c.func.attr != "_writeHeaders":
                h = rms[c.func.attr]
                if not any(h is x for x in helpers):
                    helpers.append(h)
                    todo.append(h)
    for h in helpers:
        for p_ in ast.walk(h):
            for c_ in ast.iter_child_nodes(p_):
                parents[id(c_)] = p_
    n_use = 0
    for attr, val in (("method", "_ensureValidMethod"), ("uri", "_ensureValidURI")):
        for fn in [f] + helpers:
            for x in ast.walk(fn):
                if isinstance(x, ast.Attribute) and x.attr == attr and src(x.value) == "self" and isinstance(x.ctx, ast.Load):
                    n_use += 1
                    par = parents.get(id(x))
                    ok = isinstance(par, ast.Call) and call_name(par) == val and len(par.args) == 1 and par.args[0] is x
                    where = q if fn is f else Q + "Request." + fn.name
                    ctx.check(ok, "sink/validated-at-sink", where + f" | self.{attr}", f"self.{attr} is used in the request head without passing {val}() at the sink (a value changed after construction is written unchecked)")
    if n_use < 2:
        raise Abstain("self.method / self.uri are not both read in the head writer or the methods it calls")
    writes = [n for n, c in call_sites(g, lambda c: isinstance(c.func, ast.Attribute) and src(c.func.value) == tp)]
    if not writes:
        raise Abstain("no transport call found")
    refusals = [n for n, c in named_calls(g, "_ensureValidMethod", "_ensureValidURI")] + g.ids(lambda x: x.kind == "stmt" and isinstance(x.ast, ast.Raise))
    can_refuse = {h.name for h in helpers if any(isinstance(x, ast.Raise) or (isinstance(x, ast.Call) and call_name(x) in ("_ensureValidMethod", "_ensureValidURI")) for x in ast.walk(h))}
    # a helper that can refuse, called in a statement that does not itself hand its result to the transport, is a refusal point too
    refusals += [n for n, c in call_sites(g, lambda c: isinstance(c.func, ast.Attribute) and src(c.func.value) == "self" and c.func.attr in can_refuse) if n not in writes]
    for wn in writes:
        w = g.path([wn], refusals, strict=True)
        ctx.check(w is None, "sink/refused-before-write", q + " | <transport write>", "something that can refuse the request runs after bytes were written", witness=g.describe(w))
    tests = [t for t in g.ids(lambda x: x.kind == "test") if "getRawHeaders(b'Host'" in src(g.node(t).ast) and src(g.node(t).ast).startswith("len(")]
    if len(tests) != 1:
        raise Abstain("the Host-count test was not recognised")
    key = src(g.node(tests[0]).ast.left)
    for k in (0, 1, 2, 3):
        ok_e = resolver(g, {key: k})
        R = g.reach([g.entry], edge_ok=lambda a_, b_, l_: l_ != "exc" and ok_e(a_, b_, l_))
        wr = any(w_ in R for w_ in writes)
        ctx.check(wr == (k == 1), "sink/exactly-one-host", q + f" | {k} Host header(s)", f"with {k} Host headers the head is {'written' if wr else 'refused'}")
    f = norm_method(ctx, P, "Request", "__init__", keep=KEEP_REQUEST)
    for attr, val in (("method", "_ensureValidMethod"), ("uri", "_ensureValidURI")):
        sts = [s_ for s_ in walk_local(f) if isinstance(s_, ast.Assign) and any(isinstance(t, ast.Attribute) and t.attr == attr and src(t.value) == "self" for t in s_.targets)]
        if len(sts) != 1:
            raise Abstain(f"self.{attr} is assigned {len(sts)} times in __init__")
        ok = isinstance(sts[0].value, ast.Call) and call_name(sts[0].value) == val and [src(a_) for a_ in sts[0].value.args] == [attr]
        ctx.check(ok, "sink/validated-at-construction", Q + f"Request.__init__ | self.{attr}", f"self.{attr} is stored without {val}")


def _s_framing(ctx):
    """pairing: the function that announces `Transfer-Encoding: chunked` starts the producer on a ChunkedEncoder over the transport, the one announcing Content-Length on a
    LengthEnforcingConsumer; writeTo chooses between them by the UNKNOWN_LENGTH test"""
    for name, hdr, enc in (("_writeToBodyProducerChunked", b"Transfer-Encoding: chunked\r\n", "ChunkedEncoder"), ("_writeToBodyProducerContentLength", None, "LengthEnforcingConsumer")):
        f = norm_method(ctx, P, "Request", name, keep=KEEP_REQUEST)
        q = Q + "Request." + name
        wh = [c for c in walk_local(f) if isinstance(c, ast.Call) and call_name(c) == "self._writeHeaders"]
        sp = [c for c in walk_local(f) if isinstance(c, ast.Call) and call_attr(c) == "startProducing"]
        if len(wh) != 1 or len(sp) != 1 or len(wh[0].args) < 2 or not sp[0].args:
            raise Abstain(f"{name}: {len(wh)} _writeHeaders / {len(sp)} startProducing sites")
        a_ = wh[0].args[1]
        ok = (_bytes_const(a_) == hdr) if hdr is not None else ("Content-Length: %d" in src(a_) or "Content-Length: " in src(a_))
        ctx.check(ok, "framing/pairing", q + " | framing line", "the framing header written does not match the body encoder used by this method")
        cons = sp[0].args[0]
        ctor = cons if isinstance(cons, ast.Call) else None
        if isinstance(cons, ast.Name):
            defs = [s_.value for s_ in walk_local(f) if isinstance(s_, ast.Assign) and any(isinstance(t, ast.Name) and t.id == cons.id for t in s_.targets)]
            ctor = defs[0] if len(defs) == 1 and isinstance(defs[0], ast.Call) else None
            if len(defs) != 1:
                raise Abstain(f"the consumer variable {cons.id} has {len(defs)} definitions")
        if ctor is None:
            ctx.violation("framing/pairing", q + " | body consumer", f"the body producer writes into `{src(cons)}`, not into a {enc}: the body is sent unframed / unchecked")
            continue
        ctx.check(call_name(ctor) == enc, "framing/pairing", q + " | body consumer", f"the body producer writes into {call_name(ctor)}(...) while the head announces the framing of {enc}")
    f = norm_method(ctx, P, "Request", "writeTo", keep=KEEP_REQUEST)
    g = ctx.cfg(f)
    q = Q + "Request.writeTo"
    refs = {"chunked": [n for n in g.ids(lambda x: x.kind in ("stmt", "test")) if "_writeToBodyProducerChunked" in src(g.node(n).ast)],
            "length": [n for n in g.ids(lambda x: x.kind in ("stmt", "test")) if "_writeToBodyProducerContentLength" in src(g.node(n).ast)]}
    tests = [t for t in g.ids(lambda x: x.kind == "test") if "UNKNOWN_LENGTH" in src(g.node(t).ast)]
    if len(tests) != 1 or not refs["chunked"] or not refs["length"]:
        raise Abstain("the UNKNOWN_LENGTH dispatch was not recognised")
    key = src(g.node(tests[0]).ast)
    for unknown in (True, False):
        e = g.node(tests[0]).ast
        val = unknown if isinstance(e.ops[0], (ast.Is, ast.Eq)) else (not unknown)
        ok_e = resolver(g, {key: val, "self.bodyProducer is None": False, "self.bodyProducer is not None": True})
        R = g.reach([g.entry], edge_ok=lambda a_, b_, l_: l_ != "exc" and ok_e(a_, b_, l_))
        c_r, l_r = any(n in R for n in refs["chunked"]), any(n in R for n in refs["length"])
        ctx.check((c_r, l_r) == ((True, False) if unknown else (False, True)), "framing/choice", q + f" | length {'unknown' if unknown else 'known'}",
                  f"for a body of {'unknown' if unknown else 'known'} length the chunked writer is {'' if c_r else 'not '}reachable and the Content-Length writer is {'' if l_r else 'not '}reachable")


def _fe_empty_write(ctx):
    """finite-exhaustive over the only property of `data` that ChunkedEncoder.write inspects (emptiness): a chunk is emitted iff data is non-empty"""
    f = norm_method(ctx, P, "ChunkedEncoder", "write", keep={"_writeChunk", "unregisterProducer", "_allowNoMoreWrites"})
    g = ctx.cfg(f)
    q = Q + "ChunkedEncoder.write"
    dp = param_names(f)[1]
    emits = [n for n, c in call_sites(g, lambda c: call_name(c) in ("self._writeChunk", "self.transport.writeSequence", "self.transport.write"))]
    if not emits:
        raise Abstain("no chunk emission found in the normalised write()")
    uses = [src(t.ast) for t in g.nodes if t.kind == "test" and any(isinstance(x, ast.Name) and x.id == dp for x in ast.walk(t.ast))]
    if not all(u in (dp, f"len({dp})", f"len({dp}) > 0", f"len({dp}) == 0", f"len({dp}) != 0", f"{dp} == b''", f"{dp} != b''") for u in uses):
        raise Abstain(f"write() tests its data by something other than emptiness: {uses}")
    for empty in (True, False):
        mapping = {dp: b"" if empty else b"x", f"len({dp})": 0 if empty else 1, "self.transport is None": False, "self.transport is not None": True}
        ok_e = resolver(g, mapping)
        R = g.reach([g.entry], edge_ok=lambda a_, b_, l_: l_ != "exc" and ok_e(a_, b_, l_))
        em = any(n in R for n in emits)
        ctx.check(em == (not empty), "chunked/empty-write-guard", q + f" | {'empty' if empty else 'non-empty'} data",
                  "an empty write reaches the chunk emitter: it is encoded as the zero-length chunk, i.e. the end-of-body marker" if empty else "a non-empty write emits no chunk",
                  detail="domain: write() inspects its data only for emptiness (checked); both classes enumerated on the CFG")


# ==================================================================================================================================
# A request whose generation failed after writeTo() was entered may have bytes on the wire: the connection must never carry another request
# ==================================================================================================================================
def _const_state_writes(fn):
    """[(statement, value)] for self._state = "<CONST>" directly in fn (nested defs excluded)"""
    return [(st, st.value.value) for st in walk_local(fn) if isinstance(st, ast.Assign) and isinstance(st.value, ast.Constant) and isinstance(st.value.value, str)
            and any(src(t) == "self._state" for t in st.targets)]


def _s_generation_failure(ctx):
    """STRUCTURAL (sibling agreement of the synchronous and the asynchronous failure path of HTTP11ClientProtocol.request): the errback of the Deferred returned by writeTo aborts the
    connection and leaves a state from which request() refuses; an exception raised by writeTo itself is routed into that very errback (or aborts by itself) and never returns the
    protocol to the accepting state"""
    from sa.props._lib_f import enclosing_try_handlers
    f = ctx.func(P, "HTTP11ClientProtocol.request")
    q = Q + "HTTP11ClientProtocol.request"
    g = ctx.cfg(f)
    # the state from which request() accepts: the constant its entry guard compares self._state with
    accepting = set()
    for t in g.ids(lambda x: x.kind == "test"):
        e = g.node(t).ast
        if isinstance(e, ast.Compare) and len(e.ops) == 1 and src(e.left) == "self._state" and isinstance(e.comparators[0], ast.Constant) and isinstance(e.ops[0], (ast.Eq, ast.NotEq)):
            accepting.add(e.comparators[0].value)
    if len(accepting) != 1:
        raise Abstain(f"request() compares self._state with {sorted(accepting)} before sending")
    ACC = accepting.pop()
    wts = [(n, c) for n, c in call_sites(g, lambda c: call_attr(c) == "writeTo")]
    if len(wts) != 1:
        raise Abstain(f"{len(wts)} writeTo calls in request()")
    wn, wc = wts[0]
    wst = g.node(wn).ast
    if not (isinstance(wst, ast.Assign) and len(wst.targets) == 1 and isinstance(wst.targets[0], ast.Name)):
        raise Abstain("the Deferred of writeTo is not bound to a local name")
    D = wst.targets[0].id
    nested = {n.name: n for n in f.body if isinstance(n, ast.FunctionDef)}
    from sa.source import methods as _methods_of
    pmethods = _methods_of(ctx.cls(P, "HTTP11ClientProtocol"))
    regs = [(n, c) for n, c in call_sites(g, lambda c: call_attr(c) in ("addCallbacks", "addErrback", "addBoth") and src(c.func.value) == D)]
    ebs = []
    for n, c in regs:
        a = c.args[1] if call_attr(c) == "addCallbacks" and len(c.args) > 1 else (c.args[0] if call_attr(c) != "addCallbacks" and c.args else None)
        if isinstance(a, ast.Name) and a.id in nested:
            ebs.append((n, nested[a.id]))
        elif isinstance(a, ast.Attribute) and src(a.value) == "self" and a.attr in pmethods:          # the errback extracted into a method
            ebs.append((n, pmethods[a.attr]))
    if len(ebs) != 1:
        raise Abstain(f"{len(ebs)} errbacks registered on the Deferred of writeTo")
    reg_n, eb = ebs[0]
    # (1) the asynchronous path: while the request is being transmitted the errback aborts the connection and leaves a refusing state
    ge = ctx.cfg(eb)
    transmitting = [v for st, v in _const_state_writes(f) if g.must_precede(g.ids_of(st), [wn]) is None]
    if len(transmitting) != 1:
        raise Abstain(f"states set before writeTo: {transmitting}")
    TR = transmitting[0]
    ok_e = resolver(ge, {"self._state": TR})
    aborts = [n for n, c in named_calls(ge, "self.transport.abortConnection")] + [n for n, c in named_calls(ge, "self.transport.loseConnection") if False]
    w = ge.path([ge.entry], [ge.exit], avoid=aborts, edge_ok=lambda a, b, l: l != "exc" and ok_e(a, b, l))
    ctx.check(bool(aborts) and w is None, "failure/aborts-connection", q + ".<errback of writeTo> | state " + TR,
              "request generation failing while the request is being transmitted does not abort the connection on every path: the half-written message stays on a connection that goes on",
              witness=ge.describe(w) if aborts else "")
    back = [st for st, v in _const_state_writes(eb) if v == ACC]
    leaves = [st for st, v in _const_state_writes(eb) if v not in (ACC, TR)]
    ctx.check(not back and bool(leaves), "failure/leaves-refusing-state", q + ".<errback of writeTo> | state after the failure",
              f"after a failed generation the errback " + (f"returns the protocol to {ACC!r}" if back else f"leaves the state {TR!r}/unchanged") + ": request() would accept / the failure is not recorded")
    # (2) the synchronous path agrees: an exception out of writeTo reaches the same errback (a failed Deferred under the same name, registration on every path) or aborts itself
    hs = enclosing_try_handlers(f, wc)
    if not hs:
        raise Abstain("writeTo is not called inside a try statement")
    for h in hs:
        hq = q + f" | except {'/'.join(__import__('sa.props._lib_f', fromlist=['handler_names']).handler_names(h)) or '<bare>'} around writeTo"
        hid = g.ids_of(h)
        body_nodes = [i for st in h.body for i in g.ids_of(st)]
        h_aborts = [n for n, c in named_calls(g, "self.transport.abortConnection") if n in body_nodes]
        h_back = [st for st in h.body for s2 in ast.walk(st) if isinstance(s2, ast.Assign) and any(src(t) == "self._state" for t in s2.targets)
                  and isinstance(s2.value, ast.Constant) and s2.value.value == ACC]
        ctx.check(not h_back, "failure/leaves-refusing-state", hq + " | state",
                  f"an exception raised by writeTo (a body producer raising from startProducing AFTER the head was written) puts the protocol back to {ACC!r}: the next request is "
                  "written into the half-written message")
        routed = [st for st in h.body if isinstance(st, ast.Assign) and any(isinstance(t, ast.Name) and t.id == D for t in st.targets) and isinstance(st.value, ast.Call)
                  and call_name(st.value) in ("fail", "defer.fail")]
        w = g.path(hid, [g.exit], avoid=[reg_n] + h_aborts, edge_ok=lambda a, b, l: l != "exc")
        ctx.check((bool(routed) or bool(h_aborts)) and w is None, "failure/sync-agrees-with-async", hq,
                  "an exception raised by writeTo does not take the failure path of an asynchronous failure (a failed Deferred handed to the same errback) nor aborts the connection itself: "
                  "request() can return with the connection still usable", witness=g.describe(w))


FAIL_MARKERS = ("self._finishedRequest.errback", "self.transport.abortConnection", "self.transport.loseConnection", "self._giveUp", "self._disconnectParser")


def _s_who_stops_writing(ctx):
    """STRUCTURAL (who-may-call, by role): Request.stopWriting() is the only way the protocol can cut short a body whose head (Content-Length: N / chunked) is already on the wire.
    Every call site in HTTP11ClientProtocol lies on a path on which the exchange has already been failed or the connection given up - the request Deferred was errbacked, the
    transport aborted / closed, or the state set to a terminal connection state - BEFORE the call; a site in a helper is judged at each of the helper's call sites"""
    from sa.source import methods as _methods_of
    cls = ctx.cls(P, "HTTP11ClientProtocol")
    ms = _methods_of(cls)
    q = Q + "HTTP11ClientProtocol."
    TERMINAL = {"CONNECTION_LOST", "ABORTING"}

    def ended_before(fn, node_call, depth=0):
        """True / False / None(not understood): on every path of fn to the call the exchange was ended"""
        g = ctx.cfg(fn)
        ids = g.ids_of(node_call)
        if not ids:
            return None
        marks = [n for n, c in named_calls(g, *FAIL_MARKERS)]
        marks += [n for n in g.ids(lambda x: x.kind == "stmt" and isinstance(x.ast, ast.Assign) and any(src(t) == "self._state" for t in x.ast.targets)
                                   and isinstance(x.ast.value, ast.Constant) and x.ast.value.value in TERMINAL)]
        if marks and all(g.must_precede(marks, [i], exc=False) is None for i in ids):
            return True
        # not ended inside this function: every caller must have ended it before calling
        callers = [(f2, c2) for f2 in ms.values() if f2 is not fn for c2 in ast.walk(f2)
                   if isinstance(c2, ast.Call) and isinstance(c2.func, ast.Attribute) and src(c2.func.value) == "self" and c2.func.attr == fn.name]
        if not callers or depth > 2:
            return False if fn.name.startswith("_") or depth > 2 else None
        rs = [ended_before(f2, c2, depth + 1) for f2, c2 in callers]
        return None if None in rs else all(rs)
    sites = [(fn, c) for fn in ms.values() for c in ast.walk(fn) if isinstance(c, ast.Call) and call_attr(c) == "stopWriting"]
    # nested functions of the methods are part of them (ast.walk enters them): a canceller closure calling stopWriting is judged in its enclosing method
    if not sites:
        raise Abstain("no stopWriting() call in HTTP11ClientProtocol (the floor of one site is not met): who stops a started body was not recognised")
    for fn, c in sites:
        v = ended_before(fn, c)
        if v is None:
            raise Abstain(f"whether the exchange has been failed before {src(c)} in {fn.name} was not understood")
        ctx.check(v, "body/stopped-only-on-failure", q + f"{fn.name} | {src(c)}",
                  f"{fn.name} stops the request body although the exchange goes on: the head announcing Content-Length / chunked is already on the wire, the body is cut short (fewer bytes "
                  "than announced, or a chunked body without its last-chunk) and nothing reports it - the request Deferred still succeeds")


def _body_continues_evaluated(ctx):
    """BOUNDED: the complete response arrives WHILE the request body is still being produced (known length and chunked; persistent and not); the producer then writes the rest.
    Oracle: the protocol never stops the producer, the bytes on the wire are the whole announced body, the caller gets the response"""
    import sa.props.c23 as c23
    w = c23._client_world(ctx)
    q = Q + "HTTP11ClientProtocol"
    UNK = w.env["UNKNOWN_LENGTH"]

    class Body:
        _sa_model = True

        def __init__(self, length):
            self.length, self.done, self.stopped, self.consumer = length, None, 0, None

        def startProducing(self, consumer):
            self.consumer = consumer
            self.done = MDeferred()
            consumer.write(b"0123")
            return self.done

        def stopProducing(self):
            self.stopped += 1

        def pauseProducing(self):
            return None

        def resumeProducing(self):
            return None
    bad, n = [], 0
    for length in (10, UNK):
        for persistent in (True, False):
            for resp in (b"HTTP/1.1 200 OK\r\nContent-Length: 2\r\n\r\nok", b"HTTP/1.1 413 Too Large\r\nContent-Length: 0\r\n\r\n"):
                n += 1
                p = w.new("HTTP11ClientProtocol")
                tr = c23._ETransport()
                p.makeConnection(tr)
                body = Body(length)
                r1 = w.new("Request", b"POST", b"/upload", c23._EHeaders({b"Host": [b"x"]}), body, persistent)
                label = f"POST with a {'chunked' if length is UNK else 'Content-Length: 10'} body, 4 bytes written, then the whole response {resp[9:12].decode()} arrives, then the producer writes the other 6 bytes and finishes"
                try:
                    d = p.request(r1)
                    box = []
                    d.addBoth(lambda r, box=box: (box.append(r), None)[1])
                    tr.deliver = p.dataReceived
                    tr.feed(resp)
                    why = []
                    if body.stopped:
                        why.append(f"the protocol stopped the body producer ({body.stopped}x) although the exchange went on")
                    try:
                        body.consumer.write(b"456789")
                        body.done.callback(None)
                    except ModelRaised as e:
                        why.append(f"the rest of the body is refused ({e.name})")
                    wire = b"".join(tr.out)
                    payload = wire.split(b"\r\n\r\n", 1)[1] if b"\r\n\r\n" in wire else b""
                    want = b"0123456789" if length is not UNK else b"4\r\n0123\r\n6\r\n456789\r\n0\r\n\r\n"
                    if payload != want and "abort" not in tr.log and "lose" not in tr.log:
                        why.append(f"the body on the wire is {payload!r} instead of {want!r} and the connection was neither closed nor aborted")
                    if not box or isinstance(box[0], MFailure):
                        why.append(f"the caller gets {box[0].value.name if box else 'nothing'} instead of the response")
                    if why:
                        bad.append((label, "; ".join(why)))
                except ModelRaised as e:
                    bad.append((label, f"raises {e.name}"))
    msg = f"{bad[0][0]}: {bad[0][1]}; {len(bad)} of {n} histories wrong" if bad else ""
    ctx.check(not bad, "body/complete-when-response-arrives-early", q + " | <response complete while the body is being produced>", msg, detail=f"{n} histories")


def _failure_evaluated(ctx):
    """BOUNDED: protocol + Request interpreted; body producers that fail at several points; then a second request on the same protocol.  Oracle: once a byte of the failed request is
    on the wire, no byte of another request may follow on that connection, and the caller is told RequestGenerationFailed"""
    import sa.props.c23 as c23
    w = c23._client_world(ctx)
    q = Q + "HTTP11ClientProtocol.request"
    UNK = w.env["UNKNOWN_LENGTH"]

    class Body:
        _sa_model = True

        def __init__(self, length, pieces, how):
            self.length, self.pieces, self.how, self.done, self.stopped = length, pieces, how, None, 0

        def startProducing(self, consumer):
            self.consumer = consumer
            for p_ in self.pieces:
                consumer.write(p_)
            if self.how == "raises":
                raise ModelRaised("RuntimeError", "startProducing failed")
            self.done = MDeferred()
            if self.how == "errback-now":
                self.done.errback(MFailure(MExc("Boom")))
            return self.done

        def stopProducing(self):
            self.stopped += 1

        def pauseProducing(self):
            return None

        def resumeProducing(self):
            return None
    bad, n = [], 0
    for length in (40, UNK):
        for pieces in ((), (b"partial",)):
            for how in ("raises", "errback-now", "errback-later"):
                n += 1
                p = w.new("HTTP11ClientProtocol")
                tr = c23._ETransport()
                p.makeConnection(tr)
                body = Body(length, pieces, how)
                r1 = w.new("Request", b"POST", b"/first", c23._EHeaders({b"Host": [b"x"]}), body, True)
                label = f"POST with a {'chunked' if length is UNK else 'Content-Length: 40'} body whose producer writes {sum(map(len, pieces))} bytes and then {how}"
                try:
                    d = p.request(r1)
                    if how == "errback-later" and body.done is not None:
                        body.done.errback(MFailure(MExc("Boom")))
                    box = []
                    d.addBoth(lambda r, box=box: (box.append(r), None)[1])
                    wrote = len(b"".join(tr.out))
                    r2 = w.new("Request", b"GET", b"/second", c23._EHeaders({b"Host": [b"x"]}), None, True)
                    d2 = p.request(r2)
                    box2 = []
                    d2.addBoth(lambda r, box2=box2: (box2.append(r), None)[1])
                except ModelRaised as e:
                    bad.append((label, f"request() raises {e.name}"))
                    continue
                after = b"".join(tr.out)[wrote:]
                first = box[0].value.name if box and isinstance(box[0], MFailure) else ("pending" if not box else "a response")
                second = box2[0].value.name if box2 and isinstance(box2[0], MFailure) else ("pending" if not box2 else "accepted")
                if wrote and after:
                    bad.append((label, f"{wrote} bytes of the failed request are on the wire and the next request's {len(after)} bytes ({after[:24]!r}...) follow them on the same connection "
                                       f"(first request: {first}, connection {'aborted' if 'abort' in tr.log else 'NOT aborted'})"))
                elif first != "RequestGenerationFailed":
                    bad.append((label, f"the caller gets {first} instead of RequestGenerationFailed"))
                elif wrote and "abort" not in tr.log:
                    bad.append((label, f"the connection is not aborted although {wrote} bytes of the failed request were written (state {p._state})"))
    msg = f"{bad[0][0]}: {bad[0][1]}; {len(bad)} of {n} failure histories wrong" if bad else ""
    ctx.check(not bad, "failure/no-request-after-failed-generation", q + " | <producer failure points x second request>", msg, detail=f"{n} histories")


def check(ctx):
    sections = (("s-generation-failure", lambda c: structural(c, "failure/aborts-connection", "failure/no-request-after-failed-generation (bounded)", _s_generation_failure, c)),
                ("failure-evaluated", _failure_evaluated),
                ("s-who-stops-writing", lambda c: structural(c, "body/stopped-only-on-failure", "body/complete-when-response-arrives-early (bounded)", _s_who_stops_writing, c)),
                ("body-continues", _body_continues_evaluated),
                ("fe-validators", lambda c: structural(c, "validator/token-set", "validator/accepts-exactly (evaluated on all byte values in context)", _fe_validators, c)),
                ("s-write-headers", lambda c: structural(c, "sink/validated-at-sink", "sink/head-bytes + sink/refused-before-write-evaluated (bounded)", _s_write_headers, c)),
                ("s-framing", lambda c: structural(c, "framing/pairing", "framing/head-matches-encoder (bounded)", _s_framing, c)),
                ("fe-empty-write", lambda c: structural(c, "chunked/empty-write-guard", "chunked/empty-write-not-encoded (bounded)", _fe_empty_write, c)),
                ("validators", _validators), ("headers-store", _headers_store), ("write-headers", _write_headers), ("framing-agreement", _framing_agreement),
                ("chunked", _chunked), ("length", _length))
    for name, fn in sections:
        with ctx.section(name):
            try:
                fn(ctx)
            except InterpError as e:
                raise AnalysisError(f"C24/{name}: the code uses a construct the evaluator cannot interpret: {e}")
            except ModelRaised as e:
                raise AnalysisError(f"C24/{name}: a scenario ended with {e.name} raised out of the interpreted code where the checker did not expect one ({e}): not judged")


# ---- (a) validators --------------------------------------------------------------------------------------------------
def _validators(ctx):
    ctx.func(A, "_istoken")
    abnf = World(ctx.mod(A))
    istoken = abnf.resolve("_istoken")
    acc = {b for b in range(256) if istoken(bytes([b]))}
    ctx.check(acc == TCHAR, "validator/token-set", "twisted.web._abnf._istoken", f"accepted bytes differ from RFC 9110 tchar: extra {fmt_set(acc - TCHAR)}, missing {fmt_set(TCHAR - acc)}")
    ok = istoken(b"") is False and istoken(b"GET") is True and istoken(b"G T") is False and istoken(b"GET\n") is False
    ctx.check(ok, "validator/token-nonempty", "twisted.web._abnf._istoken", "the empty string (or a value with an embedded invalid byte) is accepted as a token")
    w = _world(ctx)
    for name, good, oracle_set in (("_ensureValidMethod", b"GET", TCHAR), ("_ensureValidURI", b"/", VCHAR)):
        f = w.resolve(name)
        q = Q + name
        bad = []
        for b in range(256):
            v = good + bytes([b]) + good
            got, exc = _try(f, v)
            if b in oracle_set:
                if got != v:
                    bad.append((v, f"refused ({exc})" if exc else f"returns {got!r}"))
            elif exc != "ValueError":
                bad.append((v, f"raises {exc}" if exc else f"accepted (returns {got!r})"))
        for v in (b"", good + b"\n", b"\n" + good, good + b"\r\n", good + b" x", good + b"\x00"):
            got, exc = _try(f, v)
            if exc != "ValueError":
                bad.append((v, f"raises {exc}" if exc else f"accepted (returns {got!r})"))
        ctx.check(not bad, "validator/accepts-exactly", q, f"{name}({bad[0][0]!r}) is {bad[0][1]}; {len(bad)} values misjudged (accepted set must be exactly "
                  f"{'tchar' if oracle_set is TCHAR else 'VCHAR'}, refusal must be ValueError, no trailing newline)" if bad else "", detail="262 values")
    # refused at construction
    for args, what in (((b"G T", b"/", _Headers({}), None), "method"), ((b"GET", b"/a b", _Headers({}), None), "target"), ((b"GET", b"/\n", _Headers({}), None), "target")):
        got, exc = _try(w.new, "Request", *args)
        ctx.check(exc == "ValueError", "validator/refused-at-construction", Q + f"Request.__init__ | {what} {args[0] if what == 'method' else args[1]!r}",
                  f"Request(...) with an invalid {what} is not refused with ValueError ({'raises ' + exc if exc else 'accepted'})")
    got, exc = _try(w.new, "Request", b"GET", b"/x", _Headers({}), None)
    ctx.check(exc is None and got.method == b"GET" and got.uri == b"/x", "validator/refused-at-construction", Q + "Request.__init__ | valid", "a valid request is refused or stored changed")


# ---- (b) Headers ---------------------------------------------------------------------------------------------------------
def _headers_store(ctx):
    mod = ctx.mod(HH)
    ctx.func(HH, "Headers.setRawHeaders")
    ctx.func(HH, "Headers.addRawHeader")
    abnf = World(ctx.mod(A))
    w = World(mod, externals={"_istoken": abnf.resolve("_istoken"), "comparable": lambda c: c})
    w.env["_nameEncoder"] = w.new("_NameEncoder")
    q = "twisted.web.http_headers.Headers."
    hostile = [b"a\r\nX-Injected: 1", b"a\nb", b"a\rb", "a\r\nb", b"plain"]
    for meth in ("setRawHeaders", "addRawHeader"):
        bad = []
        for v in hostile:
            h = w.new("Headers")
            _, exc = _try(getattr(h, meth), b"X-Test", [v] if meth == "setRawHeaders" else v)
            stored = [x for k, vs in list(h.getAllRawHeaders()) for x in vs] if exc is None else None
            if exc is not None or len(stored) != 1 or b"\r" in stored[0] or b"\n" in stored[0] or not isinstance(stored[0], bytes):
                bad.append((v, exc or stored))
        ctx.check(not bad, "headers/values-sanitised", q + meth, f"{meth}(b'X-Test', {bad[0][0]!r}) stores {bad[0][1]!r}: CR/LF reaches the request head" if bad else "")
        for nm in (b"X Bad", b"X:Bad", b"", b"X\r\nY"):
            h = w.new("Headers")
            _, exc = _try(getattr(h, meth), nm, [b"v"] if meth == "setRawHeaders" else b"v")
            ctx.check(exc == "InvalidHeaderName", "headers/names-validated", q + meth + f" | {nm!r}", f"the header name {nm!r} is not refused ({exc})")


# ---- (c) the head ----------------------------------------------------------------------------------------------------------
def _head_lines(head: bytes):
    assert head.endswith(b"\r\n\r\n")
    lines = head[:-4].split(b"\r\n")
    return lines[0], sorted(lines[1:])


def _write_headers(ctx):
    w = _world(ctx)
    q = Q + "Request._writeHeaders"
    bad = []
    n = 0
    sets = {"host only": {b"Host": [b"example.com"]}, "host + two X": {b"Host": [b"example.com"], b"X-A": [b"1", b"2"], b"Accept": [b"*/*"]},
            "host + empty values": {b"Host": [b"example.com"], b"Accept-Encoding": [b""], b"X-B": [b"", b"v", b""]}}
    for persistent in (False, True):
        for te in (None, b"Transfer-Encoding: chunked\r\n", b"Content-Length: 3\r\n"):
            for sname, raw in sets.items():
                n += 1
                req = w.new("Request", b"GET", b"/p?q=1", _Headers(raw), None, persistent)
                tr = _Transport()
                _, exc = _try(req._writeHeaders, tr, te)
                head = tr.bytes()
                want_lines = sorted(([] if persistent else [b"Connection: close"]) + ([te[:-2]] if te else []) + [k + b": " + v for k, vs in raw.items() for v in vs])
                if exc is not None:
                    bad.append((persistent, te, sname, f"raises {exc}"))
                elif not head.endswith(b"\r\n\r\n") or head.count(b"\r\n\r\n") != 1:
                    bad.append((persistent, te, sname, f"head is not terminated by exactly one empty line: {head!r}"))
                elif _head_lines(head) != (b"GET /p?q=1 HTTP/1.1", want_lines):
                    bad.append((persistent, te, sname, f"head is {head!r}"))
    ctx.check(not bad, "sink/head-bytes", q, f"persistent={bad[0][0]}, framing line {bad[0][1]!r}, headers '{bad[0][2]}': {bad[0][3]} - not `GET /p?q=1 HTTP/1.1` + the expected "
              f"header lines + one empty line ({len(bad)} of {n} cases)" if bad else "", detail=f"{n} cases")
    # refusals write nothing
    for label, raw, tweak in (("no Host header", {}, None), ("two Host headers", {b"Host": [b"a", b"b"]}, None),
                              ("method made invalid after construction", {b"Host": [b"a"]}, ("method", b"G T")), ("target made invalid after construction", {b"Host": [b"a"]}, ("uri", b"/a\r\nX: y")),
                              ("target with trailing newline", {b"Host": [b"a"]}, ("uri", b"/a\n"))):
        req = w.new("Request", b"GET", b"/", _Headers(raw), None)
        if tweak:
            setattr(req, tweak[0], tweak[1])
        tr = _Transport()
        _, exc = _try(req._writeHeaders, tr, None)
        want = "BadHeaders" if tweak is None else "ValueError"
        ctx.check(exc == want and not tr.out, "sink/refused-before-write-evaluated", q + " | " + label,
                  f"{label}: " + (f"raises {exc}" if exc else "the request is written") + (f" after {tr.bytes()!r} was already written" if tr.out else "") + f" (expected {want} with nothing written)")


# ---- (d) head-announced framing == body encoder ---------------------------------------------------------------------------
def _framing_agreement(ctx):
    w = _world(ctx)
    q = Q + "Request.writeTo"
    bad = []
    n = 0
    caller_sets = {"plain": {}, "caller Content-Length": {b"Content-Length": [b"5"]}, "caller Transfer-Encoding": {b"Transfer-Encoding": [b"chunked"]}}
    bodies = {"no body": None, "known length 5": 5, "known length 0": 0, "unknown length": UNKNOWN}
    for cname, extra in caller_sets.items():
        for bname, length in bodies.items():
            for method in (b"GET", b"POST"):
                n += 1
                prod = None if length is None else _Producer(length)
                req = w.new("Request", method, b"/", _Headers({b"Host": [b"example.com"], **extra}), prod)
                tr = _Transport()
                d, exc = _try(req.writeTo, tr)
                if exc:
                    bad.append((cname, bname, method, f"raises {exc}"))
                    continue
                head = tr.bytes()
                fields = [(l.split(b":", 1)[0].strip().lower(), l.split(b":", 1)[1].strip()) for l in head.split(b"\r\n") if b":" in l]
                cons = prod.consumer if prod else None
                used = None if cons is None else (getattr(object.__getattribute__(cons, "_sa_cls"), "name", "?") if isinstance(cons, RepoObject) else type(cons).__name__.strip("_"))
                why = None
                if not head.endswith(b"\r\n\r\n") or not head.startswith(method + b" / HTTP/1.1\r\n"):
                    why = f"the head is not one complete request head: {head[:60]!r}"
                elif not isinstance(d, MDeferred):
                    why = f"writeTo returns {d!r}, not a Deferred"
                elif length is None and used:
                    why = "a body is produced for a request without a body producer"
                elif length is None and _outcome(d) != ("ok", None):
                    why = f"a body-less request's Deferred is {_outcome(d)}"
                elif length is UNKNOWN and (used != "ChunkedEncoder" or (b"transfer-encoding", b"chunked") not in fields):
                    why = f"the body is written through {used or 'nothing'} while the head announces {fields}"
                elif isinstance(length, int) and (used != "LengthEnforcingConsumer" or (b"content-length", str(length).encode()) not in fields):
                    why = f"the body is written through {used or 'nothing'} (exactly {length} bytes) while the head announces {fields}"
                elif length is None and method == b"POST" and (b"content-length", b"0") not in fields and not extra:
                    why = "a body-less POST does not announce Content-Length: 0"
                elif length is None and method == b"GET" and not extra and any(k in (b"content-length", b"transfer-encoding") for k, v in fields):
                    why = f"a body-less GET announces a body framing: {fields}"
                elif prod is not None and tr.producer is not prod:
                    why = "the body producer is not registered with the transport"
                if why:
                    bad.append((cname, bname, method, why))
    msg = ""
    if bad:
        c_, b_, m_, why = bad[0]
        msg = f"{m_.decode()} request, headers: {c_}, body: {b_}: {why}; an independent parser would frame the body differently from what is written ({len(bad)} of {n} cases)"
    ctx.check(not bad, "framing/head-matches-encoder", q + " | <headers x body grid>", msg, detail=f"{n} (caller headers, body kind, method) cases")
    ctx.extra["finite_cases_framing"] = n


# ---- (e) body scenarios --------------------------------------------------------------------------------------------------------
def _start(w, length, sync=()):
    prod = _Producer(length, sync)
    req = w.new("Request", b"POST", b"/", _Headers({b"Host": [b"example.com"]}), prod)
    tr = _Transport()
    d = req.writeTo(tr)
    head_len = len(tr.bytes())
    return prod, tr, d, head_len


def _chunked(ctx):
    w = _world(ctx)
    q = Q + "ChunkedEncoder"
    # success
    prod, tr, d, hl = _start(w, UNKNOWN)
    for piece in (b"ab", b"", b"cd"):
        _, exc = _try(prod.consumer.write, piece)
        ctx.check(exc is None, "chunked/body-bytes", q + f" | write({piece!r})", f"write({piece!r}) raises {exc}")
    mid = tr.bytes()[hl:]
    ctx.check(mid == b"2\r\nab\r\n2\r\ncd\r\n", "chunked/empty-write-not-encoded" if b"0\r\n\r\n" in mid else "chunked/body-bytes", q + " | writes ab, '', cd",
              f"the producer wrote b'ab', b'', b'cd' and the wire carries {mid!r}: " +
              ("an empty write is encoded as the zero-length chunk, which ends the body early (later chunks are read as a new request)" if b"0\r\n\r\n" in mid else
               "not `hex(len) CRLF data CRLF` per non-empty write"))
    big = b"x" * 26
    _try(prod.consumer.write, big)
    ctx.check(tr.bytes()[hl:].endswith(b"1a\r\n" + big + b"\r\n") or tr.bytes()[hl:].endswith(b"1A\r\n" + big + b"\r\n"), "chunked/body-bytes", q + " | 26-byte chunk",
              f"a 26-byte chunk is not announced as hex 1a: ...{tr.bytes()[-40:]!r}")
    before = tr.bytes()
    prod.done.callback(None)
    after = tr.bytes()
    ctx.check(after == before + b"0\r\n\r\n", "chunked/terminator", q + " | producer finished", f"after the producer finished the wire gained {after[len(before):]!r}, not exactly one last-chunk 0 CRLF CRLF")
    ctx.check(_outcome(d) == ("ok", None) and tr.unregistered == 1 and tr.producer is None, "chunked/terminator", q + " | completion",
              f"writeTo's Deferred is {_outcome(d)} / transport producer unregistered {tr.unregistered}x after a successful body")
    _, exc = _try(prod.consumer.write, b"late")
    ctx.check(exc == "ExcessWrite" and tr.bytes() == after, "chunked/refuses-after-end", q + " | write after the end", f"a write after the end of the body: {exc or 'accepted'}, wire {tr.bytes()[len(after):]!r}")
    _, exc = _try(prod.consumer.unregisterProducer)
    ctx.check(exc == "ExcessWrite" and tr.bytes() == after, "chunked/refuses-after-end", q + " | second unregisterProducer", f"a second unregisterProducer: {exc or 'accepted'}, wire gained {tr.bytes()[len(after):]!r}")
    _head_first(ctx, w, UNKNOWN, "framing/head-first", Q + "Request._writeToBodyProducerChunked")
    # failure
    prod, tr, d, hl = _start(w, UNKNOWN)
    _try(prod.consumer.write, b"ab")
    before = tr.bytes()
    prod.done.errback(MFailure(MExc("Boom")))
    ctx.check(tr.bytes() == before, "chunked/no-terminator-on-failure", Q + "Request._writeToBodyProducerChunked | producer failed",
              f"a failed body gained {tr.bytes()[len(before):]!r} on the wire: it is terminated as if complete (the server accepts a truncated request)")
    ctx.check(_outcome(d) == ("fail", "Boom") and tr.producer is None, "chunked/no-terminator-on-failure", Q + "Request._writeToBodyProducerChunked | failure propagated",
              f"after the producer failed writeTo's Deferred is {_outcome(d)} and the transport producer is {'still ' if tr.producer else 'un'}registered")
    _, exc = _try(prod.consumer.write, b"late")
    ctx.check(exc == "ExcessWrite" and tr.bytes() == before, "chunked/refuses-after-end", q + " | write after failure", f"a write after the producer failed: {exc or 'accepted'}")


def _head_first(ctx, w, length, rule, q):
    """a producer that writes from inside startProducing(): its bytes must follow the complete head"""
    prod, tr, d, hl = _start(w, length, sync=(b"hello",))
    wire = tr.bytes()
    cut = wire.find(b"\r\n\r\n")
    head, rest = (wire[:cut + 4], wire[cut + 4:]) if cut != -1 else (b"", wire)
    ok = head.startswith(b"POST / HTTP/1.1\r\n") and rest == (b"hello" if isinstance(length, int) else b"5\r\nhello\r\n")
    ctx.check(ok, rule, q + " | producer writing synchronously in startProducing", f"the wire starts {wire[:70]!r}: body bytes precede (or corrupt) the request head")


def _length(ctx):
    w = _world(ctx)
    q = Q + "LengthEnforcingConsumer"
    _head_first(ctx, w, 5, "framing/head-first", Q + "Request._writeToBodyProducerContentLength")
    # exact
    prod, tr, d, hl = _start(w, 5)
    for piece in (b"abc", b"", b"de"):
        _, exc = _try(prod.consumer.write, piece)
        ctx.check(exc is None, "length/forward-boundary", q + f" | write({piece!r}) within the length", f"write({piece!r}) raises {exc}")
    ctx.check(tr.bytes()[hl:] == b"abcde", "length/forward-boundary", q + " | exact body", f"the body b'abc' + b'' + b'de' of declared length 5 is on the wire as {tr.bytes()[hl:]!r}")
    ctx.check(_outcome_peek(d) == "pending", "length/shortfall-checked", q + " | not finished early", "writeTo's Deferred fires before the producer finished")
    prod.done.callback(None)
    ctx.check(_outcome(d) == ("ok", None) and tr.producer is None, "length/shortfall-checked", q + " | exact body finished", f"an exactly produced body ends with {_outcome(d)}")
    _, exc = _try(prod.consumer.write, b"x")
    ctx.check(exc == "ExcessWrite" and tr.bytes()[hl:] == b"abcde" and prod.stopped >= 1, "length/refuses-after-end", q + " | write after the end",
              f"a write after the end: {exc or 'accepted'}, producer stopped {prod.stopped}x, wire {tr.bytes()[hl:]!r}")
    # one write of exactly the length
    prod, tr, d, hl = _start(w, 5)
    _try(prod.consumer.write, b"abcde")
    prod.done.callback(None)
    ctx.check(tr.bytes()[hl:] == b"abcde" and _outcome(d) == ("ok", None), "length/forward-boundary", q + " | single write of exactly the length",
              f"a single write of exactly the declared length gives wire {tr.bytes()[hl:]!r} and {_outcome(d)}")
    # short
    prod, tr, d, hl = _start(w, 5)
    _try(prod.consumer.write, b"abc")
    prod.done.callback(None)
    ctx.check(_outcome(d) == ("fail", "WrongBodyLength") and tr.producer is None, "length/shortfall-reported", q + " | 3 of 5 bytes", f"a body shorter than announced ends with {_outcome(d)}")
    prod, tr, d, hl = _start(w, 5)
    _try(prod.consumer.write, b"abcd")
    prod.done.callback(None)
    ctx.check(_outcome(d) == ("fail", "WrongBodyLength"), "length/shortfall-reported", q + " | 4 of 5 bytes", f"a body one byte short ends with {_outcome(d)}")
    # excess
    prod, tr, d, hl = _start(w, 5)
    _try(prod.consumer.write, b"abc")
    _, exc = _try(prod.consumer.write, b"defg")
    ctx.check(exc is None and tr.bytes()[hl:] == b"abc" and prod.stopped >= 1, "length/excess-reported", q + " | 7 of 5 bytes",
              f"an excess write: {exc or 'no exception'}, wire {tr.bytes()[hl:]!r} (the excess piece must not be forwarded), producer stopped {prod.stopped}x")
    ctx.check(_outcome(d) == ("fail", "WrongBodyLength") and tr.producer is None, "length/excess-reported", q + " | excess outcome", f"an excess write ends with {_outcome(d)}")
    _, exc = _try(prod.consumer.write, b"x")
    ctx.check(exc == "ExcessWrite", "length/refuses-after-end", q + " | write after excess", f"a write after the excess was reported: {exc or 'accepted'}")
    _, exc = _try(prod.done.callback, None)
    ctx.check(exc is None, "length/excess-reported", q + " | late producer result ignored", f"the producer finishing after the excess was reported raises {exc} (the Deferred would fire twice)")
    # producer failure
    prod, tr, d, hl = _start(w, 5)
    _try(prod.consumer.write, b"ab")
    prod.done.errback(MFailure(MExc("Boom")))
    ctx.check(_outcome(d) == ("fail", "Boom") and tr.producer is None, "length/producer-failure", q + " | producer failed", f"a failing producer ends with {_outcome(d)}")
    _, exc = _try(prod.consumer.write, b"x")
    ctx.check(exc == "ExcessWrite", "length/refuses-after-end", q + " | write after failure", f"a write after the producer failed: {exc or 'accepted'}")


def _outcome_peek(d):
    return "pending" if isinstance(d, MDeferred) and not d.called else "fired"


MUTANTS = [
    Mutant("body-stopped-as-soon-as-the-server-answers", P, '        Handle some stuff from some place.\n        """\n        try:\n            self._parser.dataReceived(bytes)', '        Handle some stuff from some place.\n        """\n        if self._state == "TRANSMITTING" and self._currentRequest is not None:\n            self._currentRequest.stopWriting()\n        try:\n            self._parser.dataReceived(bytes)', expect_rule="body/"),
    Mutant("head-lines-generator-skips-method-validation", P, "        requestLines = []\n        requestLines.append(\n            b\" \".join(\n                [\n                    _ensureValidMethod(self.method),\n                    _ensureValidURI(self.uri),\n                    b\"HTTP/1.1\\r\\n\",\n                ]\n            ),\n        )\n        if not self.persistent:\n            requestLines.append(b\"Connection: close\\r\\n\")\n        if TEorCL is not None:\n            requestLines.append(TEorCL)\n        for name, values in self.headers.getAllRawHeaders():\n            requestLines.extend([name + b\": \" + v + b\"\\r\\n\" for v in values])\n        requestLines.append(b\"\\r\\n\")\n        transport.writeSequence(requestLines)\n", "        transport.writeSequence(list(self._headLines(TEorCL)))\n\n    def _headLines(self, framing):\n        yield b\" \".join([self.method, _ensureValidURI(self.uri), b\"HTTP/1.1\\r\\n\"])\n        if not self.persistent:\n            yield b\"Connection: close\\r\\n\"\n        if framing is not None:\n            yield framing\n        for name, values in self.headers.getAllRawHeaders():\n            for v in values:\n                yield name + b\": \" + v + b\"\\r\\n\"\n        yield b\"\\r\\n\"\n", expect_rule="sink/"),
    Mutant("sync-generation-failure-reopens-the-protocol", P, "        except BaseException:\n            _requestDeferred = fail()\n", "        except BaseException:\n            self._state = \"QUIESCENT\"\n            _requestDeferred = fail()\n",
           expect_rule="failure/leaves-refusing-state"),
    Mutant("sync-generation-failure-bypasses-the-errback", P, "        except BaseException:\n            _requestDeferred = fail()\n",
           "        except BaseException:\n            self._state = \"GENERATION_FAILED\"\n            return fail(RequestGenerationFailed([Failure()]))\n", expect_rule="failure/"),
    Mutant("generation-failure-does-not-abort", P, "                self._state = \"GENERATION_FAILED\"\n                self.transport.abortConnection()\n", "                self._state = \"GENERATION_FAILED\"\n",
           expect_rule="failure/"),
    Mutant("generation-failure-returns-to-quiescent", P, "                self._state = \"GENERATION_FAILED\"\n                self.transport.abortConnection()\n", "                self._state = \"QUIESCENT\"\n                self.transport.abortConnection()\n",
           expect_rule="failure/leaves-refusing-state"),
    Mutant("framing-line-dropped-when-caller-set-a-length", P, "        if TEorCL is not None:\n            requestLines.append(TEorCL)", "        if TEorCL is not None and self.headers.getRawHeaders(b\"Content-Length\") is None:\n            requestLines.append(TEorCL)"),
    Mutant("revert-F24-empty-write-encoded", P,
           "        if data:\n            # A zero-length chunk is the end-of-body marker, so an empty write\n            # must not be encoded as a chunk.\n            self._writeChunk(data)\n",
           "        self._writeChunk(data)\n"),
    Mutant("uri-dollar-anchor", P, 'rb"\\A[\\x21-\\x7e]+\\Z"', 'rb"\\A[\\x21-\\x7e]+$"'),
    Mutant("uri-allows-space", P, 'rb"\\A[\\x21-\\x7e]+\\Z"', 'rb"\\A[\\x20-\\x7e]+\\Z"'),
    Mutant("uri-allows-del", P, 'rb"\\A[\\x21-\\x7e]+\\Z"', 'rb"\\A[\\x21-\\x7f]+\\Z"'),
    Mutant("token-allows-colon", A, "            b\"!#$%&'*+-.^_`|~\"\n        ):\n            return False\n    return b != b\"\"\n\n\ndef _decint", "            b\"!#$%&'*+-.^_`|~:\"\n        ):\n            return False\n    return b != b\"\"\n\n\ndef _decint"),
    Mutant("token-accepts-empty", A, "            return False\n    return b != b\"\"\n\n\ndef _decint", "            return False\n    return True\n\n\ndef _decint"),
    Mutant("sink-skips-uri-validation", P, "                    _ensureValidURI(self.uri),\n                    b\"HTTP/1.1\\r\\n\",", "                    self.uri,\n                    b\"HTTP/1.1\\r\\n\","),
    Mutant("init-skips-method-validation", P, "        self.method = _ensureValidMethod(method)\n", "        self.method = method\n"),
    Mutant("host-check-after-write", P, "        hosts = self.headers.getRawHeaders(b\"Host\", ())\n        if len(hosts) != 1:\n            raise BadHeaders(\"Exactly one Host header required\")\n", "",
           more=[(P, "        transport.writeSequence(requestLines)\n\n    def _writeToBodyProducerChunked",
                  "        transport.writeSequence(requestLines)\n        hosts = self.headers.getRawHeaders(b\"Host\", ())\n        if len(hosts) != 1:\n            raise BadHeaders(\"Exactly one Host header required\")\n\n    def _writeToBodyProducerChunked")]),
    Mutant("chunk-size-decimal", P, "            (networkString(\"%x\\r\\n\" % len(data)), data, b\"\\r\\n\")", "            (networkString(\"%d\\r\\n\" % len(data)), data, b\"\\r\\n\")"),
    Mutant("terminator-on-producer-failure", P, "            encoder._allowNoMoreWrites()\n            # Don't call the encoder's unregisterProducer",
           "            encoder.unregisterProducer()\n            encoder._allowNoMoreWrites()\n            # Don't call the encoder's unregisterProducer"),
    Mutant("chunked-producer-writes-to-transport", P, "        d = self.bodyProducer.startProducing(encoder)\n\n        def cbProduced", "        d = self.bodyProducer.startProducing(transport)\n\n        def cbProduced"),
    Mutant("unknown-length-test-inverted", P, "        elif self.bodyProducer.length is UNKNOWN_LENGTH:", "        elif self.bodyProducer.length is not UNKNOWN_LENGTH:"),
    Mutant("length-boundary-strict", P, "        if len(bytes) <= self._length:", "        if len(bytes) < self._length:"),
    Mutant("length-not-decremented", P, "            self._length -= len(bytes)\n            self._consumer.write(bytes)\n", "            self._consumer.write(bytes)\n"),
    Mutant("shortfall-off-by-one", P, "            if self._length:\n                raise WrongBodyLength(\"too few bytes written\")", "            if self._length > 1:\n                raise WrongBodyLength(\"too few bytes written\")"),
    Mutant("excess-keeps-consumer-open", P, "            self._finished.errback(WrongBodyLength(\"too many bytes written\"))\n            self._allowNoMoreWrites()\n",
           "            self._finished.errback(WrongBodyLength(\"too many bytes written\"))\n"),
    Mutant("header-value-not-sanitised", HH, "            encodedValues.append(_sanitizeLinearWhitespace(_v))", "            encodedValues.append(_v)"),
    Mutant("double-terminator-possible", P, "        if self.transport is None:\n            raise ExcessWrite()\n        self._writeChunk(b\"\")", "        self._writeChunk(b\"\")"),
    Mutant("producer-started-before-head", P,
           "        self._writeHeaders(transport, b\"Transfer-Encoding: chunked\\r\\n\")\n        encoder = ChunkedEncoder(transport)\n        encoder.registerProducer(self.bodyProducer, True)\n        d = self.bodyProducer.startProducing(encoder)\n",
           "        encoder = ChunkedEncoder(transport)\n        encoder.registerProducer(self.bodyProducer, True)\n        d = self.bodyProducer.startProducing(encoder)\n        self._writeHeaders(transport, b\"Transfer-Encoding: chunked\\r\\n\")\n"),
    Mutant("empty-header-values-dropped", P, "            requestLines.extend([name + b\": \" + v + b\"\\r\\n\" for v in values])", "            requestLines.extend([name + b\": \" + v + b\"\\r\\n\" for v in values if len(v) > 0])"),
]
SILENT = [
    Silent("stop-writing-through-a-helper-called-after-the-failure", P, '        # Tell the request that it should stop bothering now.\n        self._currentRequest.stopWriting()\n', '        self._stopRequestBody()\n\n    def _stopRequestBody(self):\n        # Tell the request that it should stop bothering now.\n        self._currentRequest.stopWriting()\n'),
    Silent("head-lines-from-a-generator-method", P, "        requestLines = []\n        requestLines.append(\n            b\" \".join(\n                [\n                    _ensureValidMethod(self.method),\n                    _ensureValidURI(self.uri),\n                    b\"HTTP/1.1\\r\\n\",\n                ]\n            ),\n        )\n        if not self.persistent:\n            requestLines.append(b\"Connection: close\\r\\n\")\n        if TEorCL is not None:\n            requestLines.append(TEorCL)\n        for name, values in self.headers.getAllRawHeaders():\n            requestLines.extend([name + b\": \" + v + b\"\\r\\n\" for v in values])\n        requestLines.append(b\"\\r\\n\")\n        transport.writeSequence(requestLines)\n", "        transport.writeSequence(list(self._headLines(TEorCL)))\n\n    def _headLines(self, framing):\n        yield b\" \".join([_ensureValidMethod(self.method), _ensureValidURI(self.uri), b\"HTTP/1.1\\r\\n\"])\n        if not self.persistent:\n            yield b\"Connection: close\\r\\n\"\n        if framing is not None:\n            yield framing\n        for name, values in self.headers.getAllRawHeaders():\n            for v in values:\n                yield name + b\": \" + v + b\"\\r\\n\"\n        yield b\"\\r\\n\"\n"),
    Silent("sync-generation-failure-explicit-failure", P, "        except BaseException:\n            _requestDeferred = fail()\n", "        except BaseException:\n            _requestDeferred = fail(Failure())\n"),
    Silent("generation-failure-aborts-before-recording-the-state", P, "                self._state = \"GENERATION_FAILED\"\n                self.transport.abortConnection()\n", "                self.transport.abortConnection()\n                self._state = \"GENERATION_FAILED\"\n"),
    Silent("validators-as-guard-clauses", P, "    if _istoken(method):\n        return method\n    raise ValueError(f\"Invalid method {method!r}\")", "    valid = _istoken(method)\n    if not valid:\n        raise ValueError(f\"Invalid method {method!r}\")\n    return method"),
    Silent("header-lines-by-nested-loop", P, "            requestLines.extend([name + b\": \" + v + b\"\\r\\n\" for v in values])", "            for oneValue in values:\n                requestLines.append(b\"\".join([name, b\": \", oneValue, b\"\\r\\n\"]))"),
    Silent("chunk-write-early-return-and-bytes-format", P,
           "        if data:\n            # A zero-length chunk is the end-of-body marker, so an empty write\n            # must not be encoded as a chunk.\n            self._writeChunk(data)\n",
           "        if len(data) == 0:\n            return None\n        self._writeChunk(data)\n",
           more=[(P, "            (networkString(\"%x\\r\\n\" % len(data)), data, b\"\\r\\n\")", "            (b\"%x\\r\\n\" % (len(data),), data, b\"\\r\\n\")")]),
    Silent("shortfall-check-guard-clause", P, "        if self._finished is not None:\n            self._allowNoMoreWrites()\n            if self._length:\n                raise WrongBodyLength(\"too few bytes written\")",
           "        if self._finished is None:\n            return\n        self._allowNoMoreWrites()\n        if self._length != 0:\n            raise WrongBodyLength(\"too few bytes written\")"),
    Silent("duplicate-content-length-line-skipped", P, "        if TEorCL is not None:\n            requestLines.append(TEorCL)",
           "        if TEorCL is not None:\n            mine = TEorCL.split(b\":\", 1)\n            theirs = self.headers.getRawHeaders(b\"Content-Length\") or []\n            if not (mine[0].lower() == b\"content-length\" and [mine[1].strip()] == theirs):\n                requestLines.append(TEorCL)"),
    Silent("duplicate-content-length-single-test", P, "        if TEorCL is not None:\n            requestLines.append(TEorCL)",
           "        if TEorCL is not None:\n            dupes = [b\"Content-Length: \" + v + b\"\\r\\n\" for v in self.headers.getRawHeaders(b\"Content-Length\", [])]\n            if TEorCL not in dupes:\n                requestLines.append(TEorCL)"),
    Silent("chunk-size-uppercase-hex", P, "            (networkString(\"%x\\r\\n\" % len(data)), data, b\"\\r\\n\")", "            (networkString(\"%X\\r\\n\" % len(data)), data, b\"\\r\\n\")"),
    Silent("empty-write-early-return", P,
           "        if data:\n            # A zero-length chunk is the end-of-body marker, so an empty write\n            # must not be encoded as a chunk.\n            self._writeChunk(data)\n",
           "        if not data:\n            return\n        self._writeChunk(data)\n"),
    Silent("empty-write-len-test", P,
           "        if data:\n            # A zero-length chunk is the end-of-body marker, so an empty write\n            # must not be encoded as a chunk.\n            self._writeChunk(data)\n",
           "        if len(data) > 0:\n            self._writeChunk(data)\n"),
    Silent("length-boundary-flipped", P, "        if len(bytes) <= self._length:", "        if not len(bytes) > self._length:"),
    Silent("host-test-flipped", P, "        if len(hosts) != 1:\n            raise BadHeaders(\"Exactly one Host header required\")\n",
           "        if len(hosts) == 1:\n            pass\n        else:\n            raise BadHeaders(\"Exactly one Host header required\")\n"),
    Silent("shortfall-explicit-compare", P, "            if self._length:\n                raise WrongBodyLength(\"too few bytes written\")", "            if self._length != 0:\n                raise WrongBodyLength(\"too few bytes written\")"),
]
