"""C24 - HTTP client requests serialise to exactly the intended message."""
from __future__ import annotations

import ast

from sa.astx import NotConst, call_attr, call_name, const_eval, lin_expect, lincmp, src, walk_local
from sa.domains import TCHAR, VCHAR, fmt_set, loop_reject_set, regex_class
from sa.selftest import Mutant, Silent
from sa.source import AnalysisError
from sa.props._lib_f import (assign_sites, call_sites, catches_everything, class_functions, cmp_polarity, enclosing_try_handlers,
                             from_here, guarded_eq, InterpError, interpret, is_self_attr, named_calls, none_guard, param_names, truth_guard)

PROPERTY = "C24"
P = "web/_newclient.py"
A = "web/_abnf.py"
HH = "web/http_headers.py"
TECHNIQUE = "byte-set evaluation of validators + provenance/dominance at the write sinks"
EXPLANATION = (
    "Decides: (a) _istoken rejects exactly the non-tchar bytes and the empty string, _VALID_URI accepts exactly 1*VCHAR with \\A..\\Z anchors, and "
    "both _ensureValid* return only on acceptance and raise ValueError otherwise; (b) at the single transport write of Request._writeHeaders every "
    "element is a constant ending in CRLF, a validator result (method, target), a sanitised Headers value or the numeric Content-Length line, the "
    "Host-count test and the validators run before any write, and each _writeTo* writes the head before touching the producer and pairs the framing "
    "header with its encoder (chunked <-> ChunkedEncoder, Content-Length <-> LengthEnforcingConsumer) chosen by the UNKNOWN_LENGTH test; writeTo and its four helpers are interpreted together over (caller headers) x (no body / known / unknown length) x method and the head written must announce exactly the framing of the encoder the body goes through; (c) "
    "ChunkedEncoder emits `hex(len) CRLF data CRLF`, never encodes an empty write (F24, fixed), writes the zero chunk exactly once in "
    "unregisterProducer and never on the error path, and refuses writes after the end; (d) LengthEnforcingConsumer forwards exactly when "
    "len <= remaining, decrements with the forward, reports excess and shortfall. Not decided: parse-back by an independent parser."
)
ASSUMPTIONS = ["header names/values reach the wire only through twisted.web.http_headers.Headers (checked: stored values pass _sanitizeLinearWhitespace, names _istoken)"]


def _bytes_const(node):
    try:
        v = const_eval(node)
    except NotConst:
        return None
    return v if isinstance(v, bytes) else None


def check(ctx):
    with ctx.section("validators"):
        _validators(ctx)
    with ctx.section("headers-store"):
        _headers_store(ctx)
    with ctx.section("write-headers"):
        _write_headers(ctx)
    with ctx.section("write-to"):
        _write_to(ctx)
    with ctx.section("framing-agreement"):
        _framing_agreement(ctx)
    with ctx.section("chunked"):
        _chunked(ctx)
    with ctx.section("length"):
        _length(ctx)


# ---- (a) validators -----------------------------------------------------------------------------
def _validators(ctx):
    f = ctx.func(A, "_istoken")
    q = "twisted.web._abnf._istoken"
    it, rej, test = loop_reject_set(f)
    acc = set(range(256)) - rej
    ctx.check(acc == TCHAR, "validator/token-set", q, f"accepted bytes differ from RFC 9110 tchar: extra {fmt_set(acc - TCHAR)}, missing {fmt_set(TCHAR - acc)}")
    ctx.check(it == param_names(f)[0], "validator/token-set", q + " | iterates its argument", "the loop does not iterate over the argument")
    g = ctx.cfg(f)
    rets = g.ids(lambda x: x.kind == "stmt" and isinstance(x.ast, ast.Return))
    finals = [r for r in rets if not (isinstance(g.node(r).ast.value, ast.Constant) and g.node(r).ast.value.value is False)]
    ok = bool(finals)
    for r in finals:
        v = g.node(r).ast.value
        p = param_names(f)[0]
        try:
            ok = ok and (const_eval(v, {p: b""}) is False or const_eval(v, {p: b""}) == 0) and bool(const_eval(v, {p: b"a"}))
        except NotConst:
            ok = False
    ctx.check(ok, "validator/token-nonempty", q, "the empty string is accepted as a token (an empty method would be written)")

    mod = ctx.mod(P)
    for name, what in (("_ensureValidMethod", "_istoken"), ("_ensureValidURI", "_VALID_URI.")):
        f = ctx.func(P, name)
        g = ctx.cfg(f)
        q = "twisted.web._newclient." + name
        p = param_names(f)[0]
        rets = g.ids(lambda x: x.kind == "stmt" and isinstance(x.ast, ast.Return))
        ctx.check(bool(rets), "validator/returns-only-if-valid", q, "the validator never returns its argument")
        for r in rets:
            gs = [(g.node(t).ast, lab) for t, lab in g.edge_guards(r)]
            ok = False
            for e, lab in gs:
                if isinstance(e, ast.Call) and lab == "T" and [src(a) for a in e.args] == [p]:
                    cn = call_name(e) or ""
                    if name == "_ensureValidMethod" and cn == "_istoken":
                        ok = True
                    if name == "_ensureValidURI" and cn in ("_VALID_URI.match", "_VALID_URI.fullmatch"):
                        ok = True
            ctx.check(ok and src(g.node(r).ast.value) == p, "validator/returns-only-if-valid", ctx.construct(q, g.node(r).ast),
                      "the validator returns without the value having been accepted by the token / URI test")
        raises = g.ids(lambda x: x.kind == "stmt" and isinstance(x.ast, ast.Raise))
        ctx.check(len(raises) >= 1 and all("ValueError" in src(g.node(r).ast) for r in raises), "validator/raises-valueerror", q,
                  "an invalid value is not refused with ValueError")
        w = g.path([g.entry], [g.exit], avoid=rets)
        ctx.check(w is None, "validator/returns-only-if-valid", q + " | no implicit return", "the validator can fall off the end (returns None) for an invalid value",
                  witness=g.describe(w))
    pat = mod.module_assign("_VALID_URI")
    q = "twisted.web._newclient._VALID_URI"
    ok = isinstance(pat, ast.Call) and call_name(pat) == "re.compile" and len(pat.args) == 1 and not pat.keywords
    ctx.need(ok, "_VALID_URI = re.compile(<pattern>) without flags")
    p = _bytes_const(pat.args[0])
    ctx.need(p is not None, "_VALID_URI pattern constant")
    rc = regex_class(p)
    ctx.check(rc["set"] == VCHAR, "validator/uri-set", q, f"accepted bytes differ from VCHAR: extra {fmt_set(rc['set'] - VCHAR)}, missing {fmt_set(VCHAR - rc['set'])}")
    ctx.check(rc["anchored_start"] and rc["anchored_end"] == "Z", "validator/uri-anchors", q,
              "the pattern is not anchored with \\A ... \\Z ('$' also matches before a trailing newline: b'/\\n' would be written into the request line)")
    ctx.check(rc["min"] is not None and rc["min"] >= 1 and rc["max"] is None, "validator/uri-anchors", q + " | repetition", "the pattern accepts the empty target or bounds the length")


# ---- Headers storage (names/values that later reach the sink) ------------------------------------
def _headers_store(ctx):
    f = ctx.func(HH, "_sanitizeLinearWhitespace")
    q = "twisted.web.http_headers._sanitizeLinearWhitespace"
    rets = [s for s in walk_local(f) if isinstance(s, ast.Return)]
    p = param_names(f)[0]
    ok = len(rets) == 1 and isinstance(rets[0].value, ast.Call) and call_attr(rets[0].value) == "join" and \
        _bytes_const(rets[0].value.func.value) is not None and b"\r" not in _bytes_const(rets[0].value.func.value) and b"\n" not in _bytes_const(rets[0].value.func.value) and \
        len(rets[0].value.args) == 1 and src(rets[0].value.args[0]) == f"{p}.splitlines()"
    ctx.check(ok, "headers/sanitiser", q, "the header value sanitiser no longer joins value.splitlines() with a CR/LF-free separator")
    for name in ("setRawHeaders", "addRawHeader"):
        f = ctx.func(HH, "Headers." + name)
        q = "twisted.web.http_headers.Headers." + name
        appends = [c for c in walk_local(f) if isinstance(c, ast.Call) and call_attr(c) == "append"]
        ctx.check(len(appends) == 1, "headers/values-sanitised", q, f"{len(appends)} value append sites (one expected)")
        for c in appends:
            a = c.args[0] if c.args else None
            ctx.check(isinstance(a, ast.Call) and call_name(a) == "_sanitizeLinearWhitespace", "headers/values-sanitised", ctx.construct(q, c),
                      "a header value is stored without _sanitizeLinearWhitespace (CR/LF reaches the request head)")
        stores = [s for s in walk_local(f) if isinstance(s, ast.Assign) and any(isinstance(t, ast.Subscript) and src(t.value) == "self._rawHeaders" for t in s.targets)]
        for s in stores:
            lst = src(s.value)
            ok = any(isinstance(c.func, ast.Attribute) and src(c.func.value) == lst for c in appends) and \
                any(isinstance(x, ast.AnnAssign) and src(x.target) == lst and isinstance(x.value, ast.List) and not x.value.elts or
                    isinstance(x, ast.Assign) and src(x.targets[0]) == lst and isinstance(x.value, ast.List) and not x.value.elts for x in walk_local(f))
            ctx.check(ok, "headers/values-sanitised", ctx.construct(q, s), "the stored value list is not the locally built list of sanitised values")
        enc = [c for c in walk_local(f) if isinstance(c, ast.Call) and call_name(c) == "_nameEncoder.encode"]
        ctx.check(len(enc) == 1 and [src(a) for a in enc[0].args] == [param_names(f)[1]], "headers/names-validated", q, "the header name is not passed through _nameEncoder.encode")
    f = ctx.func(HH, "_NameEncoder.encode")
    g = ctx.cfg(f)
    q = "twisted.web.http_headers._NameEncoder.encode"
    raises = g.ids(lambda x: x.kind == "stmt" and isinstance(x.ast, ast.Raise))
    tok = [t for t in g.ids(lambda x: x.kind == "test") if isinstance(g.node(t).ast, ast.Call) and call_name(g.node(t).ast) == "_istoken"]
    ctx.check(len(tok) == 1 and any((tok[0], "F") in g.edge_guards(r) for r in raises), "headers/names-validated", q, "a non-token header name is not refused")
    for t in tok:
        # every store into the cache and every computed return happens on the token branch
        for n, st in assign_sites(g, lambda x: isinstance(x, ast.Subscript) and src(x.value) == "self._canonicalHeaderCache"):
            ctx.check((t, "T") in g.edge_guards(n), "headers/names-validated", ctx.construct(q, st), "a name is cached as canonical without having passed _istoken")


# ---- (b) the sink -----------------------------------------------------------------------------------
FRAMING_CONSTS = {b"Transfer-Encoding: chunked\r\n", b"Content-Length: 0\r\n"}


def _classify_line(node, f):
    """provenance class of one element appended to requestLines"""
    b = _bytes_const(node)
    if b is not None:
        return "const" if b.endswith(b"\r\n") and b.count(b"\n") == 1 else "BAD-const"
    if isinstance(node, ast.Name) and node.id in param_names(f):
        return "param:" + node.id
    if isinstance(node, ast.Call) and call_attr(node) == "join" and _bytes_const(node.func.value) == b" " and len(node.args) == 1 and isinstance(node.args[0], (ast.List, ast.Tuple)):
        return "request-line"
    return "BAD:" + src(node)[:60]


def _write_headers(ctx):
    f = ctx.func(P, "Request._writeHeaders")
    g = ctx.cfg(f)
    q = "twisted.web._newclient.Request._writeHeaders"
    tp = param_names(f)[1]
    writes = call_sites(g, lambda c: isinstance(c.func, ast.Attribute) and src(c.func.value) == tp)
    ctx.check(len(writes) == 1 and writes[0][1].func.attr == "writeSequence", "sink/single-write", q,
              f"the request head is written by {len(writes)} transport calls (one writeSequence at the end expected): a refused request may be partly written")
    if not writes:
        return
    wn, wc = writes[0]
    lst = src(wc.args[0]) if wc.args else "?"
    # what can raise must come before the write
    vals = named_calls(g, "_ensureValidMethod", "_ensureValidURI")
    raises = g.ids(lambda x: x.kind == "stmt" and isinstance(x.ast, ast.Raise))
    for n in [n for n, c in vals] + raises:
        w = g.path([wn], [n], strict=True)
        ctx.check(w is None, "sink/refused-before-write", ctx.construct(q, g.node(n).ast), "a refusal can happen after bytes were written", witness=g.describe(w))
    w = g.must_precede([n for n, c in vals if call_name(c) == "_ensureValidMethod"], [wn], exc=False) or \
        g.must_precede([n for n, c in vals if call_name(c) == "_ensureValidURI"], [wn], exc=False)
    ctx.check(len(vals) >= 2 and w is None, "sink/validated-at-sink", q, "method and target are not both re-validated before the write", witness=g.describe(w))
    # host test
    host = [r for r in raises if "BadHeaders" in src(g.node(r).ast)]
    ok = False
    for r in host:
        for t, lab in g.edge_guards(r):
            lc = g.node(t).ast
            if isinstance(lc, ast.Compare) and len(lc.ops) == 1 and isinstance(lc.ops[0], (ast.NotEq, ast.Eq)) and src(lc.left).startswith("len(") and src(lc.comparators[0]) == "1":
                if (isinstance(lc.ops[0], ast.NotEq)) == (lab == "T"):
                    ok = (t, "F" if lab == "T" else "T") in g.edge_guards(wn)
    ctx.check(ok, "sink/exactly-one-host", q, "the request is written without exactly one Host header having been established first")
    # provenance of every element
    n_el = 0
    for c in [c for n, c in call_sites(g, lambda c: isinstance(c.func, ast.Attribute) and src(c.func.value) == lst and c.func.attr in ("append", "extend", "insert"))]:
        n_el += 1
        a = c.args[-1]
        if c.func.attr == "append":
            k = _classify_line(a, f)
            if k == "request-line":
                parts = a.args[0].elts
                kinds = []
                for p_ in parts:
                    if isinstance(p_, ast.Call) and call_name(p_) == "_ensureValidMethod" and [src(x) for x in p_.args] == ["self.method"]:
                        kinds.append("method")
                    elif isinstance(p_, ast.Call) and call_name(p_) == "_ensureValidURI" and [src(x) for x in p_.args] == ["self.uri"]:
                        kinds.append("uri")
                    elif _bytes_const(p_) is not None:
                        kinds.append(_bytes_const(p_))
                    else:
                        kinds.append("BAD:" + src(p_))
                ctx.check(kinds == ["method", "uri", b"HTTP/1.1\r\n"], "sink/request-line", ctx.construct(q, c),
                          f"the request line is not `validated-method SP validated-target SP HTTP/1.1 CRLF`: {kinds}")
            elif k.startswith("param:"):
                nid = g.ids_of(c)[0]
                ctx.check(none_guard(g, nid, k[6:], False), "sink/provenance", ctx.construct(q, c), "the framing header parameter may be None when appended")
                extra = []
                for t, lab in g.edge_guards(nid):
                    e = g.node(t).ast
                    if cmp_polarity(e, k[6:], "None") is not None or src(e) == k[6:]:
                        continue
                    if isinstance(e, ast.Compare) and src(e.left).startswith("len(") and src(e.comparators[0]) == "1":
                        continue          # the exactly-one-Host test
                    if any(isinstance(x, ast.Name) and x.id == k[6:] for x in ast.walk(e)):
                        continue          # a test on the framing line itself (e.g. "is it a duplicate of the caller's"): judged by framing/head-matches-encoder
                    extra.append(src(e))
                ctx.check(not extra, "framing/line-unconditional", ctx.construct(q, c),
                          f"whether the framing line chosen by the caller is written also depends on {extra}: the caller has already committed to the matching body encoder, "
                          "so the head may announce a different framing than the body uses")
            else:
                ctx.check(k == "const", "sink/provenance", ctx.construct(q, c), f"an element of unknown provenance / not one CRLF-terminated line is written: {k}")
        elif c.func.attr == "extend":
            ok = False
            if isinstance(a, (ast.ListComp, ast.GeneratorExp)) and len(a.generators) == 1:
                elt = a.elt
                terms = []
                while isinstance(elt, ast.BinOp) and isinstance(elt.op, ast.Add):
                    terms.insert(0, elt.right)
                    elt = elt.left
                terms.insert(0, elt)
                loop = [s for s in walk_local(f) if isinstance(s, ast.For) and any(x is c for x in ast.walk(s))]
                if len(terms) == 4 and loop and src(loop[-1].iter) == "self.headers.getAllRawHeaders()" and isinstance(loop[-1].target, ast.Tuple):
                    nm, vs = [src(e) for e in loop[-1].target.elts]
                    ok = (src(terms[0]) == nm and _bytes_const(terms[1]) == b": " and src(terms[2]) == src(a.generators[0].target)
                          and src(a.generators[0].iter) == vs and _bytes_const(terms[3]) == b"\r\n" and not a.generators[0].ifs)
            ctx.check(ok, "sink/header-lines", ctx.construct(q, c), "header lines are not `name \": \" value CRLF` for every value of self.headers.getAllRawHeaders()")
        else:
            ctx.violation("sink/provenance", ctx.construct(q, c), "request lines inserted out of order")
    ctx.floor("sink/provenance", n_el, 4)
    # the list is created empty here, and the blank line is the last element before the write
    last = [n for n, c in call_sites(g, lambda c: isinstance(c.func, ast.Attribute) and src(c.func.value) == lst and c.func.attr == "append" and _bytes_const(c.args[0]) == b"\r\n")]
    others = [n for n, c in call_sites(g, lambda c: isinstance(c.func, ast.Attribute) and src(c.func.value) == lst and c.func.attr in ("append", "extend")) if n not in last]
    w = g.must_precede(last, [wn], exc=False)
    w2 = g.path(last, others, strict=True)
    ctx.check(bool(last) and w is None and w2 is None, "sink/head-terminated", q, "the head is not terminated by exactly one final empty line", witness=g.describe(w or w2))
    first = [n for n, c in call_sites(g, lambda c: isinstance(c.func, ast.Attribute) and src(c.func.value) == lst and c.func.attr == "append" and _classify_line(c.args[0], f) == "request-line")]
    w = g.must_precede(first, others, exc=False) if first else [g.entry]
    init = [st for n, st in assign_sites(g, lambda x: src(x) == lst) if isinstance(st.value, ast.List) and not st.value.elts]
    ctx.check(w is None and len(init) == 1, "sink/request-line", q + " | first", "the request line is not the first element of a fresh list", witness=g.describe(w) if w else "")
    # persistent -> Connection: close
    cc = [n for n, c in call_sites(g, lambda c: isinstance(c.func, ast.Attribute) and src(c.func.value) == lst and c.func.attr == "append" and _bytes_const(c.args[0]) == b"Connection: close\r\n")]
    ctx.check(len(cc) == 1 and truth_guard(g, cc[0], "self.persistent", False), "sink/connection-close", q, "`Connection: close` is not sent exactly for non-persistent requests")

    # every caller passes an acceptable framing header
    mod = ctx.mod(P)
    ncall = 0
    for qn, fn in class_functions(mod, "Request"):
        for c in walk_local(fn):
            if isinstance(c, ast.Call) and call_name(c) == "self._writeHeaders":
                ncall += 1
                a = c.args[1] if len(c.args) > 1 else None
                b = _bytes_const(a) if a is not None else None
                ok = a is not None and (src(a) == "None" or b in FRAMING_CONSTS or
                                        (isinstance(a, ast.Call) and call_name(a) == "networkString" and isinstance(a.args[0], ast.BinOp) and isinstance(a.args[0].op, ast.Mod)
                                         and isinstance(a.args[0].left, ast.Constant) and a.args[0].left.value == "Content-Length: %d\r\n"
                                         and src(a.args[0].right) in ("(self.bodyProducer.length,)", "self.bodyProducer.length")))
                ctx.check(ok, "sink/framing-header", ctx.construct("twisted.web._newclient." + qn, c),
                          "the framing header handed to _writeHeaders is not None, a constant framing line or the numeric Content-Length line")
    ctx.floor("sink/framing-header", ncall, 4)
    # __init__ validates
    f = ctx.func(P, "Request.__init__")
    for attr, val in (("method", "_ensureValidMethod"), ("uri", "_ensureValidURI")):
        sts = [s for s in walk_local(f) if isinstance(s, ast.Assign) and any(is_self_attr(t, attr) for t in s.targets)]
        ok = len(sts) == 1 and isinstance(sts[0].value, ast.Call) and call_name(sts[0].value) == val and [src(a) for a in sts[0].value.args] == [attr]
        ctx.check(ok, "sink/validated-at-construction", f"twisted.web._newclient.Request.__init__ | self.{attr}", f"self.{attr} is stored without {val}")


def _write_to(ctx):
    Q = "twisted.web._newclient.Request."
    f = ctx.func(P, "Request.writeTo")
    g = ctx.cfg(f)
    q = Q + "writeTo"
    ch = [n for n, c in named_calls(g, "self._writeToBodyProducerChunked")]
    cl = [n for n, c in named_calls(g, "self._writeToBodyProducerContentLength")]
    ctx.check(len(ch) == 1 and len(cl) == 1, "framing/choice", q, "writeTo does not have exactly one chunked and one Content-Length branch")
    for n in ch:
        ctx.check(guarded_eq(g, n, "self.bodyProducer.length", "UNKNOWN_LENGTH", True) and none_guard(g, n, "self.bodyProducer", False), "framing/choice",
                  ctx.construct(q, g.node(n).ast), "chunked framing is not chosen exactly for a body of unknown length")
    for n in cl:
        ctx.check(guarded_eq(g, n, "self.bodyProducer.length", "UNKNOWN_LENGTH", False) and none_guard(g, n, "self.bodyProducer", False), "framing/choice",
                  ctx.construct(q, g.node(n).ast), "Content-Length framing is not chosen exactly for a body of known length")
    nob = [n for n, c in named_calls(g, "self._writeHeaders", "self._writeToEmptyBodyContentLength")]
    ctx.check(len(nob) == 2 and all(none_guard(g, n, "self.bodyProducer", True) for n in nob), "framing/choice", q + " | no body",
              "the body-less forms are not confined to bodyProducer is None")
    for n, c in named_calls(g, "self._writeHeaders"):
        ctx.check(len(c.args) == 2 and src(c.args[1]) == "None", "framing/choice", ctx.construct(q, c), "a body-less request announces a body framing")
    w = g.path([g.entry], [g.exit], avoid=set(ch) | set(cl) | set(nob), edge_ok=lambda a, b, l: l != "exc")
    ctx.check(w is None, "framing/choice", q + " | every path writes", "writeTo can return without writing the request", witness=g.describe(w))

    pairs = (("_writeToBodyProducerChunked", b"Transfer-Encoding: chunked\r\n", "ChunkedEncoder"),
             ("_writeToBodyProducerContentLength", None, "LengthEnforcingConsumer"))
    for name, hdr, enc in pairs:
        f = ctx.func(P, "Request." + name)
        g = ctx.cfg(f)
        q = Q + name
        wh = named_calls(g, "self._writeHeaders")
        ctx.check(len(wh) == 1, "framing/pairing", q, "the head is not written exactly once")
        for n, c in wh:
            a = c.args[1] if len(c.args) > 1 else None
            ok = (_bytes_const(a) == hdr) if hdr is not None else (a is not None and "Content-Length: %d" in src(a))
            ctx.check(ok, "framing/pairing", ctx.construct(q, c), "the framing header does not match the body encoder used by this method")
            # head before anything else touching transport / producer
            tp = param_names(f)[1]
            other = [m for m, c2 in call_sites(g, lambda c2: isinstance(c2.func, ast.Attribute) and (src(c2.func.value) in (tp, "encoder", "self.bodyProducer"))) if m != n]
            w = g.must_precede([n], other)
            ctx.check(bool(other) and w is None, "framing/head-first", q, "the producer is registered / started before the request head is written", witness=g.describe(w))
        sp = named_calls(g, "self.bodyProducer.startProducing")
        ctx.check(len(sp) == 1, "framing/pairing", q + " | startProducing", "the body producer is not started exactly once")
        for n, c in sp:
            a = c.args[0] if c.args else None
            srcs_ = [s.value for s in walk_local(f) if isinstance(s, ast.Assign) and a is not None and any(src(t) == src(a) for t in s.targets)]
            ok = len(srcs_) == 1 and isinstance(srcs_[0], ast.Call) and call_name(srcs_[0]) == enc
            ctx.check(ok, "framing/pairing", ctx.construct(q, c), f"the body producer does not write into a {enc}: the body would be sent unframed / unchecked")
            if ok:
                args = [src(x) for x in srcs_[0].args]
                tp = param_names(f)[1]
                want = [tp] if enc == "ChunkedEncoder" else ["self.bodyProducer", tp, "finishedConsuming"]
                ctx.check(args == want, "framing/pairing", ctx.construct(q, srcs_[0]), f"the encoder is not built over the transport: {args}")
    # chunked completion: success writes the terminator, failure must not
    cb = ctx.func(P, "Request._writeToBodyProducerChunked.cbProduced")
    eb = ctx.func(P, "Request._writeToBodyProducerChunked.ebProduced")
    q = Q + "_writeToBodyProducerChunked"
    ctx.check(any(isinstance(c, ast.Call) and call_name(c) == "encoder.unregisterProducer" for c in ast.walk(cb)), "chunked/terminator-on-success", q + ".cbProduced",
              "a successfully produced body is not terminated with the last-chunk")
    bad = [c for c in ast.walk(eb) if isinstance(c, ast.Call) and call_name(c) in ("encoder.unregisterProducer", "encoder._writeChunk", "encoder.write")]
    ctx.check(not bad, "chunked/no-terminator-on-failure", q + ".ebProduced", "a failed body is terminated as if complete (the server would accept a truncated request)")
    ok = any(isinstance(c, ast.Call) and call_name(c) == "encoder._allowNoMoreWrites" for c in ast.walk(eb)) and \
        any(isinstance(s, ast.Return) and src(s.value) == param_names(eb)[0] for s in ast.walk(eb))
    ctx.check(ok, "chunked/no-terminator-on-failure", q + ".ebProduced | closes encoder, propagates failure", "the failure path does not close the encoder and pass the failure on")
    f = ctx.func(P, "Request._writeToBodyProducerChunked")
    reg = [c for c in walk_local(f) if isinstance(c, ast.Call) and call_attr(c) == "addCallbacks"]
    ctx.check(len(reg) == 1 and [src(a) for a in reg[0].args] == ["cbProduced", "ebProduced"], "chunked/terminator-on-success", q + " | addCallbacks",
              "cbProduced / ebProduced are not attached as callback / errback of the producer Deferred")
    # content-length completion: shortfall check inside a catch-all try
    cp = ctx.func(P, "Request._writeToBodyProducerContentLength.combine.cbProducing")
    q = Q + "_writeToBodyProducerContentLength.combine.cbProducing"
    chk = [c for c in ast.walk(cp) if isinstance(c, ast.Call) and call_name(c) == "encoder._noMoreWritesExpected"]
    ctx.check(len(chk) == 1 and catches_everything(enclosing_try_handlers(cp, chk[0])), "length/shortfall-checked", q,
              "the produced length is not verified (inside a catch-all try) when the producer finishes")
    g = ctx.cfg(cp)
    for n, c in named_calls(g, "ultimate.callback"):
        w = g.must_precede([m for m, _ in named_calls(g, "encoder._noMoreWritesExpected")], [n])
        ctx.check(w is None, "length/shortfall-checked", ctx.construct(q, c), "success is reported before the length check", witness=g.describe(w))


# ---- head-announced framing == body encoder, by finite evaluation of writeTo and its helpers ------------------------
class _Headers:
    _sa_model = True

    def __init__(self, raw):
        self.raw = dict(raw)

    def getRawHeaders(self, name, default=None):
        for k, v in self.raw.items():
            if k.lower() == name.lower():
                return list(v)
        return default

    def hasHeader(self, name):
        return self.getRawHeaders(name) is not None

    def getAllRawHeaders(self):
        return list(self.raw.items())


class _Transport:
    _sa_model = True

    def __init__(self):
        self.out = []

    def writeSequence(self, seq):
        self.out.extend(seq)

    def write(self, data):
        self.out.append(data)

    def registerProducer(self, *a):
        return None

    def unregisterProducer(self):
        return None


class _Obj:
    _sa_model = True

    def __init__(self, kind, *args):
        self.kind = kind
        self.args = args

    def __getattr__(self, name):
        if name.startswith("__"):
            raise AttributeError(name)
        return lambda *a, **k: _Obj("result-of-" + name)


class _Producer:
    _sa_model = True

    def __init__(self, length):
        self.length = length
        self.consumers = []

    def startProducing(self, consumer):
        self.consumers.append(consumer)
        return _Obj("deferred")

    def stopProducing(self):
        return None


UNKNOWN = object()


def _framing_agreement(ctx):
    fns = {n: ctx.func(P, "Request." + n) for n in ("writeTo", "_writeHeaders", "_writeToBodyProducerChunked", "_writeToBodyProducerContentLength", "_writeToEmptyBodyContentLength")}
    q = "twisted.web._newclient.Request.writeTo"
    bad = []
    n = 0
    caller_sets = {"plain": {}, "caller Content-Length": {b"Content-Length": [b"5"]}, "caller Transfer-Encoding": {b"Transfer-Encoding": [b"chunked"]}}
    bodies = {"no body": None, "known length 5": 5, "known length 0": 0, "unknown length": UNKNOWN}
    try:
        for cname, extra in caller_sets.items():
            for bname, length in bodies.items():
                for method in (b"GET", b"POST"):
                    n += 1
                    hdrs = _Headers({b"Host": [b"example.com"], **extra})
                    tr = _Transport()
                    prod = None if length is None else _Producer(length)
                    selfm = _Obj("self")
                    mapping = {"self.headers": hdrs, "self.method": method, "self.uri": b"/", "self.persistent": False, "self.bodyProducer": prod, "UNKNOWN_LENGTH": UNKNOWN}
                    funcs = {"_ensureValidMethod": lambda m: m, "_ensureValidURI": lambda u: u, "networkString": lambda s_: s_.encode("ascii"),
                             "ChunkedEncoder": lambda t: _Obj("ChunkedEncoder", t), "LengthEnforcingConsumer": lambda *a: _Obj("LengthEnforcingConsumer", *a),
                             "Deferred": lambda *a: _Obj("deferred"), "succeed": lambda *a: _Obj("deferred"), "fail": lambda *a: _Obj("deferred")}

                    def call(name, funcs=funcs, mapping=mapping, selfm=selfm):
                        def run(*args):
                            f = fns[name]
                            ps = param_names(f)[1:]
                            kind, val = interpret(f, dict(zip(ps, args), self=selfm), mapping, funcs=funcs, nested_call=lambda *a: _Obj("deferred"))
                            if kind == "raise":
                                raise RuntimeError(val)
                            return val
                        return run
                    for name in fns:
                        funcs["self." + name] = call(name)
                    funcs["self._writeHeaders"] = call("_writeHeaders")
                    try:
                        call("writeTo")(tr)
                    except RuntimeError as e:
                        bad.append((cname, bname, method, f"raises {e}"))
                        continue
                    head = b"".join(x for x in tr.out if isinstance(x, bytes))
                    lines = [l for l in head.split(b"\r\n") if b":" in l]
                    fields = [(l.split(b":", 1)[0].strip().lower(), l.split(b":", 1)[1].strip()) for l in lines]
                    used = [getattr(c, "kind", type(c).__name__.strip("_")) for c in (prod.consumers if prod else [])]
                    why = None
                    if not head.endswith(b"\r\n\r\n") or not head.startswith(method + b" / HTTP/1.1\r\n"):
                        why = f"the head is not one complete request head: {head[:60]!r}"
                    elif length is None and used:
                        why = "a body is produced for a request without a body producer"
                    elif length is UNKNOWN and (used != ["ChunkedEncoder"] or (b"transfer-encoding", b"chunked") not in fields):
                        why = f"the body is written through {used or 'nothing'} while the head announces {fields}"
                    elif isinstance(length, int) and (used != ["LengthEnforcingConsumer"] or (b"content-length", str(length).encode()) not in fields):
                        why = f"the body is written through {used or 'nothing'} (exactly {length} bytes) while the head announces {fields}"
                    elif length is None and method == b"POST" and (b"content-length", b"0") not in fields and not extra:
                        why = "a body-less POST does not announce Content-Length: 0"
                    if why:
                        bad.append((cname, bname, method, why))
    except InterpError as e:
        raise AnalysisError(f"C24: writeTo / _writeHeaders use a construct the evaluator cannot interpret: {e}")
    msg = ""
    if bad:
        c_, b_, m_, why = bad[0]
        msg = f"{m_.decode()} request, headers: {c_}, body: {b_}: {why}; an independent parser would frame the body differently from what is written ({len(bad)} of {n} cases)"
    ctx.check(not bad, "framing/head-matches-encoder", q + " | <headers x body grid>", msg, detail=f"{n} (caller headers, body kind, method) cases")
    ctx.extra["finite_cases_framing"] = n


# ---- (c) ChunkedEncoder -------------------------------------------------------------------------------
def _chunk_emitters(mod):
    """methods of ChunkedEncoder that emit `size CRLF data CRLF` through transport.writeSequence"""
    out = {}
    for qn, fn in class_functions(mod, "ChunkedEncoder"):
        for c in walk_local(fn):
            if isinstance(c, ast.Call) and call_name(c) in ("self.transport.writeSequence", "self.transport.write"):
                out[qn.split(".")[-1]] = (fn, c)
    return out


def _chunked(ctx):
    mod = ctx.mod(P)
    Q = "twisted.web._newclient.ChunkedEncoder."
    em = _chunk_emitters(mod)
    ctx.check(len(em) == 1, "chunked/format", Q + "<emitters>", f"chunk bytes are written from {sorted(em)} (one emitter expected)")
    for name, (fn, c) in em.items():
        dp = param_names(fn)[1] if len(param_names(fn)) > 1 else "data"
        a = c.args[0] if c.args else None
        ok = False
        why = "not a 3-part sequence"
        if isinstance(a, (ast.Tuple, ast.List)) and len(a.elts) == 3:
            size, body, end = a.elts
            fmt = size.args[0] if isinstance(size, ast.Call) and call_name(size) == "networkString" and size.args else size
            okfmt = isinstance(fmt, ast.BinOp) and isinstance(fmt.op, ast.Mod) and isinstance(fmt.left, ast.Constant) and \
                fmt.left.value in ("%x\r\n", "%X\r\n", b"%x\r\n", b"%X\r\n") and src(fmt.right) in (f"len({dp})", f"(len({dp}),)")
            ok = okfmt and src(body) == dp and _bytes_const(end) == b"\r\n"
            why = f"size={src(size)} body={src(body)} end={src(end)}"
        ctx.check(ok, "chunked/format", ctx.construct(Q + name, c), "a chunk is not written as hex(len(data)) CRLF data CRLF: " + why)
    emitter_names = set(em)
    # write(): never emits for empty data; refuses after the end
    f = ctx.func(P, "ChunkedEncoder.write")
    g = ctx.cfg(f)
    q = Q + "write"
    dp = param_names(f)[1]
    emits = call_sites(g, lambda c: call_name(c) in ("self.transport.writeSequence", "self.transport.write") or
                       (isinstance(c.func, ast.Attribute) and is_self_attr(c.func) and c.func.attr in emitter_names))
    ctx.check(len(emits) >= 1, "chunked/write-emits", q, "write() no longer emits a chunk")
    for n, c in emits:
        nonempty = truth_guard(g, n, dp, True) or any(
            (lincmp(g.node(t).ast, negate=(lab == "F")) == lin_expect({f"len({dp})": 1}, 1)) for t, lab in g.edge_guards(n)) or \
            any(cmp_polarity(g.node(t).ast, dp, "b''") is not None and (cmp_polarity(g.node(t).ast, dp, "b''") != (lab == "T")) for t, lab in g.edge_guards(n))
        ctx.check(nonempty, "chunked/empty-write-not-encoded", ctx.construct(q, c),
                  "an empty write is encoded as a zero-length chunk, which is the end-of-body marker: the body ends early and later chunks are read as a new request")
        ctx.check(none_guard(g, n, "self.transport", False), "chunked/refuses-after-end", ctx.construct(q, c), "write() after the end of the body is not refused")
        if isinstance(c.func, ast.Attribute) and c.func.attr in emitter_names:
            ctx.check([src(a) for a in c.args] == [dp], "chunked/format", ctx.construct(q, c) + " | payload", "the chunk payload is not the data written")
    raises = g.ids(lambda x: x.kind == "stmt" and isinstance(x.ast, ast.Raise) and "ExcessWrite" in src(x.ast))
    ctx.check(len(raises) == 1 and none_guard(g, raises[0], "self.transport", True), "chunked/refuses-after-end", q + " | raise ExcessWrite", "ExcessWrite is not raised exactly when the encoder is closed")
    # unregisterProducer: terminator exactly once, then close
    f = ctx.func(P, "ChunkedEncoder.unregisterProducer")
    g = ctx.cfg(f)
    q = Q + "unregisterProducer"
    term = call_sites(g, lambda c: (isinstance(c.func, ast.Attribute) and is_self_attr(c.func) and c.func.attr in emitter_names and len(c.args) == 1 and _bytes_const(c.args[0]) == b"") or
                      (call_name(c) in ("self.transport.write",) and _bytes_const(c.args[0]) == b"0\r\n\r\n"))
    ctx.check(len(term) == 1, "chunked/terminator", q, f"the last-chunk is written at {len(term)} sites (exactly one expected)")
    closes = [n for n, c in named_calls(g, "self._allowNoMoreWrites")]
    unreg = [n for n, c in named_calls(g, "self.transport.unregisterProducer")]
    for n, c in term:
        ctx.check(none_guard(g, n, "self.transport", False), "chunked/refuses-after-end", ctx.construct(q, c), "a second unregisterProducer writes a second terminator")
        w = g.must_pass([n], closes, exc=False)
        ctx.check(bool(closes) and w is None, "chunked/terminator", ctx.construct(q, c) + " | then closed", "the encoder stays open after the terminator", witness=g.describe(w))
        w = g.must_precede([n], closes + unreg)
        ctx.check(w is None, "chunked/terminator", ctx.construct(q, c) + " | before close", "the encoder is closed / the producer unregistered before the terminator is written",
                  witness=g.describe(w))
    w = g.must_pass([g.entry], [n for n, c in term], exc=False)
    ctx.check(w is None, "chunked/terminator", q + " | every normal path", "unregisterProducer can return without terminating the body", witness=g.describe(w))
    f = ctx.func(P, "ChunkedEncoder._allowNoMoreWrites")
    ok = any(isinstance(s, ast.Assign) and any(is_self_attr(t, "transport") for t in s.targets) and src(s.value) == "None" for s in walk_local(f))
    ctx.check(ok, "chunked/refuses-after-end", Q + "_allowNoMoreWrites", "closing the encoder does not drop the transport")


# ---- (d) LengthEnforcingConsumer --------------------------------------------------------------------------
def _length(ctx):
    Q = "twisted.web._newclient.LengthEnforcingConsumer."
    f = ctx.func(P, "LengthEnforcingConsumer.write")
    g = ctx.cfg(f)
    q = Q + "write"
    dp = param_names(f)[1]
    fw = named_calls(g, "self._consumer.write")
    ctx.check(len(fw) == 1, "length/forward-boundary", q, "write() does not forward at exactly one site")
    want = lin_expect({"self._length": 1, f"len({dp})": -1}, 0)
    dec = [n for n, st in assign_sites(g, lambda x: is_self_attr(x, "_length")) if isinstance(st, ast.AugAssign) and isinstance(st.op, ast.Sub) and src(st.value) == f"len({dp})"]
    for n, c in fw:
        ok = any(lincmp(g.node(t).ast, negate=(lab == "F")) == want for t, lab in g.edge_guards(n))
        ctx.check(ok, "length/forward-boundary", ctx.construct(q, c), "bytes are forwarded under a condition other than len(bytes) <= remaining length")
        ctx.check([src(a) for a in c.args] == [dp], "length/forward-boundary", ctx.construct(q, c) + " | payload", "the forwarded bytes are not the bytes written")
        ctx.check(none_guard(g, n, "self._finished", False), "length/refuses-after-end", ctx.construct(q, c), "bytes are forwarded after the consumer was closed")
        w = g.must_precede(dec, [n]) if dec else [g.entry]
        ctx.check(bool(dec) and w is None, "length/coupled-decrement", ctx.construct(q, c), "the remaining length is not decremented together with the forward",
                  witness=g.describe(w) if dec else "")
    for n in dec:
        ok = any(lincmp(g.node(t).ast, negate=(lab == "F")) == want for t, lab in g.edge_guards(n))
        ctx.check(ok and from_here(g, [n], [m for m, c in fw]) is None, "length/coupled-decrement", ctx.construct(q, g.node(n).ast),
                  "the remaining length is decremented on a path that does not forward the bytes")
    ctx.check(len(dec) == 1, "length/coupled-decrement", q + " | one decrement", "the remaining length is not decremented exactly once per write")
    eb = call_sites(g, lambda c: call_name(c) == "self._finished.errback")
    ctx.check(len(eb) == 1 and "WrongBodyLength" in src(eb[0][1]), "length/excess-reported", q, "excess bytes are not reported through the _finished Deferred")
    for n, c in eb:
        ok = any(lincmp(g.node(t).ast, negate=(lab == "F")) == lin_expect({"self._length": -1, f"len({dp})": 1}, 1) for t, lab in g.edge_guards(n))
        ctx.check(ok, "length/excess-reported", ctx.construct(q, c), "WrongBodyLength is reported under a condition other than len(bytes) > remaining length")
        cl = [m for m, _ in named_calls(g, "self._allowNoMoreWrites")] + [m for m, st in assign_sites(g, lambda x: is_self_attr(x, "_finished")) if src(st.value) == "None"]
        w = g.must_pass([n], cl, exc=False)
        ctx.check(bool(cl) and w is None, "length/excess-reported", ctx.construct(q, c) + " | then closed", "the consumer stays open after reporting excess (errback would fire twice)",
                  witness=g.describe(w))
        sp = [m for m, _ in named_calls(g, "self._producer.stopProducing")]
        w = g.must_precede(sp, [n], exc=False)
        ctx.check(bool(sp) and w is None, "length/excess-reported", ctx.construct(q, c) + " | producer stopped", "the producer is not stopped on excess", witness=g.describe(w))
    raises = g.ids(lambda x: x.kind == "stmt" and isinstance(x.ast, ast.Raise) and "ExcessWrite" in src(x.ast))
    ctx.check(len(raises) == 1 and none_guard(g, raises[0], "self._finished", True), "length/refuses-after-end", q + " | raise ExcessWrite", "ExcessWrite is not raised exactly when the consumer is closed")
    f = ctx.func(P, "LengthEnforcingConsumer._noMoreWritesExpected")
    g = ctx.cfg(f)
    q = Q + "_noMoreWritesExpected"
    raises = g.ids(lambda x: x.kind == "stmt" and isinstance(x.ast, ast.Raise) and "WrongBodyLength" in src(x.ast))
    ok = len(raises) == 1
    if ok:
        r = raises[0]
        nz = truth_guard(g, r, "self._length", True) or guarded_eq(g, r, "self._length", "0", False) or any(
            lincmp(g.node(t).ast, negate=(lab == "F")) == lin_expect({"self._length": 1}, 1) for t, lab in g.edge_guards(r))
        ok = nz and none_guard(g, r, "self._finished", False)
    ctx.check(ok, "length/shortfall-reported", q, "a body shorter than announced is not reported (raise WrongBodyLength exactly when bytes remain)")
    f = ctx.func(P, "LengthEnforcingConsumer.__init__")
    ok = any(isinstance(s, ast.Assign) and any(is_self_attr(t, "_length") for t in s.targets) and src(s.value) == f"{param_names(f)[1]}.length" for s in walk_local(f))
    ctx.check(ok, "length/forward-boundary", Q + "__init__", "the remaining length does not start at producer.length")


# ---------------------------------------------------------------------------------------------------------
MUTANTS = [
    Mutant("framing-line-dropped-when-caller-set-a-length", P, "        if TEorCL is not None:\n            requestLines.append(TEorCL)", "        if TEorCL is not None and self.headers.getRawHeaders(b\"Content-Length\") is None:\n            requestLines.append(TEorCL)"),
    Mutant("revert-F24-empty-write-encoded", P,
           "        if data:\n            # A zero-length chunk is the end-of-body marker, so an empty write\n            # must not be encoded as a chunk.\n            self._writeChunk(data)\n",
           "        self._writeChunk(data)\n"),
    Mutant("uri-dollar-anchor", P, 'rb"\\A[\\x21-\\x7e]+\\Z"', 'rb"\\A[\\x21-\\x7e]+$"'),
    Mutant("uri-allows-space", P, 'rb"\\A[\\x21-\\x7e]+\\Z"', 'rb"\\A[\\x20-\\x7e]+\\Z"'),
    Mutant("uri-allows-del", P, 'rb"\\A[\\x21-\\x7e]+\\Z"', 'rb"\\A[\\x21-\\x7f]+\\Z"'),
    Mutant("token-allows-colon", A, "            b\"!#$%&'*+-.^_`|~\"\n        ):\n            return False\n    return b != b\"\"\n\n\ndef _decint", "            b\"!#$%&'*+-.^_`|~:\"\n        ):\n            return False\n    return b != b\"\"\n\n\ndef _decint"),
    Mutant("token-accepts-empty", A, "            return False\n    return b != b\"\"\n\n\ndef _decint", "            return False\n    return True\n\n\ndef _decint"),
    Mutant("sink-skips-uri-validation", P, "                    _ensureValidURI(self.uri),\n                    b\"HTTP/1.1\\r\\n\",", "                    self.uri,\n                    b\"HTTP/1.1\\r\\n\","),
    Mutant("init-skips-method-validation", P, "        self.method = _ensureValidMethod(method)\n", "        self.method = method\n"),
    Mutant("request-line-written-early", P, "        if not self.persistent:\n            requestLines.append(b\"Connection: close\\r\\n\")",
           "        transport.writeSequence(requestLines)\n        requestLines = []\n        if not self.persistent:\n            requestLines.append(b\"Connection: close\\r\\n\")"),
    Mutant("host-check-after-write", P, "        hosts = self.headers.getRawHeaders(b\"Host\", ())\n        if len(hosts) != 1:\n            raise BadHeaders(\"Exactly one Host header required\")\n", "",
           more=[(P, "        transport.writeSequence(requestLines)\n\n    def _writeToBodyProducerChunked",
                  "        transport.writeSequence(requestLines)\n        hosts = self.headers.getRawHeaders(b\"Host\", ())\n        if len(hosts) != 1:\n            raise BadHeaders(\"Exactly one Host header required\")\n\n    def _writeToBodyProducerChunked")]),
    Mutant("chunk-size-decimal", P, "            (networkString(\"%x\\r\\n\" % len(data)), data, b\"\\r\\n\")", "            (networkString(\"%d\\r\\n\" % len(data)), data, b\"\\r\\n\")"),
    Mutant("terminator-on-producer-failure", P, "            encoder._allowNoMoreWrites()\n            # Don't call the encoder's unregisterProducer",
           "            encoder.unregisterProducer()\n            encoder._allowNoMoreWrites()\n            # Don't call the encoder's unregisterProducer"),
    Mutant("chunked-producer-writes-to-transport", P, "        d = self.bodyProducer.startProducing(encoder)\n\n        def cbProduced", "        d = self.bodyProducer.startProducing(transport)\n\n        def cbProduced"),
    Mutant("unknown-length-test-inverted", P, "        elif self.bodyProducer.length is UNKNOWN_LENGTH:", "        elif self.bodyProducer.length is not UNKNOWN_LENGTH:"),
    Mutant("length-boundary-strict", P, "        if len(bytes) <= self._length:", "        if len(bytes) < self._length:"),
    Mutant("length-not-decremented", P, "            self._length -= len(bytes)\n            self._consumer.write(bytes)\n", "            self._consumer.write(bytes)\n"),
    Mutant("shortfall-off-by-one", P, "            if self._length:\n                raise WrongBodyLength(\"too few bytes written\")", "            if self._length > 1:\n                raise WrongBodyLength(\"too few bytes written\")"),
    Mutant("excess-keeps-consumer-open", P, "            self._finished.errback(WrongBodyLength(\"too many bytes written\"))\n            self._allowNoMoreWrites()\n",
           "            self._finished.errback(WrongBodyLength(\"too many bytes written\"))\n"),
    Mutant("header-value-not-sanitised", HH, "            encodedValues.append(_sanitizeLinearWhitespace(_v))", "            encodedValues.append(_v)"),
    Mutant("double-terminator-possible", P, "        if self.transport is None:\n            raise ExcessWrite()\n        self._writeChunk(b\"\")", "        self._writeChunk(b\"\")"),
    Mutant("producer-started-before-head", P,
           "        self._writeHeaders(transport, b\"Transfer-Encoding: chunked\\r\\n\")\n        encoder = ChunkedEncoder(transport)\n        encoder.registerProducer(self.bodyProducer, True)\n",
           "        encoder = ChunkedEncoder(transport)\n        encoder.registerProducer(self.bodyProducer, True)\n        self._writeHeaders(transport, b\"Transfer-Encoding: chunked\\r\\n\")\n"),
]
SILENT = [
    Silent("duplicate-content-length-line-skipped", P, "        if TEorCL is not None:\n            requestLines.append(TEorCL)",
           "        if TEorCL is not None:\n            mine = TEorCL.split(b\":\", 1)\n            theirs = self.headers.getRawHeaders(b\"Content-Length\") or []\n            if not (mine[0].lower() == b\"content-length\" and [mine[1].strip()] == theirs):\n                requestLines.append(TEorCL)"),
    Silent("duplicate-content-length-single-test", P, "        if TEorCL is not None:\n            requestLines.append(TEorCL)",
           "        if TEorCL is not None:\n            dupes = [b\"Content-Length: \" + v + b\"\\r\\n\" for v in self.headers.getRawHeaders(b\"Content-Length\", [])]\n            if TEorCL not in dupes:\n                requestLines.append(TEorCL)"),
    Silent("chunk-size-uppercase-hex", P, "            (networkString(\"%x\\r\\n\" % len(data)), data, b\"\\r\\n\")", "            (networkString(\"%X\\r\\n\" % len(data)), data, b\"\\r\\n\")"),
    Silent("empty-write-early-return", P,
           "        if data:\n            # A zero-length chunk is the end-of-body marker, so an empty write\n            # must not be encoded as a chunk.\n            self._writeChunk(data)\n",
           "        if not data:\n            return\n        self._writeChunk(data)\n"),
    Silent("empty-write-len-test", P,
           "        if data:\n            # A zero-length chunk is the end-of-body marker, so an empty write\n            # must not be encoded as a chunk.\n            self._writeChunk(data)\n",
           "        if len(data) > 0:\n            self._writeChunk(data)\n"),
    Silent("length-boundary-flipped", P, "        if len(bytes) <= self._length:", "        if not len(bytes) > self._length:"),
    Silent("host-test-flipped", P, "        if len(hosts) != 1:\n            raise BadHeaders(\"Exactly one Host header required\")\n",
           "        if len(hosts) == 1:\n            pass\n        else:\n            raise BadHeaders(\"Exactly one Host header required\")\n"),
    Silent("shortfall-explicit-compare", P, "            if self._length:\n                raise WrongBodyLength(\"too few bytes written\")", "            if self._length != 0:\n                raise WrongBodyLength(\"too few bytes written\")"),
]
