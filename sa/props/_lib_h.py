"""Helpers shared by the conch checkers C35-C39 (batch H).  Stdlib + sa engine only."""
from __future__ import annotations

import ast
from typing import Callable, Dict, Iterable, List, Optional, Tuple

from sa.astx import _lin, dotted, src, walk_local
from sa.source import AnalysisError


# ---- small AST predicates ---------------------------------------------------------------

def is_attr(node, base: str, name: str) -> bool:
    """node is ``<base>.<name>`` where base is a dotted chain such as "self" or "state.him"."""
    return isinstance(node, ast.Attribute) and node.attr == name and dotted(node.value) == base


def self_attr(node, name: str) -> bool:
    return is_attr(node, "self", name)


def const_is(node, value) -> bool:
    return isinstance(node, ast.Constant) and type(node.value) is type(value) and node.value == value


def is_empty_const(node) -> bool:
    """b"" / "" / [] / () / list() ..."""
    if isinstance(node, ast.Constant) and node.value in (b"", ""):
        return True
    if isinstance(node, (ast.List, ast.Tuple)) and not node.elts:
        return True
    if isinstance(node, ast.Call) and dotted(node.func) in ("list", "bytes", "bytearray", "tuple") and not node.args:
        return True
    return False


def assigned_pairs(st: ast.stmt) -> List[Tuple[ast.expr, Optional[ast.expr]]]:
    """(target, value) pairs of an assignment; tuple assignments ``a, b = x, y`` are paired
    element-wise, chained assignments ``a = b = v`` give one pair per target.  A value of None
    means "not statically paired" (unpacking of a call result...)."""
    out: List[Tuple[ast.expr, Optional[ast.expr]]] = []
    if isinstance(st, ast.Assign):
        for t in st.targets:
            if isinstance(t, (ast.Tuple, ast.List)):
                if isinstance(st.value, (ast.Tuple, ast.List)) and len(st.value.elts) == len(t.elts):
                    out.extend(zip(t.elts, st.value.elts))
                else:
                    out.extend((e, None) for e in t.elts)
            else:
                out.append((t, st.value))
    elif isinstance(st, ast.AnnAssign) and st.value is not None:
        out.append((st.target, st.value))
    return out


def stmt_assigns(st, pred_target: Callable[[ast.expr], bool]) -> List[Optional[ast.expr]]:
    """values assigned by statement ``st`` to targets satisfying pred."""
    return [v for t, v in assigned_pairs(st) if pred_target(t)]


def local_aliases(func: ast.AST, allow=lambda v: isinstance(v, ast.Attribute)) -> Dict[str, ast.expr]:
    """Local names assigned exactly once in ``func`` from an attribute chain (``ms = self.x.y``)."""
    count: Dict[str, int] = {}
    val: Dict[str, ast.expr] = {}
    for n in ast.walk(func):
        if isinstance(n, (ast.Assign, ast.AnnAssign, ast.AugAssign, ast.For, ast.With, ast.NamedExpr)):
            if isinstance(n, ast.Assign):
                for t, v in assigned_pairs(n):
                    if isinstance(t, ast.Name):
                        count[t.id] = count.get(t.id, 0) + 1
                        if v is not None:
                            val[t.id] = v
            else:
                tg = getattr(n, "target", None)
                for t in ast.walk(tg) if tg is not None else []:
                    if isinstance(t, ast.Name):
                        count[t.id] = count.get(t.id, 0) + 1
                        if isinstance(n, ast.AnnAssign) and n.value is not None and t is tg:
                            val[t.id] = n.value
    args = getattr(func, "args", None)
    params = {a.arg for a in (args.args + args.kwonlyargs + args.posonlyargs)} if args else set()
    return {k: v for k, v in val.items() if count.get(k) == 1 and k not in params and allow(v)}


def reparse(expr: ast.AST) -> ast.AST:
    """Fresh copy of an expression without the engine's _parent links (deepcopy would follow them up
    to the whole module)."""
    return ast.parse(src(expr), mode="eval").body


class _Subst(ast.NodeTransformer):
    def __init__(self, table: Dict[str, str]):
        self.table = table
        self.hit = False

    def visit_Name(self, node):
        if isinstance(node.ctx, ast.Load) and node.id in self.table:
            self.hit = True
            return ast.parse(self.table[node.id], mode="eval").body
        return node


def canon(expr: ast.AST, aliases: Dict[str, ast.expr]) -> ast.AST:
    """Copy of expr with single-assignment local aliases replaced by what they stand for."""
    e = reparse(expr)
    if not aliases:
        return e
    table = {k: src(v) for k, v in aliases.items()}
    for _ in range(3):
        sub = _Subst(table)
        e = sub.visit(e)
        if not sub.hit:
            break
    return ast.fix_missing_locations(e)


def csrc(expr, aliases) -> str:
    return src(canon(expr, aliases))


def lin(expr: ast.AST, aliases: Optional[Dict[str, ast.expr]] = None, env=None) -> Tuple[frozenset, int]:
    """Linear normal form (terms, const) of an integer expression after alias substitution."""
    t, c = _lin(canon(expr, aliases or {}), env or {})
    return frozenset((k, v) for k, v in t.items() if v), c


def lincmp_c(test, aliases=None, env=None, negate=False):
    from sa.astx import lincmp
    return lincmp(canon(test, aliases or {}), env or {}, negate)


def truthiness(test: ast.AST, is_target: Callable[[ast.AST], bool]) -> Optional[bool]:
    """If the atomic test is equivalent to ``bool(target)`` return True, to ``not target`` False,
    otherwise None.  Recognises ``x``, ``x > 0``, ``x != 0``, ``x >= 1``, ``len(x) > 0``, ``x == 0``,
    ``x is not None`` is *not* truthiness and returns None."""
    neg = False
    while isinstance(test, ast.UnaryOp) and isinstance(test.op, ast.Not):
        neg = not neg
        test = test.operand
    if is_target(test):
        return not neg
    if isinstance(test, ast.Call) and dotted(test.func) in ("bool", "len") and len(test.args) == 1 and is_target(test.args[0]):
        return not neg
    if isinstance(test, ast.Compare) and len(test.ops) == 1:
        l, r, op = test.left, test.comparators[0], test.ops[0]
        if isinstance(l, ast.Call) and dotted(l.func) == "len" and len(l.args) == 1:
            l = l.args[0]
        if is_target(l) and isinstance(r, ast.Constant) and type(r.value) is int:
            k = r.value
            if (isinstance(op, ast.Gt) and k == 0) or (isinstance(op, ast.NotEq) and k == 0) or (isinstance(op, ast.GtE) and k == 1):
                return not neg
            if (isinstance(op, ast.Eq) and k == 0) or (isinstance(op, ast.LtE) and k == 0) or (isinstance(op, ast.Lt) and k == 1):
                return neg
    return None


# ---- CFG helpers -------------------------------------------------------------------------

def edge_path(g, srcs: Iterable[int], dsts: Iterable[int], avoid_nodes: Iterable[int] = (),
              avoid_edges: Iterable[Tuple[int, Optional[str]]] = (), exc: bool = False, strict: bool = False) -> Optional[List[int]]:
    """Shortest path srcs -> dsts avoiding nodes and (node, label) out-edges.  Implicit
    exception edges are ignored unless exc=True (explicit raises are followed)."""
    ae = set(avoid_edges)
    avoid_nodes = set(avoid_nodes)
    srcs = [s for s in srcs if s not in avoid_nodes]   # a path *starting* on an avoided node does not count
    if not srcs:
        return None

    def ok(a, b, l):
        if not exc and l == "exc":
            return False
        return (a, l) not in ae

    return g.path(list(srcs), set(dsts), avoid=set(avoid_nodes), edge_ok=ok, strict=strict)


def succ_on(g, n: int, label: str) -> List[int]:
    return [d for d, l in g.succ[n] if l == label]


def tests(g, pred: Callable[[ast.AST], bool]) -> List[int]:
    return g.ids(lambda n: n.kind == "test" and pred(n.ast))


def stmts(g, pred: Callable[[ast.stmt], bool]) -> List[int]:
    return g.ids(lambda n: n.kind == "stmt" and pred(n.ast))


def call_nodes(g, pred: Callable[[ast.Call], bool]) -> List[int]:
    return g.find(lambda x: isinstance(x, ast.Call) and pred(x))


def calls_at(g, nid: int, pred: Callable[[ast.Call], bool]) -> List[ast.Call]:
    n = g.node(nid)
    roots = [n.ast]
    if n.kind == "for":
        roots = [n.ast.iter]
    elif n.kind == "with":
        roots = [it.context_expr for it in n.ast.items]
    return [x for r in roots for x in walk_local(r) if isinstance(x, ast.Call) and pred(x)]


def truth_edges(g, is_target: Callable[[ast.AST], bool], want_truthy: bool) -> List[Tuple[int, str]]:
    """(test node, label) edges on which ``target`` is known truthy (want_truthy) / falsy."""
    out = []
    for n in g.ids(lambda n: n.kind == "test"):
        t = truthiness(g.node(n).ast, is_target)
        if t is None:
            continue
        # test true <=> target truthy when t is True
        lab_truthy = "T" if t else "F"
        lab_falsy = "F" if t else "T"
        out.append((n, lab_truthy if want_truthy else lab_falsy))
    return out


def guarded_by_edges(g, n: int, edges: Iterable[Tuple[int, str]]) -> bool:
    """Every entry -> n path takes one of the given test edges (exception edges ignored)."""
    return edge_path(g, [g.entry], [n], avoid_edges=edges) is None


def writes_name(st: ast.AST, name: str) -> bool:
    """statement (re)binds local ``name``."""
    if isinstance(st, ast.Assign):
        return any(isinstance(t, ast.Name) and t.id == name for t, _ in assigned_pairs(st))
    if isinstance(st, (ast.AugAssign, ast.AnnAssign)):
        return isinstance(st.target, ast.Name) and st.target.id == name
    if isinstance(st, (ast.For, ast.AsyncFor)):
        return any(isinstance(t, ast.Name) and t.id == name for t in ast.walk(st.target))
    return False


def flatten_add(expr: ast.AST) -> List[ast.AST]:
    """operands of a left-assoc ``a + b + c`` chain, in order."""
    if isinstance(expr, ast.BinOp) and isinstance(expr.op, ast.Add):
        return flatten_add(expr.left) + flatten_add(expr.right)
    return [expr]


def struct_fmt_norm(fmt: str) -> Tuple[str, str]:
    """("big"/"little"/"native", field codes with repeat counts expanded)."""
    order = "native"
    body = fmt
    if fmt[:1] in "<>!=@":
        order = {"<": "little", ">": "big", "!": "big", "=": "native-std", "@": "native"}[fmt[0]]
        body = fmt[1:]
    out = ""
    num = ""
    for ch in body:
        if ch.isdigit():
            num += ch
        elif ch.isspace():
            continue
        else:
            if ch in "sp":
                out += (num or "1") + ch
            else:
                out += ch * int(num or "1")
            num = ""
    return order, out


def need(ctx, cond, what: str):
    if not cond:
        raise AnalysisError(f"{ctx.prop}: shape not recognised: {what}")
    return cond


def def_nodes(g, name: str) -> List[int]:
    """CFG nodes that (re)bind local ``name`` (assignments, for-targets)."""
    out = []
    for n in g.nodes:
        if not g.reachable(n.id) or n.ast is None:
            continue
        if n.kind == "stmt" and writes_name(n.ast, name):
            out.append(n.id)
        elif n.kind == "for" and writes_name(n.ast, name):
            out.append(n.id)
    return out


def reaching_defs(g, name: str, at: int) -> List[int]:
    """definitions of local ``name`` that may reach node ``at`` (implicit exception edges ignored)."""
    defs = def_nodes(g, name)
    out = []
    for d in defs:
        others = [x for x in defs if x != d]
        if edge_path(g, [d], [at], avoid_nodes=others, strict=True) is not None:
            out.append(d)
    return out
