"""Helpers shared by the conch checkers C35-C39 (batch H).  Stdlib + sa engine only."""
from __future__ import annotations

import re as _re

import ast
from typing import Callable, Dict, Iterable, List, Optional, Tuple

from sa.astx import _lin, dotted, src, walk_local
from sa.source import AnalysisError


# ---- small AST predicates ---------------------------------------------------------------

def is_attr(node, base: str, name: str) -> bool:
    """node is ``<base>.<name>`` where base is a dotted chain such as "self" or "state.him"."""
    return isinstance(node, ast.Attribute) and node.attr == name and dotted(node.value) == base


def self_attr(node, name: str) -> bool:
    return is_attr(node, "self", name)


def const_is(node, value) -> bool:
    return isinstance(node, ast.Constant) and type(node.value) is type(value) and node.value == value


def is_empty_const(node) -> bool:
    """b"" / "" / [] / () / list() ..."""
    if isinstance(node, ast.Constant) and node.value in (b"", ""):
        return True
    if isinstance(node, (ast.List, ast.Tuple)) and not node.elts:
        return True
    if isinstance(node, ast.Call) and dotted(node.func) in ("list", "bytes", "bytearray", "tuple") and not node.args:
        return True
    return False


def assigned_pairs(st: ast.stmt) -> List[Tuple[ast.expr, Optional[ast.expr]]]:
    """(target, value) pairs of an assignment; tuple assignments ``a, b = x, y`` are paired
    element-wise, chained assignments ``a = b = v`` give one pair per target.  A value of None
    means "not statically paired" (unpacking of a call result...)."""
    out: List[Tuple[ast.expr, Optional[ast.expr]]] = []
    if isinstance(st, ast.Assign):
        for t in st.targets:
            if isinstance(t, (ast.Tuple, ast.List)):
                if isinstance(st.value, (ast.Tuple, ast.List)) and len(st.value.elts) == len(t.elts):
                    out.extend(zip(t.elts, st.value.elts))
                else:
                    out.extend((e, None) for e in t.elts)
            else:
                out.append((t, st.value))
    elif isinstance(st, ast.AnnAssign) and st.value is not None:
        out.append((st.target, st.value))
    return out


def stmt_assigns(st, pred_target: Callable[[ast.expr], bool]) -> List[Optional[ast.expr]]:
    """values assigned by statement ``st`` to targets satisfying pred."""
    return [v for t, v in assigned_pairs(st) if pred_target(t)]


def local_aliases(func: ast.AST, allow=lambda v: isinstance(v, ast.Attribute)) -> Dict[str, ast.expr]:
    """Local names assigned exactly once in ``func`` from an attribute chain (``ms = self.x.y``)."""
    count: Dict[str, int] = {}
    val: Dict[str, ast.expr] = {}
    for n in ast.walk(func):
        if isinstance(n, (ast.Assign, ast.AnnAssign, ast.AugAssign, ast.For, ast.With, ast.NamedExpr)):
            if isinstance(n, ast.Assign):
                for t, v in assigned_pairs(n):
                    if isinstance(t, ast.Name):
                        count[t.id] = count.get(t.id, 0) + 1
                        if v is not None:
                            val[t.id] = v
            else:
                tg = getattr(n, "target", None)
                for t in ast.walk(tg) if tg is not None else []:
                    if isinstance(t, ast.Name):
                        count[t.id] = count.get(t.id, 0) + 1
                        if isinstance(n, ast.AnnAssign) and n.value is not None and t is tg:
                            val[t.id] = n.value
    args = getattr(func, "args", None)
    params = {a.arg for a in (args.args + args.kwonlyargs + args.posonlyargs)} if args else set()
    return {k: v for k, v in val.items() if count.get(k) == 1 and k not in params and allow(v)}


def reparse(expr: ast.AST) -> ast.AST:
    """Fresh copy of an expression without the engine's _parent links (deepcopy would follow them up
    to the whole module)."""
    return ast.parse(src(expr), mode="eval").body


class _Subst(ast.NodeTransformer):
    def __init__(self, table: Dict[str, str]):
        self.table = table
        self.hit = False

    def visit_Name(self, node):
        if isinstance(node.ctx, ast.Load) and node.id in self.table:
            self.hit = True
            return ast.parse(self.table[node.id], mode="eval").body
        return node


def canon(expr: ast.AST, aliases: Dict[str, ast.expr]) -> ast.AST:
    """Copy of expr with single-assignment local aliases replaced by what they stand for."""
    e = reparse(expr)
    if not aliases:
        return e
    table = {k: src(v) for k, v in aliases.items()}
    for _ in range(3):
        sub = _Subst(table)
        e = sub.visit(e)
        if not sub.hit:
            break
    return ast.fix_missing_locations(e)


def csrc(expr, aliases) -> str:
    return src(canon(expr, aliases))


def lin(expr: ast.AST, aliases: Optional[Dict[str, ast.expr]] = None, env=None) -> Tuple[frozenset, int]:
    """Linear normal form (terms, const) of an integer expression after alias substitution."""
    t, c = _lin(canon(expr, aliases or {}), env or {})
    return frozenset((k, v) for k, v in t.items() if v), c


def lincmp_c(test, aliases=None, env=None, negate=False):
    from sa.astx import lincmp
    return lincmp(canon(test, aliases or {}), env or {}, negate)


def truthiness(test: ast.AST, is_target: Callable[[ast.AST], bool]) -> Optional[bool]:
    """If the atomic test is equivalent to ``bool(target)`` return True, to ``not target`` False,
    otherwise None.  Recognises ``x``, ``x > 0``, ``x != 0``, ``x >= 1``, ``len(x) > 0``, ``x == 0``,
    ``x is not None`` is *not* truthiness and returns None."""
    neg = False
    while isinstance(test, ast.UnaryOp) and isinstance(test.op, ast.Not):
        neg = not neg
        test = test.operand
    if is_target(test):
        return not neg
    if isinstance(test, ast.Call) and dotted(test.func) in ("bool", "len") and len(test.args) == 1 and is_target(test.args[0]):
        return not neg
    if isinstance(test, ast.Compare) and len(test.ops) == 1:
        l, r, op = test.left, test.comparators[0], test.ops[0]
        if isinstance(l, ast.Call) and dotted(l.func) == "len" and len(l.args) == 1:
            l = l.args[0]
        if is_target(l) and isinstance(r, ast.Constant) and type(r.value) is int:
            k = r.value
            if (isinstance(op, ast.Gt) and k == 0) or (isinstance(op, ast.NotEq) and k == 0) or (isinstance(op, ast.GtE) and k == 1):
                return not neg
            if (isinstance(op, ast.Eq) and k == 0) or (isinstance(op, ast.LtE) and k == 0) or (isinstance(op, ast.Lt) and k == 1):
                return neg
    return None


# ---- CFG helpers -------------------------------------------------------------------------

def edge_path(g, srcs: Iterable[int], dsts: Iterable[int], avoid_nodes: Iterable[int] = (),
              avoid_edges: Iterable[Tuple[int, Optional[str]]] = (), exc: bool = False, strict: bool = False) -> Optional[List[int]]:
    """Shortest path srcs -> dsts avoiding nodes and (node, label) out-edges.  Implicit
    exception edges are ignored unless exc=True (explicit raises are followed)."""
    ae = set(avoid_edges)
    avoid_nodes = set(avoid_nodes)
    srcs = [s for s in srcs if s not in avoid_nodes]   # a path *starting* on an avoided node does not count
    if not srcs:
        return None

    def ok(a, b, l):
        if not exc and l == "exc":
            return False
        return (a, l) not in ae

    return g.path(list(srcs), set(dsts), avoid=set(avoid_nodes), edge_ok=ok, strict=strict)


def succ_on(g, n: int, label: str) -> List[int]:
    return [d for d, l in g.succ[n] if l == label]


def tests(g, pred: Callable[[ast.AST], bool]) -> List[int]:
    return g.ids(lambda n: n.kind == "test" and pred(n.ast))


def stmts(g, pred: Callable[[ast.stmt], bool]) -> List[int]:
    return g.ids(lambda n: n.kind == "stmt" and pred(n.ast))


def call_nodes(g, pred: Callable[[ast.Call], bool]) -> List[int]:
    return g.find(lambda x: isinstance(x, ast.Call) and pred(x))


def calls_at(g, nid: int, pred: Callable[[ast.Call], bool]) -> List[ast.Call]:
    n = g.node(nid)
    roots = [n.ast]
    if n.kind == "for":
        roots = [n.ast.iter]
    elif n.kind == "with":
        roots = [it.context_expr for it in n.ast.items]
    return [x for r in roots for x in walk_local(r) if isinstance(x, ast.Call) and pred(x)]


def truth_edges(g, is_target: Callable[[ast.AST], bool], want_truthy: bool) -> List[Tuple[int, str]]:
    """(test node, label) edges on which ``target`` is known truthy (want_truthy) / falsy."""
    out = []
    for n in g.ids(lambda n: n.kind == "test"):
        t = truthiness(g.node(n).ast, is_target)
        if t is None:
            continue
        # test true <=> target truthy when t is True
        lab_truthy = "T" if t else "F"
        lab_falsy = "F" if t else "T"
        out.append((n, lab_truthy if want_truthy else lab_falsy))
    return out


def guarded_by_edges(g, n: int, edges: Iterable[Tuple[int, str]]) -> bool:
    """Every entry -> n path takes one of the given test edges (exception edges ignored)."""
    return edge_path(g, [g.entry], [n], avoid_edges=edges) is None


def writes_name(st: ast.AST, name: str) -> bool:
    """statement (re)binds local ``name``."""
    if isinstance(st, ast.Assign):
        return any(isinstance(t, ast.Name) and t.id == name for t, _ in assigned_pairs(st))
    if isinstance(st, (ast.AugAssign, ast.AnnAssign)):
        return isinstance(st.target, ast.Name) and st.target.id == name
    if isinstance(st, (ast.For, ast.AsyncFor)):
        return any(isinstance(t, ast.Name) and t.id == name for t in ast.walk(st.target))
    return False


def flatten_add(expr: ast.AST) -> List[ast.AST]:
    """operands of a left-assoc ``a + b + c`` chain, in order."""
    if isinstance(expr, ast.BinOp) and isinstance(expr.op, ast.Add):
        return flatten_add(expr.left) + flatten_add(expr.right)
    return [expr]


def struct_fmt_norm(fmt: str) -> Tuple[str, str]:
    """("big"/"little"/"native", field codes with repeat counts expanded)."""
    order = "native"
    body = fmt
    if fmt[:1] in "<>!=@":
        order = {"<": "little", ">": "big", "!": "big", "=": "native-std", "@": "native"}[fmt[0]]
        body = fmt[1:]
    out = ""
    num = ""
    for ch in body:
        if ch.isdigit():
            num += ch
        elif ch.isspace():
            continue
        else:
            if ch in "sp":
                out += (num or "1") + ch
            else:
                out += ch * int(num or "1")
            num = ""
    return order, out


def need(ctx, cond, what: str):
    if not cond:
        raise AnalysisError(f"{ctx.prop}: shape not recognised: {what}")
    return cond


def def_nodes(g, name: str) -> List[int]:
    """CFG nodes that (re)bind local ``name`` (assignments, for-targets)."""
    out = []
    for n in g.nodes:
        if not g.reachable(n.id) or n.ast is None:
            continue
        if n.kind == "stmt" and writes_name(n.ast, name):
            out.append(n.id)
        elif n.kind == "for" and writes_name(n.ast, name):
            out.append(n.id)
    return out


def reaching_defs(g, name: str, at: int) -> List[int]:
    """definitions of local ``name`` that may reach node ``at`` (implicit exception edges ignored)."""
    defs = def_nodes(g, name)
    out = []
    for d in defs:
        others = [x for x in defs if x != d]
        if edge_path(g, [d], [at], avoid_nodes=others, strict=True) is not None:
            out.append(d)
    return out


def pure_expr(v: ast.AST) -> bool:
    """Value of a single-assignment local that may be substituted for the local when normalising
    (named temporaries such as ``packetSize = 4 + packetLen``): names, constants, attribute chains,
    integer arithmetic and len() over those.  No calls with effects, no subscripts of mutable buffers."""
    if isinstance(v, (ast.Constant, ast.Name)):
        return True
    if isinstance(v, ast.Attribute):
        return dotted(v) is not None
    if isinstance(v, ast.BinOp) and isinstance(v.op, (ast.Add, ast.Sub, ast.Mult, ast.FloorDiv, ast.Mod)):
        return pure_expr(v.left) and pure_expr(v.right)
    if isinstance(v, ast.UnaryOp) and isinstance(v.op, (ast.USub, ast.UAdd)):
        return pure_expr(v.operand)
    if isinstance(v, ast.Call) and dotted(v.func) == "len" and len(v.args) == 1 and not v.keywords:
        return pure_expr(v.args[0])
    return False


def module_regexes(mod, env=None):
    """{name: compiled pattern} for module-level ``NAME = re.compile(<constant pattern>[, <re.FLAG | ...>])``"""
    import re as _re
    from sa.astx import NotConst, const_eval
    out = {}
    for st in mod.tree.body:
        if isinstance(st, ast.Assign) and len(st.targets) == 1 and isinstance(st.targets[0], ast.Name) and isinstance(st.value, ast.Call) \
                and dotted(st.value.func) in ("re.compile",) and 1 <= len(st.value.args) <= 2 and not st.value.keywords:
            try:
                pat = const_eval(st.value.args[0], dict(env or {}))
                flags = 0
                if len(st.value.args) == 2:
                    fenv = dict(env or {})
                    names = {dotted(x) for x in ast.walk(st.value.args[1]) if isinstance(x, ast.Attribute)}
                    text = src(st.value.args[1])
                    for nm in names:
                        if nm and nm.startswith("re.") and nm[3:].isupper() and hasattr(_re, nm[3:]):
                            text = text.replace(nm, str(int(getattr(_re, nm[3:]))))
                    flags = const_eval(ast.parse(text, mode="eval").body, fenv)
                if isinstance(pat, (bytes, str)) and isinstance(flags, int):
                    out[st.targets[0].id] = _re.compile(pat, flags)
            except (NotConst, _re.error, SyntaxError):
                pass
    return out


# ---- a small whitelisted interpreter for extracted functions (finite evaluation of models) -------------

class ModelReturn(Exception):
    pass


class ModelBreak(Exception):
    pass


class ModelContinue(Exception):
    pass


class ModelError(Exception):
    """the modelled code would raise at run time (AttributeError, IndexError, explicit raise...)"""


_BYTES_METHODS = {"encode", "decode", "find", "rfind", "index", "count", "startswith", "endswith", "split", "rsplit", "strip", "rstrip", "lstrip", "join",
                  "replace", "lower", "upper", "partition", "rpartition", "splitlines"}
_LIST_METHODS = {"index", "count"}
_SAFE = {"len": len, "ord": ord, "bytes": bytes, "int": int, "min": min, "max": max, "list": list, "tuple": tuple, "bool": bool, "range": range,
         "any": any, "all": all, "sum": sum, "sorted": sorted, "enumerate": enumerate, "zip": zip, "reversed": reversed, "iter": iter, "bytearray": bytearray,
         "isinstance": None}


_IS_GEN: Dict[int, bool] = {}      # id(FunctionDef) -> contains a yield (the trees live as long as the run)


class Oracle:
    """fixes the value of conditions the model cannot evaluate, one assignment per run"""
    def __init__(self, assignment=None):
        self.assignment = dict(assignment or {})
        self.opened = []          # conditions first met in this run (given True)
        self.why = {}

    def decide(self, key, why=""):
        if key not in self.assignment:
            self.assignment[key] = True
            self.opened.append(key)
            self.why[key] = why
        return self.assignment[key]


def explore_unknowns(run, limit=8):
    """run(oracle) -> result for every assignment of the unknown conditions met (depth-first, at most ``limit`` runs): [(assignment, result)]"""
    out, pending, seen = [], [{}], set()
    while pending and len(out) < limit:
        a = pending.pop()
        o = Oracle(a)
        r = run(o)
        key = tuple(sorted(o.assignment.items()))
        if key in seen:
            continue
        seen.add(key)
        out.append((dict(o.assignment), r))
        for i, k in enumerate(o.opened):
            alt = dict(a)
            for k2 in o.opened[:i]:
                alt[k2] = True
            alt[k] = False
            pending.append(alt)
    return out


class SelfRef:
    """the value of the name ``self`` inside the model"""
    def __repr__(self):
        return "<self>"


SELF = SelfRef()


class BoundRef:
    """``self.name`` taken as a value (a bound method handed around / yielded / stored in a local)"""
    def __init__(self, name):
        self.name = name

    def __repr__(self):
        return f"<bound method {self.name}>"

    def __eq__(self, other):
        return isinstance(other, BoundRef) and other.name == self.name

    def __hash__(self):
        return hash(("BoundRef", self.name))


class FuncRef:
    """a function of the class taken as a value from a class-level table (called with an explicit self)"""
    def __init__(self, func):
        self.func = func

    def __repr__(self):
        return f"<function {self.func.name}>"


class MiniInterp:
    """Evaluates the statements of one extracted function over concrete values.  ``self.x`` reads/writes go
    to ``attrs``; ``self.m(...)`` calls go to ``hooks[m](*args)`` (args that cannot be evaluated are passed as
    None); everything outside the enumerated statement / expression forms raises AnalysisError (never a verdict).
    No repository code is executed: only this interpreter's own semantics of the whitelisted forms."""

    def __init__(self, func: ast.AST, attrs: dict, hooks: dict, consts: Optional[dict] = None, loop_bound: int = 10000, resolver=None, depth: int = 0):
        self.func = func
        self.attrs = attrs
        self.hooks = hooks
        self.consts = consts or {}
        self.loop_bound = loop_bound
        self.resolver = resolver        # name -> FunctionDef of the same class (helpers are interpreted in place, sharing attrs and hooks)
        self.depth = depth

    def _locals_of_func(self):
        if not hasattr(self, "_lnames"):
            self._lnames = {x.id for x in ast.walk(self.func) if isinstance(x, ast.Name) and isinstance(x.ctx, ast.Store)}
        return self._lnames

    def call(self, *args):
        names = [a.arg for a in self.func.args.args][1:]
        self.loc = dict(zip(names, args))
        is_gen = _IS_GEN.get(id(self.func))
        if is_gen is None:
            is_gen = _IS_GEN[id(self.func)] = any(isinstance(x, (ast.Yield, ast.YieldFrom)) for x in walk_local(self.func))
        self._yielded = []
        try:
            self._block(self.func.body)
        except ModelReturn as r:
            if not is_gen:
                return r.args[0] if r.args else None
        if is_gen:
            # a generator function is run to its end and its values are handed out afterwards: the same values in the same order; the
            # interleaving of the generator's own steps with its consumer's is not modelled
            return iter(self._yielded)
        return None

    def test(self, e):
        """value of a condition.  When the model cannot evaluate it (an attribute chain / call outside the modelled state, e.g. a negotiated option) and
        the run was started with an oracle (consts["__oracle__"]), the condition is UNKNOWN: the oracle fixes it for this run - the same text always gets
        the same value - and the driver explores the other value in another run.  Without an oracle the AnalysisError stands."""
        oracle = self.consts.get("__oracle__")
        if oracle is None or isinstance(e, ast.BoolOp):
            return self.ev(e)
        try:
            return self.ev(e)
        except AnalysisError as ex:
            return oracle.decide(src(e), str(ex))

    # values that stand for callables of the modelled class
    def class_attr(self, name):
        """value of a class-level attribute read through self (overridden by models that know the class)"""
        raise ModelError(f"AttributeError: {name}")

    def invoke_self(self, name, args):
        if name in self.hooks:
            return self.hooks[name](*args)
        h = self.resolver(name) if self.resolver is not None else None
        if h is None or self.depth > 20:
            raise AnalysisError(f"model: call self.{name}() has no hook")
        sub = type(self).__new__(type(self))
        sub.__dict__.update(self.__dict__)
        MiniInterp.__init__(sub, h, self.attrs, self.hooks, self.consts, self.loop_bound, self.resolver, self.depth + 1)
        return sub.call(*args)

    def invoke_value(self, fv, args):
        if isinstance(fv, BoundRef):
            return self.invoke_self(fv.name, args)
        if isinstance(fv, FuncRef):
            if not args or args[0] is not SELF:
                raise AnalysisError("model: class function called without self")
            sub = type(self).__new__(type(self))
            sub.__dict__.update(self.__dict__)
            MiniInterp.__init__(sub, fv.func, self.attrs, self.hooks, self.consts, self.loop_bound, self.resolver, self.depth + 1)
            return sub.call(*args[1:])
        raise AnalysisError(f"model: call of a value of type {type(fv).__name__}")

    def _args(self, call):
        out = []
        for a in call.args:
            if isinstance(a, ast.Starred):
                try:
                    out.extend(list(self.ev(a.value)))
                except TypeError as e:
                    raise ModelError(f"TypeError: {e}")
            else:
                out.append(self.ev(a))
        return out

    # -- expressions
    def ev(self, n):
        if isinstance(n, ast.Constant):
            return n.value
        if isinstance(n, ast.Name):
            if n.id in self.loc:
                return self.loc[n.id]
            if n.id in self.consts:
                return self.consts[n.id]
            if n.id in ("True", "False", "None"):
                return {"True": True, "False": False, "None": None}[n.id]
            if n.id in self._locals_of_func():
                raise ModelError(f"UnboundLocalError: {n.id}")
            if n.id == "self":
                return SELF
            raise AnalysisError(f"model: unknown name {n.id}")
        if isinstance(n, ast.Attribute):
            if isinstance(n.value, ast.Name) and n.value.id == "self":
                if n.attr in self.attrs:
                    return self.attrs[n.attr]
                return self.class_attr(n.attr)
            raise AnalysisError(f"model: attribute {src(n)[:50]}")
        if isinstance(n, (ast.Tuple, ast.List)):
            vals = [self.ev(e) for e in n.elts]
            return tuple(vals) if isinstance(n, ast.Tuple) else vals
        if isinstance(n, ast.Dict) and all(k is not None for k in n.keys):
            try:
                return {self.ev(k): self.ev(v) for k, v in zip(n.keys, n.values)}
            except TypeError as e:
                raise ModelError(f"TypeError: {e}")
        if isinstance(n, ast.UnaryOp):
            v = self.ev(n.operand)
            if isinstance(n.op, ast.Not):
                return not v
            if isinstance(n.op, ast.USub):
                return -v
            raise AnalysisError("model: unary op")
        if isinstance(n, ast.BoolOp):
            v = None
            for e in n.values:
                v = self.test(e)
                if isinstance(n.op, ast.And) and not v:
                    return v
                if isinstance(n.op, ast.Or) and v:
                    return v
            return v
        if isinstance(n, ast.BinOp):
            a, b = self.ev(n.left), self.ev(n.right)
            ops = {ast.Add: lambda: a + b, ast.Sub: lambda: a - b, ast.Mult: lambda: a * b, ast.Mod: lambda: a % b, ast.FloorDiv: lambda: a // b,
                   ast.BitAnd: lambda: a & b, ast.BitOr: lambda: a | b, ast.BitXor: lambda: a ^ b, ast.LShift: lambda: a << b, ast.RShift: lambda: a >> b}
            if type(n.op) in ops:
                try:
                    return ops[type(n.op)]()
                except Exception as e:
                    raise ModelError(f"{type(e).__name__}: {e}")
            raise AnalysisError("model: binary op")
        if isinstance(n, ast.Compare):
            left = self.ev(n.left)
            for op, r in zip(n.ops, n.comparators):
                right = self.ev(r)
                try:
                    ok = {ast.Eq: lambda: left == right, ast.NotEq: lambda: left != right, ast.Lt: lambda: left < right, ast.LtE: lambda: left <= right,
                          ast.Gt: lambda: left > right, ast.GtE: lambda: left >= right, ast.In: lambda: left in right, ast.NotIn: lambda: left not in right,
                          ast.Is: lambda: left is right, ast.IsNot: lambda: left is not right}[type(op)]()
                except TypeError as e:
                    raise ModelError(f"TypeError: {e}")
                if not ok:
                    return False
                left = right
            return True
        if isinstance(n, ast.IfExp):
            return self.ev(n.body) if self.test(n.test) else self.ev(n.orelse)
        if isinstance(n, (ast.ListComp, ast.GeneratorExp)) and len(n.generators) == 1 and not n.generators[0].is_async:
            if isinstance(n, ast.GeneratorExp):
                return self._lazy(n)            # consumed lazily by any()/all()/join()...: one-shot iterables behave as at run time
            saved = dict(self.loc)
            out = list(self._lazy(n))
            self.loc = saved
            return out
        if isinstance(n, ast.Subscript):
            v = self.ev(n.value)
            try:
                if isinstance(n.slice, ast.Slice):
                    lo = self.ev(n.slice.lower) if n.slice.lower else None
                    hi = self.ev(n.slice.upper) if n.slice.upper else None
                    st = self.ev(n.slice.step) if n.slice.step else None
                    return v[lo:hi:st]
                return v[self.ev(n.slice)]
            except (IndexError, KeyError, TypeError) as e:
                raise ModelError(f"{type(e).__name__}: {e}")
        if isinstance(n, ast.Yield):
            self._yielded.append(self.ev(n.value) if n.value is not None else None)
            return None
        if isinstance(n, ast.Call) and not n.keywords and isinstance(n.func, ast.Name) and isinstance(self.loc.get(n.func.id), (BoundRef, FuncRef)):
            return self.invoke_value(self.loc[n.func.id], self._args(n))
        if isinstance(n, ast.Call):
            f = n.func
            if isinstance(f, ast.Attribute) and isinstance(f.value, ast.Name) and f.value.id == "self":
                if f.attr not in self.hooks:
                    h = self.resolver(f.attr) if self.resolver is not None else None
                    if h is None or self.depth > 20 or n.keywords:
                        raise AnalysisError(f"model: call self.{f.attr}() has no hook")
                    sub = MiniInterp(h, self.attrs, self.hooks, self.consts, self.loop_bound, self.resolver, self.depth + 1)
                    return sub.call(*[self.ev(a) for a in n.args])
                args = []
                for a in n.args:
                    try:
                        args.append(self.ev(a))
                    except AnalysisError:
                        args.append(None)
                return self.hooks[f.attr](*args)
            if n.keywords:
                raise AnalysisError(f"model: keyword call {src(n)[:50]}")
            if isinstance(f, ast.Attribute) and isinstance(f.value, ast.Name) and f.value.id == "struct" and "struct" not in self.loc and f.attr in ("pack", "unpack", "calcsize", "unpack_from"):
                import struct as _struct
                try:
                    return getattr(_struct, f.attr)(*[self.ev(a) for a in n.args])
                except (_struct.error, TypeError) as e:
                    raise ModelError(f"struct.error: {e}")
            if isinstance(f, ast.Attribute) and isinstance(f.value, ast.Name) and f.value.id == "int" and f.attr == "from_bytes" and "int" not in self.loc:
                kw = {k.arg: self.ev(k.value) for k in n.keywords}
                try:
                    return int.from_bytes(*[self.ev(a) for a in n.args], **kw)
                except (TypeError, ValueError) as e:
                    raise ModelError(f"{type(e).__name__}: {e}")
            if isinstance(f, ast.Name) and f.id == "isinstance" and len(n.args) == 2 and "isinstance" not in self.loc:
                ts = n.args[1].elts if isinstance(n.args[1], ast.Tuple) else [n.args[1]]
                types_ = {"str": str, "bytes": bytes, "int": int, "list": list, "tuple": tuple, "bytearray": bytearray, "dict": dict}
                if all(isinstance(t, ast.Name) and t.id in types_ for t in ts):
                    return isinstance(self.ev(n.args[0]), tuple(types_[t.id] for t in ts))
            if isinstance(f, ast.Name) and f.id in ("map", "filter") and len(n.args) == 2 and isinstance(n.args[0], ast.Name) and _SAFE.get(n.args[0].id):
                return {"map": map, "filter": filter}[f.id](_SAFE[n.args[0].id], self.ev(n.args[1]))
            if isinstance(f, ast.Name) and _SAFE.get(f.id) is not None:
                try:
                    return _SAFE[f.id](*[self.ev(a) for a in n.args])
                except (TypeError, ValueError) as e:
                    raise ModelError(f"{type(e).__name__}: {e}")
            if isinstance(f, ast.Attribute):
                recv = self.ev(f.value)
                args = self._args(n)
                if isinstance(recv, dict) and f.attr in ("get", "keys", "values", "items", "copy"):
                    try:
                        return getattr(recv, f.attr)(*args)
                    except TypeError as e:
                        raise ModelError(f"TypeError: {e}")
                if isinstance(recv, (bytes, str)) and f.attr in _BYTES_METHODS or isinstance(recv, (list, tuple)) and f.attr in _LIST_METHODS:
                    try:
                        return getattr(recv, f.attr)(*args)
                    except (ValueError, TypeError, IndexError) as e:
                        raise ModelError(f"{type(e).__name__}: {e}")
                if isinstance(recv, _re.Pattern) and f.attr in ("search", "match", "fullmatch", "findall", "sub", "subn", "split") \
                        or isinstance(recv, _re.Match) and f.attr in ("start", "end", "span", "group", "groups"):
                    # a module-level regular expression compiled from a constant pattern: matching is delegated to CPython's re
                    try:
                        return getattr(recv, f.attr)(*args)
                    except (TypeError, ValueError, IndexError, _re.error) as e:
                        raise ModelError(f"{type(e).__name__}: {e}")
                if isinstance(recv, bytearray) and f.attr in ("clear", "extend", "append", "copy", "find", "count", "startswith", "endswith", "decode"):
                    try:
                        return getattr(recv, f.attr)(*args)
                    except (TypeError, ValueError) as e:
                        raise ModelError(f"{type(e).__name__}: {e}")
                if isinstance(recv, list) and f.attr in ("append", "extend", "pop", "clear", "insert", "remove", "reverse", "sort", "copy"):
                    try:
                        return getattr(recv, f.attr)(*args)
                    except (IndexError, ValueError) as e:
                        raise ModelError(f"{type(e).__name__}: {e}")
            raise AnalysisError(f"model: call {src(n)[:60]} not in the whitelist")
        raise AnalysisError(f"model: expression {type(n).__name__} not in the whitelist")

    def _lazy(self, n):
        gen = n.generators[0]
        try:
            it = iter(self.ev(gen.iter))
        except TypeError as e:
            raise ModelError(f"TypeError: {e}")
        for x in it:
            self._assign(gen.target, x)
            if all(self.ev(c) for c in gen.ifs):
                yield self.ev(n.elt)

    # -- statements
    def _assign(self, t, v):
        if isinstance(t, ast.Name):
            self.loc[t.id] = v
        elif isinstance(t, ast.Attribute) and isinstance(t.value, ast.Name) and t.value.id == "self":
            self.attrs[t.attr] = v
        elif isinstance(t, (ast.Tuple, ast.List)):
            vs = list(v)
            if len(vs) != len(t.elts):
                raise ModelError("ValueError: unpack")
            for e, x in zip(t.elts, vs):
                self._assign(e, x)
        else:
            raise AnalysisError(f"model: assignment target {src(t)[:40]}")

    def _block(self, body):
        for st in body:
            self._stmt(st)

    def _stmt(self, st):
        if isinstance(st, ast.Expr):
            if not isinstance(st.value, ast.Constant):
                self.ev(st.value)
        elif isinstance(st, ast.Pass):
            pass
        elif isinstance(st, ast.Assign):
            v = self.ev(st.value)
            for t in st.targets:
                self._assign(t, v)
        elif isinstance(st, ast.AugAssign):
            self._assign(st.target, self.ev(ast.BinOp(left=_load(st.target), op=st.op, right=st.value)))
        elif isinstance(st, ast.If):
            self._block(st.body if self.test(st.test) else st.orelse)
        elif isinstance(st, ast.For):
            n = 0
            broke = False
            try:
                it = iter(self.ev(st.iter))
            except TypeError as e:
                raise ModelError(f"TypeError: {e}")
            for x in it:
                n += 1
                if n > self.loop_bound:
                    raise AnalysisError("model: loop bound")
                self._assign(st.target, x)
                try:
                    self._block(st.body)
                except ModelBreak:
                    broke = True
                    break
                except ModelContinue:
                    continue
            if not broke:
                self._block(st.orelse)
        elif isinstance(st, ast.While):
            n = 0
            while self.ev(st.test):
                n += 1
                if n > self.loop_bound:
                    raise AnalysisError("model: loop bound")
                try:
                    self._block(st.body)
                except ModelBreak:
                    break
                except ModelContinue:
                    continue
        elif isinstance(st, ast.Return):
            raise ModelReturn(self.ev(st.value) if st.value is not None else None)
        elif isinstance(st, ast.Break):
            raise ModelBreak()
        elif isinstance(st, ast.Continue):
            raise ModelContinue()
        elif isinstance(st, ast.Raise):
            raise ModelError("raise " + src(st)[:50])
        elif isinstance(st, ast.Assert):
            if not self.ev(st.test):
                raise ModelError("AssertionError " + src(st.test)[:40])
        elif isinstance(st, ast.Delete):
            for t in st.targets:
                if isinstance(t, ast.Name):
                    self.loc.pop(t.id, None)
                elif isinstance(t, ast.Attribute) and isinstance(t.value, ast.Name) and t.value.id == "self":
                    if t.attr not in self.attrs:
                        raise ModelError(f"AttributeError: {t.attr}")
                    self.attrs.pop(t.attr, None)
                elif isinstance(t, ast.Subscript):
                    box = self.ev(t.value)
                    try:
                        if isinstance(t.slice, ast.Slice):
                            lo = self.ev(t.slice.lower) if t.slice.lower else None
                            hi = self.ev(t.slice.upper) if t.slice.upper else None
                            del box[lo:hi]
                        else:
                            del box[self.ev(t.slice)]
                    except (IndexError, KeyError, TypeError) as e:
                        raise ModelError(f"{type(e).__name__}: {e}")
                else:
                    raise AnalysisError("model: del form")
        else:
            raise AnalysisError(f"model: statement {type(st).__name__} not in the whitelist")


def _load(t):
    n = ast.parse(src(t), mode="eval").body
    return n


# ---- normalised views of methods: private helpers inlined, named temporaries substituted -----------------------

def _single_return_expr(h):
    """the helper is `return <expression>`: it can be put in place as an expression and needs no temporary"""
    body = [s_ for s_ in h.body if not (isinstance(s_, ast.Expr) and isinstance(s_.value, ast.Constant))]
    return len(body) == 1 and isinstance(body[0], ast.Return) and body[0].value is not None


def _field_inliner(mod, cls_names):
    """An Inliner for methods of PRIVATE NESTED classes of the given classes (small state records such as Telnet._OptionState._Perspective) called on
    a field: ``s.him.succeed("yes")`` is expanded with the receiver expression in the place of ``self``.  Resolution is by method name, so only names
    defined exactly once among those nested classes - and not as a method of the outer classes - are followed."""
    from sa.props._lib_h_d import Inliner, _Subst, _clone, _NoInline
    from sa.source import methods as _methods

    nested = {}
    outer = set()

    def collect(c, top):
        for st in c.body:
            if isinstance(st, ast.ClassDef) and st.name.startswith("_"):
                for n_, f_ in _methods(st).items():
                    if not (n_.startswith("__") and n_.endswith("__")):
                        nested.setdefault(n_, []).append(f_)
                collect(st, False)
        if top:
            outer.update(_methods(c))
    for c in mod.classes():
        if c.name in cls_names:
            collect(c, True)
    table = {n_: fs[0] for n_, fs in nested.items() if len(fs) == 1 and n_ not in outer}

    class FieldInliner(Inliner):
        def helper_of(self, call):
            if isinstance(call, ast.Call) and isinstance(call.func, ast.Attribute) and call.func.attr in table and not call.keywords \
                    and not (isinstance(call.func.value, ast.Name) and call.func.value.id == "self") and pure_expr(call.func.value):
                h = table[call.func.attr]
                if not h.decorator_list and not (h.args.vararg or h.args.kwarg or h.args.kwonlyargs) and len(h.args.args) - 1 == len(call.args) \
                        and not any(isinstance(x, (ast.Yield, ast.YieldFrom, ast.Await)) for x in walk_local(h)):
                    return h
            return None

        def _body(self, h, call):
            body = [s_ for s_ in _clone(h.body) if not (isinstance(s_, ast.Expr) and isinstance(s_.value, ast.Constant) and isinstance(s_.value.value, str))]
            params = [a.arg for a in h.args.args[1:]]
            rebound = {t.id for s_ in walk_local(ast.Module(body=body, type_ignores=[])) if isinstance(s_, (ast.Assign, ast.AugAssign, ast.For))
                       for t in ([s_.target] if not isinstance(s_, ast.Assign) else s_.targets) if isinstance(t, ast.Name)}
            if rebound & (set(params) | {h.args.args[0].arg}):
                raise _NoInline("parameter re-bound in helper")
            mapping = dict(zip(params, call.args))
            mapping[h.args.args[0].arg] = call.func.value
            sub = _Subst(mapping)
            return [sub.visit(s_) for s_ in body]
    fi = FieldInliner(mod, cls_names, set())
    fi.table = table
    return fi


class Normaliser:
    """``Normaliser(mod, class_names, known).view(func)`` gives an analysis copy of ``func`` in which
    (1) calls of unknown private helpers of the same classes are expanded at the call site (also when the call sits inside a
        larger expression: it is first bound to a temporary), using the Inliner of _lib_d;
    (2) single-assignment locals that merely name a stable expression (``ours = optionState.us``, ``handler = self.willMap[k]``,
        ``sequence = IAC + DO + option``) are replaced by that expression.
    Rules written against the direct shape then read refactored code the same way.  ``known`` = names never inlined."""

    def __init__(self, mod, cls_names, known, subscripts: bool = True, presplit: bool = False, const_dispatch: bool = False):
        from sa.props._lib_h_d import Inliner
        from sa.source import methods as _methods
        public = {n for c in mod.classes() if c.name in cls_names for n in _methods(c) if not n.startswith("_") or n.startswith("__")}
        self.inl = Inliner(mod, cls_names, set(known) | public)      # only private helpers are ever expanded
        self.finl = _field_inliner(mod, cls_names)                   # methods of private nested state classes called on a field
        self.subscripts = subscripts
        self.presplit = presplit
        self.expanded_cms: set = set()         # private @contextmanager methods read at their `with` sites
        self.const_dispatch = const_dispatch   # unroll `for x in (<constants>)`, read getattr(o, "name") as o.name (selection by name / by constant)
        self._views: Dict[int, ast.AST] = {}
        self._n = 0

    def permitted(self, fname, allowed) -> bool:
        return self.inl.permitted(fname, allowed)

    def view(self, func):
        v = self._views.get(id(func))
        if v is not None:
            return v
        from sa.props._lib_h_d import _clone
        v = _clone(func)
        self._struct_constants(v)
        v.body = self._expand_cms(v.body)
        if self.presplit:
            v.body = self._presplit(v.body, v)
        v.body = self._split_shortcircuit(v.body)
        v.body = self._hoist_block(v.body)
        v.body = self.inl._stmts(v.body, 0)
        if self.finl.table:
            v.body = self._hoist_block(v.body, self.finl)
            v.body = self.finl._stmts(v.body, 0)
        v.body = self._raises_into_handler(v.body)
        for _ in range(3):
            v.body, again = self._fold_flags(v.body, v)
            if not again:
                break
        self._expand_minmax(v)
        v.body = self._loops_over_comprehensions(v.body, v)
        if self.const_dispatch:
            v.body = self._unroll_const_loops(v.body)
            self._fold_getattr(v)
        for _ in range(4):
            if not self._subst_once(v):
                break
        ast.fix_missing_locations(v)
        for parent in ast.walk(v):
            for child in ast.iter_child_nodes(parent):
                child._parent = parent  # type: ignore[attr-defined]
        v._parent = getattr(func, "_parent", None)  # type: ignore[attr-defined]
        self._views[id(func)] = v
        return v

    # -- module-level `X = struct.Struct(<constant format>)`: X.pack(..) / X.unpack(..) / X.size are struct.pack(fmt, ..) / struct.unpack(fmt, ..) /
    #    the constant size
    def _struct_constants(self, f):
        import struct as _struct
        from sa.astx import NotConst, const_eval
        if not hasattr(self, "_structs"):
            self._structs = {}
            for st in self.inl.mod.tree.body:
                if isinstance(st, ast.Assign) and len(st.targets) == 1 and isinstance(st.targets[0], ast.Name) and isinstance(st.value, ast.Call) \
                        and dotted(st.value.func) in ("struct.Struct", "Struct") and len(st.value.args) == 1 and not st.value.keywords:
                    try:
                        fmt = const_eval(st.value.args[0], {})
                        _struct.calcsize(fmt)
                        self._structs[st.targets[0].id] = fmt
                    except (NotConst, _struct.error, TypeError):
                        pass
        structs = self._structs
        if not structs:
            return
        stored = {x.id for x in ast.walk(f) if isinstance(x, ast.Name) and isinstance(x.ctx, ast.Store)}

        class S(ast.NodeTransformer):
            def visit_Call(self_, node):
                self_.generic_visit(node)
                fn = node.func
                if isinstance(fn, ast.Attribute) and isinstance(fn.value, ast.Name) and fn.value.id in structs and fn.value.id not in stored \
                        and fn.attr in ("pack", "unpack", "unpack_from") and not node.keywords:
                    new = ast.Call(func=ast.Attribute(value=ast.Name(id="struct", ctx=ast.Load()), attr=fn.attr, ctx=ast.Load()),
                                   args=[ast.Constant(value=structs[fn.value.id])] + node.args, keywords=[])
                    return ast.copy_location(ast.fix_missing_locations(new), node)
                return node

            def visit_Attribute(self_, node):
                self_.generic_visit(node)
                if isinstance(node.value, ast.Name) and node.value.id in structs and node.value.id not in stored and node.attr == "size" and isinstance(node.ctx, ast.Load):
                    return ast.copy_location(ast.Constant(value=_struct.calcsize(structs[node.value.id])), node)
                return node
        S().visit(f)
        ast.fix_missing_locations(f)

    # -- `with self._cm(args) [as x]: body` over a private @contextmanager generator of the class is read as
    #    entry; x = <yielded>; try: body; finally: exit   (the generator's locals renamed)
    def _expand_cms(self, stmts):
        from sa.props._lib_h_d import _clone
        out = []
        for st in stmts:
            for field in ("body", "orelse", "finalbody"):
                if isinstance(getattr(st, field, None), list) and not isinstance(st, (ast.FunctionDef, ast.AsyncFunctionDef, ast.ClassDef)):
                    setattr(st, field, self._expand_cms(getattr(st, field)))
            for h in getattr(st, "handlers", []) or []:
                h.body = self._expand_cms(h.body)
            new = None
            if isinstance(st, ast.With) and len(st.items) == 1 and isinstance(st.items[0].context_expr, ast.Call):
                call = st.items[0].context_expr
                if isinstance(call.func, ast.Attribute) and isinstance(call.func.value, ast.Name) and call.func.value.id == "self" and not call.keywords:
                    h = self.inl._lookup(call.func.attr)
                    if h is not None and any((dotted(d) or "").split(".")[-1] == "contextmanager" for d in h.decorator_list) \
                            and len(h.args.args) - 1 == len(call.args) and all(pure_expr(a) for a in call.args):
                        split = split_contextmanager(h)
                        if split is not None:
                            pre, yv, post = split
                            params = dict(zip([a.arg for a in h.args.args[1:]], call.args))
                            stored = {x.id for b_ in pre + post for x in ast.walk(b_) if isinstance(x, ast.Name) and isinstance(x.ctx, ast.Store)}
                            if not (stored & set(params)):
                                class R(ast.NodeTransformer):
                                    def visit_Name(self_, node):
                                        if node.id in params and isinstance(node.ctx, ast.Load):
                                            return ast.copy_location(_clone(params[node.id]), node)
                                        if node.id in stored:
                                            return ast.copy_location(ast.Name(id=node.id + "__cm", ctx=node.ctx), node)
                                        return node
                                new = [R().visit(_clone(b_)) for b_ in pre]
                                if st.items[0].optional_vars is not None:
                                    new.append(ast.Assign(targets=[st.items[0].optional_vars], value=R().visit(_clone(yv)) if yv is not None else ast.Constant(value=None), lineno=st.lineno))
                                new.append(ast.Try(body=st.body, handlers=[], orelse=[], finalbody=[R().visit(_clone(b_)) for b_ in post] or [ast.Pass()]))
                                for n_ in new:
                                    ast.copy_location(n_, st)
                                    ast.fix_missing_locations(n_)
                                self.expanded_cms.add(call.func.attr)
            out.extend(new if new is not None else [st])
        return out

    # -- `try: <body that always returns> except _Private as e: x, y = e.a, e.b` followed by `<continuation>`: a `raise _Private(p, q)` in the body (typically
    #    from an expanded helper) continues in the handler and then in the continuation - put both in the place of the raise
    def _raises_into_handler(self, stmts):
        from sa.props._lib_h_d import _clone
        out = []
        i = 0
        while i < len(stmts):
            st = stmts[i]
            for field in ("body", "orelse", "finalbody"):
                if isinstance(getattr(st, field, None), list) and not isinstance(st, (ast.FunctionDef, ast.AsyncFunctionDef, ast.ClassDef)):
                    setattr(st, field, self._raises_into_handler(getattr(st, field)))
            done = False
            if isinstance(st, ast.Try) and len(st.handlers) == 1 and not st.orelse and not st.finalbody and isinstance(st.handlers[0].type, ast.Name) \
                    and st.handlers[0].type.id.startswith("_") and st.body and isinstance(st.body[-1], ast.Return):
                h = st.handlers[0]
                ecls = next((c for c in self.inl.mod.tree.body if isinstance(c, ast.ClassDef) and c.name == h.type.id), None)
                init = next((f for f in (ecls.body if ecls else []) if isinstance(f, ast.FunctionDef) and f.name == "__init__"), None)
                if init is not None:
                    params = [a.arg for a in init.args.args[1:]]
                    attr_of = {}
                    for x in ast.walk(init):
                        if isinstance(x, ast.Assign) and len(x.targets) == 1 and isinstance(x.targets[0], ast.Attribute) and isinstance(x.targets[0].value, ast.Name) \
                                and x.targets[0].value.id == init.args.args[0].arg and isinstance(x.value, ast.Name) and x.value.id in params:
                            attr_of[x.targets[0].attr] = params.index(x.value.id)
                    cont = stmts[i + 1:]
                    raises = [x for b_ in st.body for x in ast.walk(b_) if isinstance(x, ast.Raise)]
                    mine = [x for x in raises if isinstance(x.exc, ast.Call) and isinstance(x.exc.func, ast.Name) and x.exc.func.id == h.type.id
                            and len(x.exc.args) == len(params) and not x.exc.keywords]
                    simple_handler = all(isinstance(b_, ast.Assign) for b_ in h.body)
                    if mine and len(mine) == len([x for x in raises if x.exc is not None and h.type.id in ast.unparse(x.exc)]) and simple_handler and attr_of:
                        counter = [0]
                        outer = self

                        class R(ast.NodeTransformer):
                            def visit_Raise(self_, node):
                                if node not in mine:
                                    return node
                                counter[0] += 1
                                k = counter[0]
                                stored = {t.id for b_ in h.body for t0 in b_.targets for t in ast.walk(t0) if isinstance(t, ast.Name)}

                                class S(ast.NodeTransformer):
                                    def visit_Attribute(s2, n):
                                        if h.name and isinstance(n.value, ast.Name) and n.value.id == h.name and n.attr in attr_of:
                                            return ast.copy_location(_clone(node.exc.args[attr_of[n.attr]]), n)
                                        return s2.generic_visit(n)

                                    def visit_Name(s2, n):
                                        if n.id in stored:
                                            return ast.copy_location(ast.Name(id=f"{n.id}__r{k}", ctx=n.ctx), n)
                                        return n
                                new = []
                                for b_ in h.body:
                                    b2 = S().visit(_clone(b_))
                                    if len(b2.targets) == 1 and isinstance(b2.targets[0], (ast.Tuple, ast.List)) and isinstance(b2.value, (ast.Tuple, ast.List)) \
                                            and len(b2.targets[0].elts) == len(b2.value.elts):
                                        new += [ast.Assign(targets=[t_], value=v_, lineno=node.lineno) for t_, v_ in zip(b2.targets[0].elts, b2.value.elts)]
                                    else:
                                        new.append(b2)
                                new += [S().visit(_clone(c_)) for c_ in cont]
                                for n_ in new:
                                    ast.copy_location(n_, node)
                                    ast.fix_missing_locations(n_)
                                return new
                        body = [R().visit(b_) for b_ in st.body]
                        flat = []
                        for b_ in body:
                            flat.extend(b_ if isinstance(b_, list) else [b_])
                        out.extend(flat)
                        i = len(stmts)
                        done = True
            if not done:
                out.append(st)
                i += 1
        return out

    # -- `if a and self._helper(): body` : the helper runs only when `a` holds - nest the tests before the helper is expanded in front of them
    def _split_shortcircuit(self, stmts):
        from sa.props._lib_h_d import _clone
        out = []
        for st in stmts:
            for field in ("body", "orelse", "finalbody"):
                if isinstance(getattr(st, field, None), list) and not isinstance(st, (ast.FunctionDef, ast.AsyncFunctionDef, ast.ClassDef)):
                    setattr(st, field, self._split_shortcircuit(getattr(st, field)))
            for h in getattr(st, "handlers", []) or []:
                h.body = self._split_shortcircuit(h.body)
            if isinstance(st, ast.If) and isinstance(st.test, ast.BoolOp) and len(st.test.values) >= 2 \
                    and any(self.inl.helper_of(c) is not None for v_ in st.test.values[1:] for c in ast.walk(v_) if isinstance(c, ast.Call)):
                first, rest = st.test.values[0], st.test.values[1:]
                rest_t = rest[0] if len(rest) == 1 else ast.BoolOp(op=st.test.op, values=rest)
                if isinstance(st.test.op, ast.And):
                    inner = ast.If(test=rest_t, body=st.body, orelse=[_clone(x) for x in st.orelse])
                    new = ast.If(test=first, body=[inner], orelse=st.orelse)
                else:
                    inner = ast.If(test=rest_t, body=[_clone(x) for x in st.body], orelse=st.orelse)
                    new = ast.If(test=first, body=st.body, orelse=[inner])
                ast.copy_location(new, st)
                ast.copy_location(inner, st)
                out.extend(self._split_shortcircuit([ast.fix_missing_locations(new)]))
                continue
            out.append(st)
        return out

    # -- a flag set to a constant at the end of both branches of an `if` and tested by the statement that follows (what an expanded boolean helper
    #    looks like) : the following test is decided in each branch
    def _fold_flags(self, stmts, func):
        from sa.props._lib_h_d import _clone
        again = False
        out = []
        i = 0
        for st in stmts:
            for field in ("body", "orelse", "finalbody"):
                if isinstance(getattr(st, field, None), list) and not isinstance(st, (ast.FunctionDef, ast.AsyncFunctionDef, ast.ClassDef)):
                    new_, a2 = self._fold_flags(getattr(st, field), func)
                    setattr(st, field, new_)
                    again = again or a2
            for h in getattr(st, "handlers", []) or []:
                h.body, a2 = self._fold_flags(h.body, func)
                again = again or a2
        while i < len(stmts):
            st = stmts[i]
            nxt = stmts[i + 1] if i + 1 < len(stmts) else None

            def flag_const(branch):
                if branch and isinstance(branch[-1], ast.Assign) and len(branch[-1].targets) == 1 and isinstance(branch[-1].targets[0], ast.Name) \
                        and isinstance(branch[-1].value, ast.Constant) and isinstance(branch[-1].value.value, bool):
                    return branch[-1].targets[0].id, branch[-1].value.value
                return None
            if isinstance(st, ast.If) and isinstance(nxt, ast.If) and st.orelse:
                a, b = flag_const(st.body), flag_const(st.orelse)
                t = nxt.test
                neg = isinstance(t, ast.UnaryOp) and isinstance(t.op, ast.Not)
                tn = t.operand if neg else t
                if a and b and a[0] == b[0] and isinstance(tn, ast.Name) and tn.id == a[0] \
                        and sum(1 for x in ast.walk(func) if isinstance(x, ast.Name) and x.id == a[0]) == 3:
                    def branch_for(k):
                        take = nxt.body if (k != neg) else nxt.orelse
                        return [_clone(x) for x in take]
                    st.body = st.body[:-1] + branch_for(a[1]) or [ast.Pass()]
                    st.orelse = st.orelse[:-1] + branch_for(b[1]) or [ast.Pass()]
                    st.body = st.body or [ast.copy_location(ast.Pass(), st)]
                    st.orelse = st.orelse or [ast.copy_location(ast.Pass(), st)]
                    ast.fix_missing_locations(st)
                    out.append(st)
                    i += 2
                    again = True
                    continue
            out.append(st)
            i += 1
        return out, again

    # -- x > min(a, b)  ==  x > a or x > b   (and the other seven combinations): a comparison against a min / max of pure operands is the
    #    conjunction / disjunction of the single comparisons
    def _expand_minmax(self, f):
        from sa.props._lib_h_d import _clone
        FLIP = {ast.Gt: ast.Lt, ast.GtE: ast.LtE, ast.Lt: ast.Gt, ast.LtE: ast.GtE}

        class M(ast.NodeTransformer):
            def visit_Compare(self_, node):
                self_.generic_visit(node)
                if len(node.ops) != 1 or type(node.ops[0]) not in FLIP:
                    return node
                l, r, op = node.left, node.comparators[0], node.ops[0]

                def mm(e):
                    return isinstance(e, ast.Call) and isinstance(e.func, ast.Name) and e.func.id in ("min", "max") and len(e.args) >= 2 and not e.keywords \
                        and all(pure_expr(a) for a in e.args)
                if mm(l) and not mm(r) and pure_expr(r):
                    l, r, op = r, l, FLIP[type(op)]()
                if not (mm(r) and pure_expr(l)):
                    return node
                # x OP min(..): '>'/'>=' hold iff they hold for SOME operand, '<'/'<=' iff for ALL; for max the other way round
                some = isinstance(op, (ast.Gt, ast.GtE)) == (r.func.id == "min")
                parts = [ast.Compare(left=_clone(l), ops=[type(op)()], comparators=[_clone(a)]) for a in r.args]
                return ast.copy_location(ast.fix_missing_locations(ast.BoolOp(op=ast.Or() if some else ast.And(), values=parts)), node)
        M().visit(f)
        ast.fix_missing_locations(f)

    # -- `for x in (E for y in IT): body`  ==  `for y in IT: x = E; body`  (also when the comprehension was first bound to a local used only there)
    def _loops_over_comprehensions(self, stmts, func):
        out = []
        for i, st in enumerate(stmts):
            for field in ("body", "orelse", "finalbody"):
                if isinstance(getattr(st, field, None), list) and not isinstance(st, (ast.FunctionDef, ast.AsyncFunctionDef, ast.ClassDef)):
                    setattr(st, field, self._loops_over_comprehensions(getattr(st, field), func))
            for h in getattr(st, "handlers", []) or []:
                h.body = self._loops_over_comprehensions(h.body, func)
            if isinstance(st, ast.For) and not st.orelse:
                comp = st.iter
                drop = None
                if isinstance(comp, ast.Name):
                    defs = [x for x in ast.walk(func) if isinstance(x, ast.Assign) and any(isinstance(t, ast.Name) and t.id == comp.id for t in x.targets)]
                    uses = [x for x in ast.walk(func) if isinstance(x, ast.Name) and x.id == comp.id and isinstance(x.ctx, ast.Load)]
                    if len(defs) == 1 and len(uses) == 1 and out and out[-1] is defs[0]:
                        drop, comp = defs[0], defs[0].value
                if isinstance(comp, (ast.GeneratorExp, ast.ListComp)) and len(comp.generators) == 1 and not comp.generators[0].ifs and not comp.generators[0].is_async:
                    gen = comp.generators[0]
                    if drop is not None:
                        out.pop()
                    bind = ast.copy_location(ast.Assign(targets=[st.target], value=comp.elt, lineno=st.lineno), st)
                    new = ast.copy_location(ast.For(target=gen.target, iter=gen.iter, body=[bind] + st.body, orelse=[]), st)
                    out.append(ast.fix_missing_locations(new))
                    continue
            out.append(st)
        return out

    # -- selection by constant: loops over a short tuple of constants are unrolled (their locals renamed per round, `if c: continue` read as a guard
    #    around the rest of the body); getattr(o, "name") with a constant name is the attribute o.name
    def _unroll_const_loops(self, stmts):
        from sa.props._lib_h_d import _clone
        out = []
        for st in stmts:
            for field in ("body", "orelse", "finalbody"):
                if isinstance(getattr(st, field, None), list) and not isinstance(st, (ast.FunctionDef, ast.AsyncFunctionDef, ast.ClassDef)):
                    setattr(st, field, self._unroll_const_loops(getattr(st, field)))
            for h in getattr(st, "handlers", []) or []:
                h.body = self._unroll_const_loops(h.body)
            if isinstance(st, ast.For) and isinstance(st.target, ast.Name) and isinstance(st.iter, (ast.Tuple, ast.List)) and 1 <= len(st.iter.elts) <= 4 \
                    and all(isinstance(e, ast.Constant) for e in st.iter.elts) and not st.orelse \
                    and not any(isinstance(x, ast.Break) for x in ast.walk(st)) and self._guard_continues(st.body) is not None:
                body = self._guard_continues(st.body)
                stored = {x.id for b_ in body for x in ast.walk(b_) if isinstance(x, ast.Name) and isinstance(x.ctx, ast.Store)} - {st.target.id}
                for k, e in enumerate(st.iter.elts):
                    class R(ast.NodeTransformer):
                        def visit_Name(self_, node):
                            if node.id == st.target.id and isinstance(node.ctx, ast.Load):
                                return ast.copy_location(ast.Constant(value=e.value), node)
                            if node.id in stored:
                                return ast.copy_location(ast.Name(id=f"{node.id}__{k}", ctx=node.ctx), node)
                            return node
                    for b_ in body:
                        out.append(ast.fix_missing_locations(R().visit(_clone(b_))))
                continue
            out.append(st)
        return out

    def _guard_continues(self, body):
        """the loop body with `if c: continue` (as a whole statement) turned into `if not c: <rest>`; None when a continue sits elsewhere"""
        for i, st in enumerate(body):
            if isinstance(st, ast.If) and len(st.body) == 1 and isinstance(st.body[0], ast.Continue) and not st.orelse:
                rest = self._guard_continues(body[i + 1:])
                if rest is None:
                    return None
                guard = ast.copy_location(ast.If(test=ast.UnaryOp(op=ast.Not(), operand=st.test), body=rest or [ast.Pass()], orelse=[]), st)
                return list(body[:i]) + [ast.fix_missing_locations(guard)]
            if any(isinstance(x, ast.Continue) for x in ast.walk(st)):
                return None
        return list(body)

    def _fold_getattr(self, f):
        class G(ast.NodeTransformer):
            def visit_Call(self_, node):
                self_.generic_visit(node)
                if isinstance(node.func, ast.Name) and node.func.id == "getattr" and len(node.args) == 2 and not node.keywords \
                        and isinstance(node.args[1], ast.Constant) and isinstance(node.args[1].value, str) and node.args[1].value.isidentifier():
                    return ast.copy_location(ast.Attribute(value=node.args[0], attr=node.args[1].value, ctx=ast.Load()), node)
                return node
        G().visit(f)
        ast.fix_missing_locations(f)

    # -- (0) `a, b = x, y` -> `a = x; b = y` when no target is read by a later element; a boolean temporary that is
    #        tested by the immediately following `if` (and used nowhere else) is put back into the test
    def _presplit(self, stmts, func):
        out = []
        for st in stmts:
            for field in ("body", "orelse", "finalbody"):
                if isinstance(getattr(st, field, None), list) and not isinstance(st, (ast.FunctionDef, ast.AsyncFunctionDef, ast.ClassDef)):
                    setattr(st, field, self._presplit(getattr(st, field), func))
            for h in getattr(st, "handlers", []) or []:
                h.body = self._presplit(h.body, func)
            if isinstance(st, ast.Assign) and len(st.targets) == 1 and isinstance(st.targets[0], (ast.Tuple, ast.List)) and isinstance(st.value, (ast.Tuple, ast.List)) \
                    and len(st.targets[0].elts) == len(st.value.elts) and not any(isinstance(e, ast.Starred) for e in st.targets[0].elts + st.value.elts) \
                    and all(isinstance(t, (ast.Name, ast.Attribute)) for t in st.targets[0].elts):
                tg, vs = st.targets[0].elts, st.value.elts
                clash = False
                for i, t in enumerate(tg):
                    ts = src(t)
                    for v in vs[i + 1:]:
                        if any(isinstance(x, (ast.Name, ast.Attribute)) and src(x) == ts for x in ast.walk(v)) or any(isinstance(x, ast.Call) for x in ast.walk(v)):
                            clash = True
                if not clash:
                    for t, v in zip(tg, vs):
                        out.append(ast.copy_location(ast.Assign(targets=[t], value=v, lineno=st.lineno), st))
                    continue
            out.append(st)
        # boolean temporary + adjacent test
        res = []
        i = 0
        while i < len(out):
            st = out[i]
            nxt = out[i + 1] if i + 1 < len(out) else None
            if isinstance(st, ast.Assign) and len(st.targets) == 1 and isinstance(st.targets[0], ast.Name) and isinstance(nxt, ast.If) \
                    and isinstance(st.value, (ast.BoolOp, ast.Compare, ast.UnaryOp)) and not any(isinstance(x, (ast.Call, ast.NamedExpr, ast.Await)) and not
                                                                                                  (isinstance(x, ast.Call) and dotted(x.func) == "len") for x in ast.walk(st.value)):
                name = st.targets[0].id
                uses = [x for x in ast.walk(func) if isinstance(x, ast.Name) and x.id == name]
                in_test = [x for x in ast.walk(nxt.test) if isinstance(x, ast.Name) and x.id == name and isinstance(x.ctx, ast.Load)]
                if len(uses) == 2 and len(in_test) == 1:
                    val = st.value

                    class R(ast.NodeTransformer):
                        def visit_Name(self, node):
                            return ast.copy_location(val, node) if node.id == name else node
                    nxt.test = R().visit(nxt.test)
                    i += 1
                    continue
            res.append(st)
            i += 1
        return res

    # -- (1) helper calls nested in expressions -> temporaries
    def _hoist_block(self, stmts, inl=None):
        inl = inl or self.inl
        out = []
        for st in stmts:
            for field in ("body", "orelse", "finalbody"):
                if isinstance(getattr(st, field, None), list) and not isinstance(st, (ast.FunctionDef, ast.AsyncFunctionDef, ast.ClassDef)):
                    setattr(st, field, self._hoist_block(getattr(st, field), inl))
            for h in getattr(st, "handlers", []) or []:
                h.body = self._hoist_block(h.body, inl)
            if isinstance(st, (ast.Expr, ast.Assign, ast.AugAssign, ast.Return)) and st.value is not None:
                top = st.value
                pre = []
                outer = self

                class T(ast.NodeTransformer):
                    def visit_Call(self, node):
                        self.generic_visit(node)
                        if node is not top and inl.helper_of(node) is not None and not _single_return_expr(inl.helper_of(node)):
                            outer._n += 1
                            tmp = f"_h{outer._n}"
                            pre.append(ast.copy_location(ast.Assign(targets=[ast.Name(id=tmp, ctx=ast.Store())], value=node, lineno=st.lineno), st))
                            return ast.copy_location(ast.Name(id=tmp, ctx=ast.Load()), node)
                        return node

                    def visit_Lambda(self, node):
                        return node
                st.value = T().visit(st.value)
                out.extend(ast.fix_missing_locations(p) for p in pre)
            out.append(st)
        return out

    # -- (2) alias substitution
    def _stable(self, v):
        if pure_expr(v):
            return True
        if self.subscripts and isinstance(v, ast.Subscript) and self._stable(v.value):
            sl = v.slice
            elts = sl.elts if isinstance(sl, ast.Tuple) else [sl]
            return all(self._stable(e) for e in elts) and not isinstance(sl, ast.Slice)
        return False

    @staticmethod
    def _free_names_settled(f, assign, free, params) -> bool:
        """every (re)binding of a name used in the aliased expression happens before the alias is defined, and not in a loop around it"""
        # textual order of the working copy (line numbers are unreliable once helpers / context managers were expanded into it)
        order = {}

        def number(node):
            order[id(node)] = len(order)
            for ch in ast.iter_child_nodes(node):
                number(ch)
        number(f)
        pos = order[id(assign)]
        loops = []
        n = getattr(assign, "_parent", None)
        # parents are not set on the working copy: find enclosing loops by containment
        for lp in ast.walk(f):
            if isinstance(lp, (ast.For, ast.While)) and any(x is assign for x in ast.walk(lp)):
                loops.append(lp)
        alias = assign.targets[0].id if isinstance(assign.targets[0], ast.Name) else None
        for x in ast.walk(f):
            if isinstance(x, ast.Name) and x.id in free and isinstance(x.ctx, (ast.Store, ast.Del)):
                # the variable of a for-loop around the alias is bound at the head of every round, before the alias of that round is defined:
                # fine as long as the alias is not read outside that loop
                heads = [lp for lp in loops if isinstance(lp, ast.For) and any(y is x for y in ast.walk(lp.target))]
                if heads and alias is not None and all(any(u is y for y in ast.walk(heads[0])) for u in ast.walk(f)
                                                       if isinstance(u, ast.Name) and u.id == alias and isinstance(u.ctx, ast.Load)):
                    continue
                if order[id(x)] >= pos:
                    return False
                if any(any(y is x for y in ast.walk(lp)) for lp in loops):
                    return False
        return True

    def _subst_once(self, f) -> bool:
        params = {a.arg for a in f.args.args}
        stores: Dict[str, int] = {}
        store_targets = set()
        for n in ast.walk(f):
            if isinstance(n, ast.Name) and isinstance(n.ctx, (ast.Store, ast.Del)):
                stores[n.id] = stores.get(n.id, 0) + 1
            if isinstance(n, (ast.Attribute, ast.Subscript)) and isinstance(n.ctx, (ast.Store, ast.Del)):
                store_targets.add(src(n))
        table = {}
        drop = set()
        for n in ast.walk(f):
            if isinstance(n, ast.Assign) and len(n.targets) == 1 and isinstance(n.targets[0], ast.Name):
                name = n.targets[0].id
                if stores.get(name) != 1 or name in params or not self._stable(n.value):
                    continue
                if src(n.value) in store_targets:
                    continue            # a snapshot of mutable state (d = state.him.onResult), not a name for it
                free = {x.id for x in ast.walk(n.value) if isinstance(x, ast.Name)}
                if name in free or not self._free_names_settled(f, n, free, params):
                    continue            # the expression may denote different values at different points (a re-bound name in it)
                if any(isinstance(x, ast.Call) for x in ast.walk(n.value)) and not pure_expr(n.value):
                    continue
                table[name] = n.value
                drop.add(id(n))
        if not table:
            return False
        from sa.props._lib_h_d import _clone

        class S(ast.NodeTransformer):
            def visit_Name(self, node):
                if isinstance(node.ctx, ast.Load) and node.id in table:
                    return ast.copy_location(_clone(table[node.id]), node)
                return node

            def visit_Assign(self, node):
                if id(node) in drop:
                    return ast.copy_location(ast.Pass(), node)
                return self.generic_visit(node)
        for _ in range(4):      # temporaries defined in terms of other temporaries
            for k in list(table):
                table[k] = S().visit(_clone(table[k]))
        S().visit(f)
        return True


# ---- XVM: the concrete interpreter of _lib_d with a few more Python forms (still only walks source; nothing is imported) ---------

def _make_xvm():
    import struct as _struct
    from sa.props._lib_h_d import MiniVM, VMBound, VMClass, VMError, VMFunc, VMStub

    class CodeStub(VMStub):
        def __init__(self, argcount):
            self.co_argcount = argcount

    class XVM(MiniVM):
        """MiniVM + nested classes, generator functions (collected eagerly), starred elements in tuple / list displays,
        dict comprehensions, hasattr / getattr, ``f.__code__.co_argcount`` and struct.Struct objects."""

        def __init__(self, module, hooks=None, budget=4 * 10 ** 7, siblings=None):
            MiniVM.__init__(self, module, hooks=hooks, budget=budget, siblings=siblings)
            self._ystack = []
            self._isgen = {}
            g = self.mod._g

            g.setdefault("object", lambda: object())      # a fresh sentinel

            def _has(o, n):
                try:
                    self.getattr(o, n)
                    return True
                except Exception:
                    return False

            def _get(o, n, *d):
                try:
                    return self.getattr(o, n)
                except Exception:
                    if d:
                        return d[0]
                    raise
            self._extra = {"hasattr": lambda o, n: _has(o, n), "getattr": lambda o, n, *d: _get(o, n, *d), "type": lambda o: type(o),
                           "map": lambda f, *its: [self.call(f, list(xs), {}) for xs in zip(*its)],
                           "filter": lambda f, it: [x for x in it if self.truth(self.call(f, [x], {}) if f is not None else x)]}
            g.update(self._extra)

        def module(self, module):
            """another repository module interpreted by this VM (for `from pkg import mod` imports): a VMModule with the same extra builtins"""
            from sa.props._lib_h_d import VMModule
            m = VMModule(module, self)
            m._g.update(self._extra)
            return m

        def class_attr(self, cls, name):
            for c in cls.mro():
                for n in c.node.body:
                    if isinstance(n, ast.ClassDef) and n.name == name:
                        k = ("nested", name)
                        if k not in c._cache:
                            c._cache[k] = VMClass(c.mod, n)
                        return c._cache[k]
            return MiniVM.class_attr(self, cls, name)

        def getattr(self, v, name):
            if name == "__code__" and isinstance(v, (VMBound, VMFunc)):
                f = v.func if isinstance(v, VMBound) else v
                return CodeStub(len(f.node.args.args))
            if name == "__name__" and isinstance(v, (VMBound, VMFunc)):
                f = v.func if isinstance(v, VMBound) else v
                return f.node.name
            if isinstance(v, _struct.Struct) and not name.startswith("_"):
                return getattr(v, name)
            if v in (int, bytes, str, dict, bytearray) and not name.startswith("_"):
                return getattr(v, name)         # int.from_bytes, bytes.fromhex, dict.fromkeys ...
            if isinstance(v, type) and issubclass(v, VMStub) and not name.startswith("__"):
                return getattr(v, name)         # a stand-in class: class attributes / classmethod constructors
            return MiniVM.getattr(self, v, name)

        def call(self, fn, args, kwargs):
            if getattr(fn, "__self__", None) in (int, bytes, str, dict, bytearray) and not isinstance(fn, type):
                from sa.props._lib_h_d import VMObj as _VMObj, VMRaise_native as _raise
                if any(isinstance(a, _VMObj) for a in args):
                    raise VMError("interpreted object passed to a builtin constructor method")
                try:
                    return fn(*args, **kwargs)
                except (TypeError, ValueError, OverflowError) as e:
                    raise _raise(e)
            if (isinstance(fn, type) and issubclass(fn, VMStub)) or (isinstance(getattr(fn, "__self__", None), type) and issubclass(fn.__self__, VMStub)):
                return fn(*args, **kwargs)      # constructing a stand-in / calling its classmethod (stand-ins raise plain Python exceptions)
            if isinstance(getattr(fn, "__self__", None), _struct.Struct):
                try:
                    return fn(*args, **kwargs)
                except _struct.error as e:
                    from sa.props._lib_h_d import VMRaise_native
                    raise VMRaise_native(e)
            return MiniVM.call(self, fn, args, kwargs)

        def _run_star(self, func, args, kwargs, base=None):
            """functions with *args / **kwargs parameters, and nested functions (``base`` = the variables of the enclosing activation they can read)"""
            from sa.props._lib_h_d import VMRaise_native, _Ret
            node = func.node
            a = node.args
            if a.kwonlyargs or a.posonlyargs:
                raise VMError(f"signature of {node.name} outside the subset")
            names = [x.arg for x in a.args]
            env = dict(base or {})
            for n_ in names:
                env.pop(n_, None)
            given = dict(zip(names, args))
            env.update(given)
            extra = list(args[len(names):])
            if extra and not a.vararg:
                raise VMRaise_native(TypeError(f"{node.name}() takes {len(names)} positional arguments"))
            kw = {}
            for k, v in kwargs.items():
                if k in names and k not in given:
                    env[k] = given[k] = v
                elif a.kwarg:
                    kw[k] = v
                else:
                    raise VMRaise_native(TypeError(f"{node.name}() unexpected argument {k}"))
            for n_, d in zip(names[len(names) - len(a.defaults):], a.defaults):
                if n_ not in given:
                    env[n_] = given[n_] = self.eval(d, {}, func.mod, None)
            missing = [n_ for n_ in names if n_ not in given]
            if missing:
                raise VMRaise_native(TypeError(f"{node.name}() missing {missing}"))
            if a.vararg:
                env[a.vararg.arg] = tuple(extra)
            if a.kwarg:
                env[a.kwarg.arg] = kw
            try:
                self.block(node.body, env, func.mod, func.owner)
            except _Ret as r:
                return r.v
            return None

        def _run(self, func, args, kwargs):
            node = func.node
            if not isinstance(node, ast.Lambda) and getattr(func, "closure", None) is not None:
                return self._run_star(func, args, kwargs, base=func.closure)      # a nested function reads the variables of the activation that defined it
            if not isinstance(node, ast.Lambda) and (node.args.vararg or node.args.kwarg):
                return self._run_star(func, args, kwargs)
            isgen = self._isgen.get(id(node))
            if isgen is None:
                isgen = self._isgen[id(node)] = (not isinstance(node, ast.Lambda)) and any(isinstance(x, (ast.Yield, ast.YieldFrom)) for x in walk_local(node))
            if isgen:
                self._ystack.append([])
                try:
                    MiniVM._run(self, func, args, kwargs)
                finally:
                    out = self._ystack.pop()
                return iter(out)
            return MiniVM._run(self, func, args, kwargs)

        def _eval(self, e, env, mod, owner):
            if isinstance(e, ast.Yield):
                if not self._ystack:
                    raise VMError("yield outside a generator activation")
                self._ystack[-1].append(self.eval(e.value, env, mod, owner) if e.value is not None else None)
                return None
            if isinstance(e, ast.YieldFrom):
                if not self._ystack:
                    raise VMError("yield from outside a generator activation")
                self._ystack[-1].extend(list(self.eval(e.value, env, mod, owner)))
                return None
            if isinstance(e, (ast.Tuple, ast.List)) and any(isinstance(x, ast.Starred) for x in e.elts):
                out = []
                for x in e.elts:
                    if isinstance(x, ast.Starred):
                        out.extend(list(self.eval(x.value, env, mod, owner)))
                    else:
                        out.append(self.eval(x, env, mod, owner))
                return tuple(out) if isinstance(e, ast.Tuple) else out
            if isinstance(e, ast.DictComp) and len(e.generators) == 1 and not e.generators[0].is_async:
                gen = e.generators[0]
                out = {}
                local = dict(env) if isinstance(env, dict) else {}
                for v in self.eval(gen.iter, env, mod, owner):
                    self.assign(gen.target, v, local, mod, owner)
                    if all(self.truth(self.eval(c, local, mod, owner)) for c in gen.ifs):
                        out[self.eval(e.key, local, mod, owner)] = self.eval(e.value, local, mod, owner)
                return out
            if isinstance(e, ast.Call) and isinstance(e.func, ast.Attribute) and e.func.attr == "__init__" and isinstance(e.func.value, ast.Name) \
                    and e.func.value.id in ("Exception", "BaseException", "ValueError", "RuntimeError", "TypeError", "KeyError") and e.func.value.id not in env and e.args:
                obj = self.eval(e.args[0], env, mod, owner)
                if hasattr(obj, "args"):
                    obj.args = tuple(self.eval(a, env, mod, owner) for a in e.args[1:])
                return None
            if isinstance(e, ast.Attribute) and e.attr == "__dict__":
                from sa.props._lib_h_d import VMObj as _VMObj2
                v = self.eval(e.value, env, mod, owner)
                if isinstance(v, _VMObj2):
                    return dict(v.attrs)
                if isinstance(v, VMStub):
                    return dict(vars(v))
                raise VMError("__dict__ of something that is not an instance")
            if isinstance(e, ast.GeneratorExp):
                v = MiniVM._eval(self, e, env, mod, owner)      # evaluated eagerly by the base interpreter; handed out as a one-shot iterator as at run time
                return iter(v) if isinstance(v, (list, tuple)) else v
            if isinstance(e, ast.NamedExpr) and isinstance(e.target, ast.Name):
                v = self.eval(e.value, env, mod, owner)
                self.assign(e.target, v, env, mod, owner)
                return v
            if isinstance(e, ast.Call) and isinstance(e.func, ast.Name) and e.func.id == "next" and "next" not in env and 1 <= len(e.args) <= 2 and not e.keywords:
                it = self.eval(e.args[0], env, mod, owner)
                try:
                    return next(it)
                except StopIteration:
                    if len(e.args) == 2:
                        return self.eval(e.args[1], env, mod, owner)
                    from sa.props._lib_h_d import VMRaise_native
                    raise VMRaise_native(StopIteration())
                except TypeError as ex:
                    from sa.props._lib_h_d import VMRaise_native
                    raise VMRaise_native(ex)
            return MiniVM._eval(self, e, env, mod, owner)

        def stmt(self, st, env, mod, owner):
            # `with self._cm(args) as x:` over a @contextmanager generator method of the interpreted code: the part of the generator before its
            # single yield is the entry, the yielded value the target, the part after it (its `finally`) the exit - run around the block
            if isinstance(st, ast.With) and len(st.items) == 1 and isinstance(st.items[0].context_expr, ast.Call):
                call = st.items[0].context_expr
                try:
                    fv = self.eval(call.func, env, mod, owner)
                except Exception:
                    fv = None
                fn = fv.func if isinstance(fv, VMBound) else fv if isinstance(fv, VMFunc) else None
                if fn is not None and any((dotted(d) or "").split(".")[-1] == "contextmanager" for d in getattr(fn.node, "decorator_list", [])):
                    split = split_contextmanager(fn.node)
                    if split is None:
                        raise VMError(f"context manager {fn.node.name}: not `entry; [try:] yield v [finally: exit]`")
                    pre, yv, post = split
                    names = [a.arg for a in fn.node.args.args]
                    args = ([fv.obj] if isinstance(fv, VMBound) else []) + [self.eval(a, env, mod, owner) for a in call.args]
                    if call.keywords or len(args) != len(names):
                        raise VMError(f"context manager {fn.node.name}: call outside the subset")
                    cenv = dict(zip(names, args))
                    self.block(pre, cenv, fn.mod, fn.owner)
                    val = self.eval(yv, cenv, fn.mod, fn.owner) if yv is not None else None
                    if st.items[0].optional_vars is not None:
                        self.assign(st.items[0].optional_vars, val, env, mod, owner)
                    try:
                        self.block(st.body, env, mod, owner)
                    finally:
                        self.block(post, cenv, fn.mod, fn.owner)
                    return None
            if isinstance(st, ast.FunctionDef) and isinstance(env, dict) and not st.decorator_list and "self" in env or \
                    (isinstance(st, ast.FunctionDef) and isinstance(env, dict) and not st.decorator_list and env is not getattr(mod, "_g", None)):
                vf = VMFunc(mod, st, owner)
                vf.closure = env
                env[st.name] = vf
                return None
            return MiniVM.stmt(self, st, env, mod, owner)

    return XVM


def split_contextmanager(fn):
    """(entry statements, yielded expression, exit statements) of a generator written as ``entry...; try: yield v; finally: exit...`` or
    ``entry...; yield v; exit...`` (the shape contextlib.contextmanager expects); None otherwise"""
    body = [st for st in fn.body if not (isinstance(st, ast.Expr) and isinstance(st.value, ast.Constant))]
    ys = [x for x in walk_local(fn) if isinstance(x, (ast.Yield, ast.YieldFrom))]
    if len(ys) != 1 or not isinstance(ys[0], ast.Yield):
        return None
    for i, st in enumerate(body):
        if isinstance(st, ast.Expr) and st.value is ys[0]:
            if any(isinstance(x, ast.Return) for b in body for x in ast.walk(b)):
                return None
            return body[:i], ys[0].value, body[i + 1:]
        if isinstance(st, ast.Try) and not st.handlers and not st.orelse and len(st.body) == 1 and isinstance(st.body[0], ast.Expr) and st.body[0].value is ys[0] \
                and i == len(body) - 1:
            if any(isinstance(x, ast.Return) for b in body for x in ast.walk(b)):
                return None
            return body[:i], ys[0].value, list(st.finalbody)
        if any(x is ys[0] for x in ast.walk(st)):
            return None
    return None


def xvm(module, hooks=None, budget=4 * 10 ** 7, siblings=None):
    """an XVM instance over ``module`` (sa.source.Module)"""
    return _make_xvm()(module, hooks=hooks, budget=budget, siblings=siblings)


# ---- abstaining sections for the structural layer ---------------------------------------------------------------------

class abstain:
    """``with abstain(ctx, "getPacket/mac", "receiver/ and tamper/ (bounded)"):`` - a structural rule group that cannot read the
    shape of the (normalised) code says so in a note and leaves the clause to the named bounded rules; it never errs and never
    guesses.  Violations raised inside are genuine: the construct was recognised and the clause shown false."""

    def __init__(self, ctx, name, covered_by):
        self.ctx, self.name, self.covered_by = ctx, name, covered_by

    def __enter__(self):
        return self

    def __exit__(self, et, ev, tb):
        if et is not None and issubclass(et, AnalysisError):
            self.ctx.note(f"{self.name}: shape not recognised ({str(ev)[:140]}); clause left to {self.covered_by}")
            return True
        return False
