"""C32 - DNS messages round-trip through the wire format."""
from __future__ import annotations

import ast
import io
import struct
from typing import Dict, List, Optional, Tuple

from sa.astx import module_consts, src
from sa.props._lib_g import DictInst, Inst, MiniEval, Opaque, OpaqueInst, _ClassRef, class_const, module_classes, run_eval
from sa.selftest import Mutant, Silent
from sa.source import AnalysisError, methods, mro_lookup

PROPERTY = "C32"
DNS = "names/dns.py"
Q = "twisted.names.dns"
TECHNIQUE = "format-table agreement, guard dominance with linear bounds, registry rules; interpreted round trips as bounded layer"
EXPLANATION = (
    'STRUCTURAL (for every message): for ALL classes defining encode and decode (private helpers followed, class constants '
    'resolved) the multiset of fixed-size struct codes the writer packs equals the multiset the reader unpacks (table '
    'agreement; four documented exceptions); Name.encode writes the label-length byte and the compression pointer only '
    'under dominating guards bounding them by 63 / 0x3FFF in linear normal form (the pointer bound may equally be enforced on every store into '
    'the compression dictionary) - both guards were missing (finding F32, repaired by commit 485922f; the two reverts are '
    'self-test mutants reported on the finding\'s constructs); a slice counted from the end, x[-n:], is taken only under a dominating n != 0 wherever the class treats 0 as a value of n (for 0 it is '
    'all of x: writer and reader would disagree on the field length); every attribute a decoder assigns takes part in ==; every Record_* class is defined before Message, has a '
    'distinct TYPE and accepts ttl=. FINITE-EXHAUSTIVE: Record_A6, the one record whose field lengths are '
    'a function of a one-octet field, is evaluated for all 129 prefix lengths (RDATA layout by the independent parser, following record intact). '
    'BOUNDED second layer (encoders/decoders interpreted on enumerated messages, judged '
    'through compareAttributes and by an independent RFC 1035/2535/6891 parser written in the checker): every record class, '
    'all header flags, four sections with distinct counts, names with shared suffixes / case variants / 40 nesting levels / '
    '63-byte labels, empty RDATA, unknown types, EDNS parameters and options, size limits around the exact size, leaf '
    'codecs around the empty string and the 255/256 boundary, the two F32 inputs. Bounded evidence only: field ORDER inside '
    "a record, header bit positions, section order, truncation arithmetic and 'the reader accepts every pointer chain the "
    "writer emits' (the format-table rule fixes widths and signedness for all inputs, not positions). Not decided: "
    'compression optimality, the vendored third-party decoder.'
)
RULE_KINDS = {
    "layout/format-table": "structural", "name/label-length-limit": "structural", "name/pointer-offset-limit": "structural", "equality/decoded-fields-compared": "structural",
    "registry/": "structural",
    "layout/buffer-loop-until-empty": "structural",      # while buf.tell() < len(data): normal form remaining >= 1
    "layout/end-slice-count-nonzero": "structural",      # x[-n:] under a dominating n != 0 wherever the class treats 0 as a value of n
    "roundtrip/a6-prefix-lengths": "finite-exhaustive",  # the only record whose field lengths are a function of a one-octet field: all 129 values evaluated
    "*": "bounded",       # interpreted round trips on the enumerated messages, judged by the checker's own parser
}
ASSUMPTIONS = [
    "struct, bytes and BytesIO behave as in CPython 3.12 (used by the interpreter, not modelled)",
    "Message._recordTypes (filled by a loop over globals() in the class body) equals {cls.TYPE: cls for every module-level Record_* class}; the static registry rules check "
    "the conditions under which that loop sees every class",
]


def _fail(msg):
    raise AnalysisError("C32: " + msg)


# ---- independent parser (RFC 1035 4.1, RFC 2535 6.1) -----------------------------------------------------------------

class ParseError(Exception):
    pass


def _p_name(wire: bytes, pos: int) -> Tuple[bytes, int]:
    labels = []
    end = None
    hops = 0
    while True:
        if pos >= len(wire):
            raise ParseError("name runs past the end")
        n = wire[pos]
        if n == 0:
            pos += 1
            break
        if n & 0xC0 == 0xC0:
            if pos + 1 >= len(wire):
                raise ParseError("pointer runs past the end")
            target = ((n & 0x3F) << 8) | wire[pos + 1]
            if end is None:
                end = pos + 2
            hops += 1
            if hops > 200 or target >= len(wire):
                raise ParseError("bad compression pointer")
            pos = target
            continue
        if n & 0xC0:
            raise ParseError(f"label type {n >> 6:02b} (length byte {n:#04x})")
        labels.append(wire[pos + 1:pos + 1 + n])
        if len(labels[-1]) != n:
            raise ParseError("label runs past the end")
        pos += 1 + n
    return b".".join(labels), (end if end is not None else pos)


def parse_message(wire: bytes) -> dict:
    if len(wire) < 12:
        raise ParseError("short header")
    ident, b3, b4, nq, nan, nns, nar = struct.unpack(">HBBHHHH", wire[:12])
    out = {"id": ident, "answer": b3 >> 7, "opCode": (b3 >> 3) & 15, "auth": (b3 >> 2) & 1, "trunc": (b3 >> 1) & 1, "recDes": b3 & 1,
           "recAv": b4 >> 7, "z": (b4 >> 6) & 1, "authenticData": (b4 >> 5) & 1, "checkingDisabled": (b4 >> 4) & 1, "rCode": b4 & 15,
           "counts": (nq, nan, nns, nar), "queries": [], "sections": [[], [], []], "complete": True}
    pos = 12
    try:
        for _ in range(nq):
            name, pos = _p_name(wire, pos)
            if pos + 4 > len(wire):
                raise ParseError("question runs past the end")
            t, c = struct.unpack(">HH", wire[pos:pos + 4])
            pos += 4
            out["queries"].append((name, t, c))
        for si, n in enumerate((nan, nns, nar)):
            for _ in range(n):
                name, pos = _p_name(wire, pos)
                if pos + 10 > len(wire):
                    raise ParseError("record header runs past the end")
                t, c, ttl, rdl = struct.unpack(">HHIH", wire[pos:pos + 10])
                pos += 10
                if pos + rdl > len(wire):
                    raise ParseError("RDATA runs past the end")
                out["sections"][si].append((name, t, c, ttl, wire[pos:pos + rdl], pos))
                pos += rdl
    except ParseError:
        if not out["trunc"]:
            raise
        out["complete"] = False
    if out["complete"] and pos != len(wire):
        raise ParseError(f"{len(wire) - pos} trailing bytes")
    return out


# ---- the interpreted world --------------------------------------------------------------------------------------------

class World:
    def __init__(self, ctx, mod, consts):
        self.ctx, self.mod, self.consts = ctx, mod, consts
        self.cls = module_classes(mod)
        reg = {}
        for n, c in self.cls.items():
            if n.startswith("Record_"):
                t = class_const(mod, c, "TYPE", consts)
                if isinstance(t, int):
                    reg[t] = _ClassRef(c)
        self.registry = reg

    def ev(self) -> MiniEval:
        return MiniEval(self.mod, consts=self.consts, class_overrides={("Message", "_recordTypes"): dict(self.registry)},
                        helpers={"nativeString": lambda b: b.decode("ascii") if isinstance(b, bytes) else b, "randomSource": lambda: 4})

    def C(self, name: str) -> ast.ClassDef:
        return self.cls.get(name) or _fail(f"class {name} vanished")

    def name(self, b: bytes) -> Inst:
        return Inst(self.C("Name"), name=b)

    def charstr(self, b: bytes) -> Inst:
        return Inst(self.C("Charstr"), string=b)

    def query(self, n: bytes, t: int = 1, c: int = 1) -> Inst:
        return Inst(self.C("Query"), name=self.name(n), type=t, cls=c)

    def rr(self, owner: bytes, payload: Inst, ttl: int = 3600, type_: Optional[int] = None, cls_: int = 1, auth: bool = False) -> Inst:
        if type_ is None:
            type_ = class_const(self.mod, payload.cls, "TYPE", self.consts)
        payload.fields["ttl"] = ttl
        return Inst(self.C("RRHeader"), name=self.name(owner), type=type_, cls=cls_, ttl=ttl, payload=payload, auth=auth)

    def message(self, **kw) -> Inst:
        f = dict(id=0x1234, answer=0, opCode=0, recDes=0, recAv=0, auth=0, rCode=0, trunc=0, maxSize=0, authenticData=0, checkingDisabled=0,
                 queries=[], answers=[], authority=[], additional=[])
        f.update(kw)
        return Inst(self.C("Message"), **f)

    def run(self, what, fn):
        k, v = run_eval(fn)
        if k == "unsupported":
            _fail(f"{what} uses a construct outside the interpreted subset: {v}")
        return k, v

    def to_wire(self, msg: Inst):
        ev = self.ev()
        return self.run(f"{msg.cls.name}.toStr", lambda: ev.method(msg, "toStr", []))

    def from_wire(self, wire: bytes, cls: str = "Message"):
        ev = self.ev()
        k, m = self.run(f"{cls}()", lambda: ev.construct(self.C(cls), [], {}))
        if k != "value":
            return k, m
        k, r = self.run(f"{cls}.fromStr", lambda: ev.method(m, "fromStr", [wire]))
        return (k, m) if k == "value" else (k, r)

    # -- equality through the classes' own compareAttributes
    def compare_attrs(self, inst: Inst) -> Optional[List[str]]:
        n = inst.cls.name
        if n == "Name":
            return ["name"]
        if n == "Charstr":
            return ["string"]
        if n == "Query":
            return ["name", "type", "cls"]
        r = mro_lookup(self.mod, inst.cls, "compareAttributes")
        if r is None:
            return None
        try:
            return list(ast.literal_eval(r[1]))
        except ValueError:
            _fail(f"{n}.compareAttributes is not a literal")

    def diff(self, a, b, path="") -> Optional[str]:
        if isinstance(a, Inst) and isinstance(b, Inst):
            if a.cls is not b.cls:
                return f"{path}: {a.cls.name} became {b.cls.name}"
            attrs = self.compare_attrs(a)
            if attrs is None:
                _fail(f"{a.cls.name} has no compareAttributes")
            if a.cls.name == "Record_A6":
                nb = int((128 - a.fields.get("prefixLen", 0)) / 8.0)
                sa_, sb_ = a.fields.get("suffix", b""), b.fields.get("suffix", b"")
                if nb and sa_[-nb:] != sb_[-nb:]:
                    return f"{path}.suffix: {sa_!r} became {sb_!r}"
                attrs = [x for x in attrs if x != "suffix"]
            for at in attrs:
                if at in ("name", "type") and a.cls.name == "_OPTHeader":
                    continue
                va = a.fields.get(at, "<unset>")
                vb = b.fields.get(at, "<unset>")
                d = self.diff(va, vb, f"{path}.{at}" if path else f"{a.cls.name}.{at}")
                if d:
                    return d
            return None
        if isinstance(a, list) and isinstance(b, list):
            if len(a) != len(b):
                return f"{path}: {len(a)} items became {len(b)}"
            for i, (x, y) in enumerate(zip(a, b)):
                d = self.diff(x, y, f"{path}[{i}]")
                if d:
                    return d
            return None
        if isinstance(a, (Inst, list)) != isinstance(b, (Inst, list)):
            return f"{path}: {_short(a)} became {_short(b)}"
        if isinstance(a, bool) or isinstance(b, bool):
            return None if bool(a) == bool(b) and isinstance(a, (bool, int)) and isinstance(b, (bool, int)) else f"{path}: {a!r} became {b!r}"
        return None if (a == b and (type(a) is type(b) or isinstance(a, (int, bool)))) else f"{path}: {_short(a)} became {_short(b)}"


def _short(v) -> str:
    if isinstance(v, Inst):
        return f"<{v.cls.name} {', '.join(f'{k}={_short(x)}' for k, x in list(v.fields.items())[:4])}>"
    if isinstance(v, list):
        return "[" + ", ".join(_short(x) for x in v[:6]) + ("]" if len(v) <= 6 else ", ..]")
    if isinstance(v, (bytes, bytearray)) and len(v) > 24:
        return f"<{len(v)} bytes {bytes(v[:4])!r}..>"
    return repr(v)


def record_samples(w: World) -> Dict[str, List[Inst]]:
    C, N, S = w.C, w.name, w.charstr
    out: Dict[str, List[Inst]] = {}
    for simple in ("NS", "MD", "MF", "CNAME", "MB", "MG", "MR", "PTR", "DNAME"):
        out["Record_" + simple] = [Inst(C("Record_" + simple), name=N(b"target.example.org"))]
    out["Record_A"] = [Inst(C("Record_A"), address=b"\x01\x02\x03\x04")]
    out["Record_AAAA"] = [Inst(C("Record_AAAA"), address=bytes(range(16)))]
    out["Record_SOA"] = [Inst(C("Record_SOA"), mname=N(b"ns.example.org"), rname=N(b"admin.example.org"), serial=4000000000, refresh=-1, retry=2, expire=2147483647, minimum=4294967295)]
    out["Record_NULL"] = [Inst(C("Record_NULL"), payload=b"\x00\xffnull"), Inst(C("Record_NULL"), payload=b"")]
    out["Record_WKS"] = [Inst(C("Record_WKS"), address=b"\x0a\x00\x00\x01", protocol=6, map=b"\x00\x80"), Inst(C("Record_WKS"), address=b"\x0a\x00\x00\x01", protocol=255, map=b"")]
    out["Record_A6"] = [Inst(C("Record_A6"), prefixLen=0, suffix=bytes(range(1, 17)), prefix=N(b""), bytes=16),
                        Inst(C("Record_A6"), prefixLen=64, suffix=b"\x00" * 8 + bytes(range(1, 9)), prefix=N(b"pre.example.org"), bytes=8)]
    out["Record_SRV"] = [Inst(C("Record_SRV"), priority=1, weight=65535, port=5060, target=N(b"sip.example.org"))]
    out["Record_NAPTR"] = [Inst(C("Record_NAPTR"), order=100, preference=10, flags=S(b"S"), service=S(b"SIP+D2U"), regexp=S(b""), replacement=N(b"_sip._udp.example.org"))]
    out["Record_AFSDB"] = [Inst(C("Record_AFSDB"), subtype=2, hostname=N(b"afs.example.org"))]
    out["Record_RP"] = [Inst(C("Record_RP"), mbox=N(b"who.example.org"), txt=N(b"txt.example.org"))]
    out["Record_HINFO"] = [Inst(C("Record_HINFO"), cpu=b"x86", os=b"linux"), Inst(C("Record_HINFO"), cpu=b"", os=b"")]
    out["Record_MINFO"] = [Inst(C("Record_MINFO"), rmailbx=N(b"r.example.org"), emailbx=N(b"e.example.org"))]
    out["Record_MX"] = [Inst(C("Record_MX"), preference=10, name=N(b"mail.example.org"))]
    out["Record_SSHFP"] = [Inst(C("Record_SSHFP"), algorithm=4, fingerprintType=2, fingerprint=bytes(range(32)))]
    out["Record_TXT"] = [Inst(C("Record_TXT"), data=[b"k=v", b"", b"tail"]), Inst(C("Record_TXT"), data=[]), Inst(C("Record_TXT"), data=[b"x" * 255])]
    out["Record_SPF"] = [Inst(C("Record_SPF"), data=[b"v=spf1", b"-all"])]
    out["Record_TSIG"] = [Inst(C("Record_TSIG"), algorithm=N(b"hmac-sha256"), timeSigned=0xABCDEF012345, fudge=300, MAC=bytes(range(16)), originalID=0xBEEF, error=17, otherData=b"od")]
    return out


def _encode_decode(w: World, msg: Inst, cls: str = "Message"):
    """-> (problem text or None, wire or None, decoded message or None)"""
    k, wire = w.to_wire(msg)
    if k != "value" or not isinstance(wire, bytes):
        return f"toStr() gives {wire!r} ({k})", None, None
    k, back = w.from_wire(wire, cls)
    if k != "value":
        return f"its own encoding ({len(wire)} bytes, {_short(wire)}) is refused by fromStr(): {back}", wire, None
    return w.diff(msg, back), wire, back


# ---- evaluated rules ---------------------------------------------------------------------------------------------------

def check_records(ctx, w: World):
    samples = record_samples(w)
    recs = [n for n in w.cls if n.startswith("Record_")]
    missing = sorted(set(recs) - set(samples))
    if missing:
        ctx.note(f"no sample values for {missing}: only the static registry rules apply to them")
    ctx.floor("roundtrip/record", len(samples), 26, "record classes with samples")
    for cname in sorted(samples):
        with ctx.section(f"record {cname}"):
            bad = None
            for payload in samples[cname]:
                msg = w.message(answer=1, queries=[w.query(b"Host.Example.org", 255)], answers=[w.rr(b"host.example.org", payload, ttl=86400)],
                                additional=[w.rr(b"tail.example.org", Inst(w.C("Record_A"), address=b"\x7f\x00\x00\x01"), ttl=1)])
                d, wire, back = _encode_decode(w, msg)
                if d:
                    bad = bad or f"{_short(payload)}: {d}"
                    continue
                try:
                    p = parse_message(wire)
                except ParseError as e:
                    bad = bad or f"{_short(payload)} encodes to a message an independent parser rejects: {e}"
                    continue
                a = p["sections"][0]
                want_t = class_const(w.mod, payload.cls, "TYPE", w.consts)
                if p["counts"] != (1, 1, 0, 1) or len(a) != 1 or a[0][:4] != (b"host.example.org", want_t, 1, 86400) or p["sections"][2][0][4] != b"\x7f\x00\x00\x01":
                    bad = bad or f"{_short(payload)}: an independent parser reads counts {p['counts']} and answer {a[0][:4] if a else None} (expected owner host.example.org, type {want_t}, ttl 86400) " \
                                 "or finds the following record displaced (RDLENGTH does not frame the RDATA)"
            ctx.check(bad is None, "roundtrip/record", f"{Q}.{cname} | encode/decode", bad or "", detail=f"{len(samples[cname])} instances inside a message")
    # unknown type and opaque payloads
    with ctx.section("unknown record types"):
        bad = None
        for data in (b"", b"\x01\x02\x03", b"x" * 300):
            u = Inst(w.C("UnknownRecord"), data=data)
            msg = w.message(answers=[w.rr(b"u.example.org", u, ttl=5, type_=65280), w.rr(b"after.example.org", Inst(w.C("Record_A"), address=b"\x09\x09\x09\x09"), ttl=6)])
            d, wire, back = _encode_decode(w, msg)
            if d:
                bad = bad or f"a record of unregistered type 65280 with {len(data)} bytes of RDATA: {d}"
        ctx.check(bad is None, "roundtrip/unknown-type", f"{Q}.UnknownRecord | encode/decode", bad or "")


def check_a6_prefix_lengths(ctx, w: World):
    """The A6 RDATA is  prefixLen | suffix (as many octets as the class derives from prefixLen) | prefix name (absent for prefixLen 0): the writer and
    the reader must agree on the two conditional fields for EVERY prefix length.  All 129 values are evaluated on the record's own encode/decode (RDATA
    as expected, the reader consumes exactly the RDATA, the record comes back equal); the boundary values are evaluated once more inside a whole message
    followed by another record."""
    bad: Dict[int, str] = {}
    pre = b"pre.example.org"
    wire_pre = b"".join(bytes([len(l)]) + l for l in pre.split(b".")) + b"\x00"
    cls = w.C("Record_A6")
    ev = w.ev()

    def sample(p):
        nb = (128 - p) // 8          # the class keeps whole octets only (derived field `bytes`)
        suffix = b"\x00" * (16 - nb) + bytes(range(0xA1, 0xA1 + nb))
        return nb, suffix, Inst(cls, prefixLen=p, suffix=suffix, prefix=w.name(pre if p else b""), bytes=nb, ttl=None), bytes([p]) + suffix[16 - nb:] + (wire_pre if p else b"")

    for p in range(129):
        nb, suffix, payload, want = sample(p)
        buf = io.BytesIO()
        k, v = w.run("Record_A6.encode", lambda: ev.method(payload, "encode", [buf, None]))
        rdata = buf.getvalue()
        if k != "value" or rdata != want:
            bad[p] = (f"encode() {'raises ' + str(v) if k != 'value' else 'writes'} {len(rdata)} octets {_short(rdata)}, expected {len(want)} (prefix length, {nb} suffix octets"
                      f"{', prefix name' if p else ''})")
            continue
        k, back = w.run("Record_A6()", lambda: ev.construct(cls, [], {}))
        if k != "value":
            _fail(f"Record_A6() cannot be constructed: {back}")
        rd = io.BytesIO(rdata + b"\x7f\x00\x00\x01")
        k, v = w.run("Record_A6.decode", lambda: ev.method(back, "decode", [rd, len(rdata)]))
        if k != "value":
            bad[p] = f"its own RDATA ({len(rdata)} octets) is refused by decode(): {v}"
        elif rd.tell() != len(rdata):
            bad[p] = f"decode() consumes {rd.tell()} of the {len(rdata)} RDATA octets: the following record is displaced"
        else:
            d = w.diff(payload, back)
            if d:
                bad[p] = d
    for p in (0, 1, 7, 8, 9, 64, 119, 120, 121, 127, 128):
        if p in bad:
            continue
        nb, suffix, payload, want = sample(p)
        msg = w.message(answer=1, answers=[w.rr(b"host.example.org", payload, ttl=60), w.rr(b"tail.example.org", Inst(w.C("Record_A"), address=b"\x7f\x00\x00\x01"), ttl=1)])
        d, wire, back = _encode_decode(w, msg)
        if d:
            bad[p] = d
            continue
        try:
            pm = parse_message(wire)
        except ParseError as e:
            bad[p] = f"an independent parser rejects the encoding: {e}"
            continue
        a = pm["sections"][0]
        if len(a) != 2 or a[0][4] != want or a[1][4] != b"\x7f\x00\x00\x01":
            bad[p] = (f"inside a message the RDATA is {len(a[0][4]) if a else '?'} octets {_short(a[0][4]) if a else ''}, expected {len(want)}, or the following record is displaced")
    ks = sorted(bad)
    ctx.check(not bad, "roundtrip/a6-prefix-lengths", f"{Q}.Record_A6 | <every prefix length 0..128>",
              (f"prefix length {ks[0]}: {bad[ks[0]]} ({len(ks)} of 129 prefix lengths fail: {ks[0]}..{ks[-1]})") if bad else "",
              detail="129 prefix lengths on the record's own codec; 11 boundary values again inside a message with a following record")


def check_header(ctx, w: World):
    flags = ("answer", "auth", "trunc", "recDes", "recAv", "authenticData", "checkingDisabled")
    cases = [dict()] + [{f: 1} for f in flags] + [{f: 1 for f in flags}] + [{"opCode": v} for v in (1, 2, 4, 5, 15)] + [{"rCode": v} for v in (1, 3, 5, 15)] + \
        [{"id": v} for v in (0, 1, 65535)] + [dict({f: 1 for f in flags}, opCode=15, rCode=15, id=65535)]
    bad = None
    for kw in cases:
        if kw.get("trunc"):
            pass
        msg = w.message(queries=[w.query(b"example.org")], **kw)
        d, wire, back = _encode_decode(w, msg)
        if d:
            bad = bad or f"header {kw}: {d}"
            continue
        p = parse_message(wire)
        for f in flags + ("opCode", "rCode", "id"):
            if p[f] != msg.fields[f]:
                bad = bad or f"header {kw}: an independent parser reads {f}={p[f]} (RFC 1035 4.1.1 / RFC 2535 6.1 bit positions); the message has {f}={msg.fields[f]}"
        if p["z"]:
            bad = bad or f"header {kw}: the reserved Z bit is set"
    ctx.check(bad is None, "roundtrip/header", f"{Q}.Message | <header fields>", bad or "", detail=f"{len(cases)} flag/opcode/rcode/id combinations")
    # sections with distinct counts
    A = lambda i: Inst(w.C("Record_A"), address=bytes([10, 0, 0, i]))
    msg = w.message(answer=1, queries=[w.query(b"q1.example.org"), w.query(b"q2.example.org", 28)],
                    answers=[w.rr(b"a1.example.org", A(1))], authority=[w.rr(b"n%d.example.org" % i, A(10 + i)) for i in range(2)],
                    additional=[w.rr(b"x%d.example.org" % i, A(20 + i)) for i in range(3)])
    d, wire, back = _encode_decode(w, msg)
    bad = d
    if not bad:
        p = parse_message(wire)
        if p["counts"] != (2, 1, 2, 3) or [len(s) for s in p["sections"]] != [1, 2, 3] or [r[4][3] for s in p["sections"] for r in s] != [1, 10, 11, 20, 21, 22]:
            bad = f"an independent parser reads counts {p['counts']} and records {[r[4] for s in p['sections'] for r in s]}: the sections are not written in the order answers, authority, additional"
    ctx.check(bad is None, "roundtrip/sections", f"{Q}.Message | <four sections, counts 2/1/2/3>", bad or "")


def check_compression(ctx, w: World):
    A = lambda i: Inst(w.C("Record_A"), address=bytes([10, 0, i // 256, i % 256]))
    NS = lambda n: Inst(w.C("Record_NS"), name=w.name(n))
    scenarios = {
        "shared suffixes": [w.rr(b"example.org", A(1)), w.rr(b"www.example.org", A(2)), w.rr(b"ftp.example.org", NS(b"www.example.org")), w.rr(b"org", A(3)), w.rr(b"a.b.c.example.org", NS(b"c.example.org"))],
        "case variants": [w.rr(b"Example.ORG", A(1)), w.rr(b"example.org", A(2)), w.rr(b"WWW.example.org", NS(b"www.Example.org"))],
        "repeated name": [w.rr(b"same.example.org", A(i)) for i in range(5)],
        "root and single labels": [w.rr(b"", NS(b"a")), w.rr(b"a", NS(b"")), w.rr(b"b.a", A(1))],
        "63-byte labels": [w.rr(b"x" * 63 + b".example.org", NS(b"y" * 63 + b"." + b"x" * 63 + b".example.org"))],
    }
    nested, n = [], b"example.org"
    for i in range(40):
        nested.append(w.rr(n, A(i)))
        n = b"h%d." % i + n
    scenarios["40 nested levels (one more pointer hop per level)"] = nested
    for label, answers in scenarios.items():
        msg = w.message(answer=1, queries=[w.query(answers[0].fields["name"].fields["name"])], answers=answers)
        d, wire, back = _encode_decode(w, msg)
        bad = d
        if not bad:
            try:
                p = parse_message(wire)
                got = [r[0] for r in p["sections"][0]]
                want = [a.fields["name"].fields["name"] for a in answers]
                if got != want:
                    bad = f"an independent parser reads the owner names {got!r}; the message has {want!r}"
            except ParseError as e:
                bad = f"an independent parser rejects the encoding: {e}"
        ctx.check(bad is None, "roundtrip/compression", f"{Q}.Name | <{label}>", (f"names with {label}: " + bad) if bad else "")


def check_name_limits(ctx, w: World):
    q = Q + ".Name.encode"
    ctx.func(DNS, "Name.encode")
    ev = w.ev()
    buf = io.BytesIO()
    k, r = w.run("Name.encode", lambda: ev.method(w.name(b"a" * 64 + b".com"), "encode", [buf, None]))
    ctx.check(k == "raised", "name-evaluated/label-length-limit", q + " | <label longer than 63 bytes>",
              "Name(b'a'*64 + b'.com').encode() writes the length byte 0x40 and a 200-byte label writes 0xc8: the two top bits of that byte mean "
              "'compression pointer' to every reader, so the name is not refused and does not decode to itself (labels are limited to 63 bytes)")
    # a name first written beyond offset 0x3FFF must not be referred to by a pointer later on (the pointer has 14 bits)
    buf = io.BytesIO()
    buf.write(b"\x00" * 0x3FF0)
    comp: Dict[bytes, int] = {}
    k, r = w.run("Name.encode", lambda: ev.method(w.name(b"www.example.org"), "encode", [buf, comp]))
    first_end = buf.tell()
    k2, r2 = w.run("Name.encode", lambda: ev.method(w.name(b"ftp.example.org"), "encode", [buf, comp]))
    second = buf.getvalue()[first_end:]
    true_off = 0x3FF0 + 12 + 4          # where "example.org" really starts in the message
    mis = False
    if k == "value" and k2 == "value" and len(second) >= 2 and second[-2] & 0xC0 == 0xC0 and not second.endswith(b"\x03org\x00"):
        mis = ((second[-2] & 0x3F) << 8 | second[-1]) != true_off
    ctx.check(k == "value" and k2 == "value" and not mis and (second.endswith(b"\x03org\x00") or not mis), "name-evaluated/pointer-offset-limit",
              q + " | <compression pointer to an offset >= 0x4000>",
              "a name that was first written at offset >= 0x4000 is referenced with 0xC000 | offset, which a reader decodes as offset & 0x3FFF: "
              "in a 26 KiB message the last owner name decodes to bytes from the middle of another record")
    # pointers and offsets are relative to the start of the message
    buf = io.BytesIO(b"")
    comp2: Dict[bytes, int] = {}
    k, r = w.run("Name.encode", lambda: ev.method(w.name(b"www.example.org"), "encode", [buf, comp2]))
    hs = 12
    ctx.check(k == "value" and comp2 == {b"www.example.org": hs, b"example.org": hs + 4, b"org": hs + 12} and buf.getvalue() == b"\x03www\x07example\x03org\x00",
              "name-evaluated/pointer-form", q + " | <offsets recorded>", f"encoding www.example.org at body offset 0 records {comp2!r} and writes {buf.getvalue()!r}; every suffix must be remembered at "
              "its offset from the start of the message (header size 12)")
    buf = io.BytesIO()
    k, r = w.run("Name.encode", lambda: ev.method(w.name(b"ftp.example.org"), "encode", [buf, {b"example.org": 0x0123}]))
    ctx.check(k == "value" and buf.getvalue() == b"\x03ftp\xc1\x23", "name-evaluated/pointer-form", q + " | <pointer written>",
              f"ftp.example.org with example.org known at offset 0x123 is written as {buf.getvalue()!r}; expected b'\\x03ftp\\xc1\\x23' (RFC 1035 4.1.4)")


def check_truncation(ctx, w: World):
    q = Q + ".Message.encode"
    A = lambda i: Inst(w.C("Record_A"), address=bytes([10, 0, 0, i]))
    mk = lambda limit: w.message(answer=1, maxSize=limit, queries=[w.query(b"example.org")], answers=[w.rr(b"r%02d.example.org" % i, A(i)) for i in range(12)])
    k, full = w.to_wire(mk(0))
    if k != "value":
        _fail(f"Message.toStr raises {full}")
    size = len(full)
    bad = None
    for limit in (size + 1, size, size - 1, size - 17, 100, 40, 13):
        msg = mk(limit)
        k, wire = w.to_wire(msg)
        if k != "value":
            bad = bad or f"limit {limit}: toStr() raises {wire}"
            continue
        must_cut = size > limit
        try:
            p = parse_message(wire)
        except ParseError as e:
            bad = bad or f"limit {limit} (full size {size}): an independent parser rejects the {len(wire)}-byte output: {e}"
            continue
        if len(wire) > limit:
            bad = bad or f"limit {limit}: the output has {len(wire)} bytes"
        if bool(p["trunc"]) != must_cut:
            bad = bad or f"limit {limit}, full size {size}: the TC bit on the wire is {p['trunc']} although the message {'was' if must_cut else 'was not'} cut"
        if not must_cut and wire != full:
            bad = bad or f"limit {limit} >= full size {size}: the output differs from the unlimited encoding"
        if must_cut and len(wire) != limit:
            bad = bad or f"limit {limit}: the cut output has {len(wire)} bytes instead of using the limit"
        kk, back = w.from_wire(wire)
        if kk != "value":
            bad = bad or f"limit {limit}: decoding the truncated message raises {back}"
            continue
        got = back.fields.get("answers", [])
        want = msg.fields["answers"][:len(got)]
        d = w.diff(want, got, "answers")
        if d or len(got) > 12 or (not must_cut and len(got) != 12):
            bad = bad or f"limit {limit}: the decoded answers are not a prefix of the original records ({d or str(len(got)) + ' records'})"
        if bool(back.fields.get("trunc")) != must_cut:
            bad = bad or f"limit {limit}: decoded trunc={back.fields.get('trunc')!r}"
    ctx.check(bad is None, "truncation/limit", q + " | <size limits around the exact size>", bad or "", detail=f"full size {size}; limits size+1, size, size-1, ... 13")


def check_edns(ctx, w: World):
    q = Q + "._EDNSMessage"
    for name in ("_toMessage", "_fromMessage", "fromStr", "toStr"):
        ctx.func(DNS, f"_EDNSMessage.{name}")
    A = lambda i: Inst(w.C("Record_A"), address=bytes([10, 0, 0, i]))
    base = dict(id=7, answer=False, opCode=0, auth=False, trunc=False, recDes=True, recAv=False, rCode=0, ednsVersion=0, dnssecOK=False, authenticData=False,
                checkingDisabled=False, maxSize=4096, queries=[], answers=[], authority=[], additional=[])
    cases = [dict(), dict(ednsVersion=None, maxSize=512), dict(dnssecOK=True), dict(ednsVersion=1), dict(rCode=16), dict(rCode=0xABC), dict(rCode=0xFFF, dnssecOK=True, ednsVersion=255, maxSize=65535),
             dict(rCode=5, maxSize=1232), dict(answer=True, auth=True, recAv=True, authenticData=True, checkingDisabled=True)]
    bad = None
    for kw in cases:
        f = dict(base)
        f.update(kw)
        f["queries"] = [w.query(b"example.org")]
        f["answers"] = [w.rr(b"example.org", A(1), auth=f["auth"])]
        f["additional"] = [w.rr(b"extra.example.org", A(2), auth=f["auth"])]
        msg = Inst(w.C("_EDNSMessage"), **f)
        d, wire, back = _encode_decode(w, msg, "_EDNSMessage")
        if d:
            bad = bad or f"_EDNSMessage({kw}): {d}"
            continue
        p = parse_message(wire)
        opts = [r for r in p["sections"][2] if r[1] == 41]
        if f["ednsVersion"] is None:
            if opts:
                bad = bad or f"_EDNSMessage({kw}): an OPT record is sent although EDNS is off"
            continue
        if len(opts) != 1:
            bad = bad or f"_EDNSMessage({kw}): {len(opts)} OPT records on the wire"
            continue
        name, t, c, ttl, rdata, _ = opts[0]
        want_ttl = ((f["rCode"] >> 4) << 24) | (f["ednsVersion"] << 16) | (int(f["dnssecOK"]) << 15)
        if name != b"" or c != f["maxSize"] or ttl != want_ttl or p["rCode"] != f["rCode"] & 15:
            bad = bad or f"_EDNSMessage({kw}): the OPT record on the wire has name {name!r}, CLASS {c}, TTL {ttl:#010x}, header RCODE {p['rCode']}; RFC 6891 6.1 requires root name, " \
                         f"CLASS = payload size {f['maxSize']}, TTL = {want_ttl:#010x} (ext. RCODE | version | DO), header RCODE = {f['rCode'] & 15}"
    ctx.check(bad is None, "roundtrip/edns", q + " | toStr/fromStr", bad or "", detail=f"{len(cases)} EDNS parameter sets")
    # OPT options
    with ctx.section("OPT options"):
        opt = Inst(w.C("_OPTHeader"), udpPayloadSize=1232, extendedRCODE=3, version=0, dnssecOK=True,
                   options=[Inst(w.C("_OPTVariableOption"), code=3, data=b"nsid"), Inst(w.C("_OPTVariableOption"), code=10, data=b""), Inst(w.C("_OPTVariableOption"), code=65001, data=b"x" * 300)])
        ev = w.ev()
        buf = io.BytesIO()
        k, r = w.run("_OPTHeader.encode", lambda: ev.method(opt, "encode", [buf, None]))
        bad = None
        if k != "value":
            bad = f"_OPTHeader.encode raises {r}"
        else:
            k2, o2 = w.run("_OPTHeader()", lambda: ev.construct(w.C("_OPTHeader"), [], {}))
            k3, r3 = w.run("_OPTHeader.decode", lambda: ev.method(o2, "decode", [io.BytesIO(buf.getvalue())]))
            bad = f"_OPTHeader.decode raises {r3}" if k3 != "value" else w.diff(opt, o2)
            if not bad:
                wire = buf.getvalue()
                want = b"\x00" + struct.pack(">HHIH", 41, 1232, (3 << 24) | (1 << 15), 4 + 4 + 4 + 0 + 4 + 300) + struct.pack(">HH", 3, 4) + b"nsid" + struct.pack(">HH", 10, 0) + struct.pack(">HH", 65001, 300) + b"x" * 300
                if wire != want:
                    bad = f"the OPT record with three options is written as {_short(wire)}; RFC 6891 6.1.2 layout is {_short(want)}"
        ctx.check(bad is None, "roundtrip/edns", Q + "._OPTHeader | encode/decode with options", bad or "")
        # every sequence of up to three options with 0, 1 or 5 data octets: empty options first, in the middle and LAST
        import itertools as _it
        badg, n_g = None, 0
        for n_opts in (1, 2, 3):
            for lens in _it.product((0, 1, 5), repeat=n_opts):
                n_g += 1
                options = [Inst(w.C("_OPTVariableOption"), code=3 + i, data=bytes(range(1, 1 + ln))) for i, ln in enumerate(lens)]
                hdr = Inst(w.C("_OPTHeader"), udpPayloadSize=4096, extendedRCODE=0, version=0, dnssecOK=False, options=options)
                buf = io.BytesIO()
                k, r = w.run("_OPTHeader.encode", lambda: ev.method(hdr, "encode", [buf, None]))
                if k != "value":
                    badg = badg or f"option data lengths {lens}: encode raises {r}"
                    continue
                wire = buf.getvalue()
                rdata = wire[11:]
                want_rdata = b"".join(struct.pack(">HH", 3 + i, ln) + bytes(range(1, 1 + ln)) for i, ln in enumerate(lens))
                if rdata != want_rdata:
                    badg = badg or f"option data lengths {lens}: RDATA {_short(rdata)} differs from the RFC 6891 layout {_short(want_rdata)}"
                    continue
                k2, o2 = w.run("_OPTHeader()", lambda: ev.construct(w.C("_OPTHeader"), [], {}))
                k3, r3 = w.run("_OPTHeader.decode", lambda: ev.method(o2, "decode", [io.BytesIO(wire)]))
                d = f"decode raises {r3}" if k3 != "value" else w.diff(hdr, o2)
                if d:
                    got = [len(o.fields.get("data", b"")) for o in (o2.fields.get("options") or [])] if k3 == "value" else None
                    badg = badg or f"options with data lengths {lens} decode as options with data lengths {got}: {d}"
        ctx.check(badg is None, "roundtrip/opt-option-grid", Q + "._OPTHeader | <up to three options of 0 / 1 / 5 data octets>", badg or "", detail=f"{n_g} option sequences")


_ROUNDTRIP_CASES = {
    "Record_TXT": (("data",), [([],), ([b""],), ([b"", b"a"],), ([b"k=v", b"", b"tail"],), ([b"a", b""],), ([b"x" * 255],), ([b"x" * 256],), ([b"a", b"x" * 255, b""],)]),
    "Record_SPF": (("data",), [([b""],), ([b"v=spf1", b"", b"-all"],)]),
    "Record_HINFO": (("cpu", "os"), [(b"", b""), (b"", b"linux"), (b"x86", b""), (b"c" * 255, b"o"), (b"c" * 256, b"o")]),
    "Charstr": (("string",), [(b"",), (b"a",), (b"s" * 255,), (b"s" * 256,)]),
    "_OPTVariableOption": (("code", "data"), [(3, b""), (3, b"abc"), (65535, b"\x00" * 300)]),
    "UnknownRecord": (("data",), [(b"",), (b"xyz",)]),
    "Record_NULL": (("payload",), [(b"",), (b"xyz",)]),
    "Record_SSHFP": (("algorithm", "fingerprintType", "fingerprint"), [(1, 2, b""), (4, 1, b"f" * 20)]),
    "Record_WKS": (("address", "protocol", "map"), [(b"\x01\x02\x03\x04", 6, b""), (b"\x01\x02\x03\x04", 17, b"\x00\x80")]),
}


def check_leaf_codecs(ctx, w: World):
    for cname, (attrs, samples) in _ROUNDTRIP_CASES.items():
        with ctx.section(f"leaf codec {cname}"):
            c = w.C(cname)
            bad = None
            n = 0
            for vals in samples:
                ev = w.ev()
                src_inst = Inst(c, **{a: (list(v) if isinstance(v, list) else v) for a, v in zip(attrs, vals)})
                buf = io.BytesIO()
                k, r = w.run(f"{cname}.encode", lambda: ev.method(src_inst, "encode", [buf]))
                n += 1
                shown = ", ".join(f"{a}={_short(v)}" for a, v in zip(attrs, vals))
                if k == "raised":
                    fits = all(len(x) <= 255 for v in vals for x in (v if isinstance(v, list) else [v]) if isinstance(x, bytes)) or cname in ("UnknownRecord", "Record_NULL", "_OPTVariableOption")
                    if fits:
                        bad = bad or f"{cname}({shown}).encode() raises {r} although every item fits the format"
                    continue
                wire = buf.getvalue()
                dst = Inst(c)
                k, r = w.run(f"{cname}.decode", lambda: ev.method(dst, "decode", [io.BytesIO(wire), len(wire)]))
                if k == "raised":
                    bad = bad or f"{cname}({shown}) encodes to {_short(wire)} which {cname}.decode refuses with {r}"
                    continue
                for a, v in zip(attrs, vals):
                    got = dst.fields.get(a, "<unset>")
                    if got != v or type(got) is not type(v):
                        bad = bad or f"{cname}({shown}) encodes to {_short(wire)} and decodes to {a}={_short(got)}"
            ctx.check(bad is None, "roundtrip/empty-and-boundary-items", f"{Q}.{cname} | encode/decode", bad or "", detail=f"{n} concrete instances interpreted")


def check_decoded_fields_compared(ctx, w: World):
    """Every attribute a decoder sets takes part in == (else a mangled field would go unnoticed); evaluated on the decoded sample records."""
    allowed = {("RRHeader", "rdlength"): "derived from the payload length", ("Record_A6", "bytes"): "derived from prefixLen"}
    samples = record_samples(w)
    for cname in sorted(samples):
        with ctx.section(f"compared fields {cname}"):
            payload = samples[cname][0]
            msg = w.message(answers=[w.rr(b"host.example.org", payload)])
            k, wire = w.to_wire(msg)
            if k != "value":
                continue
            k, back = w.from_wire(wire)
            if k != "value" or not back.fields.get("answers"):
                continue
            dec = back.fields["answers"][0].fields.get("payload")
            if not isinstance(dec, Inst):
                continue
            attrs = w.compare_attrs(dec) or []
            fresh_k, fresh_o = w.run(f"{cname}()", lambda: w.ev().construct(dec.cls, [], {}))
            base = set(fresh_o.fields) if fresh_k == "value" else set()
            for a in sorted(dec.fields):
                if a in attrs or a.startswith("_") or (dec.cls.name, a) in allowed or a == "ttl":     # ttl comes from the enclosing header (constructor argument)
                    continue
                if a in base and dec.fields.get(a) == (fresh_o.fields.get(a) if fresh_k == "value" else None):
                    continue
                ctx.violation("equality/decoded-fields-evaluated", f"{Q}.{cname} | {a}",
                              f"{cname}.decode sets self.{a} but compareAttributes {tuple(attrs)} ignores it: two records differing only there compare equal "
                              "(a round trip would not notice a mangled field)")
            ctx.ok("equality/decoded-fields-evaluated", f"{Q}.{cname} | <decoded fields>", f"{sorted(dec.fields)}")


# ---- static registry rules ---------------------------------------------------------------------------------------------

def check_registry(ctx, mod, consts):
    classes = module_classes(mod)
    recs = [c for n, c in classes.items() if n.startswith("Record_")]
    ctx.floor("registry/record-types", len(recs), 26, "Record_* classes")
    body = mod.tree.body
    msg = classes.get("Message") or _fail("Message vanished")
    mi = body.index(msg)
    types: Dict[object, str] = {}
    for c in recs:
        q = f"{Q}.{c.name}"
        ctx.check(body.index(c) < mi, "registry/record-types", q + " | <defined before Message>", f"{c.name} is defined after Message: Message._recordTypes (built from globals() while the "
                  "class body runs) does not contain it, its records decode as UnknownRecord and no longer compare equal")
        t = class_const(mod, c, "TYPE", consts)
        ctx.check(isinstance(t, int) and not isinstance(t, bool), "registry/record-types", q + " | TYPE", f"{c.name}.TYPE is {t!r}")
        if isinstance(t, int):
            ctx.check(t not in types, "registry/distinct-types", q + " | TYPE", f"{c.name} and {types.get(t)} share TYPE {t}: one of them is unreachable from the registry")
            types.setdefault(t, c.name)
        init = mro_lookup(mod, c, "__init__")
        ok = init is not None and isinstance(init[1], ast.FunctionDef) and (any(a.arg == "ttl" for a in init[1].args.args + init[1].args.kwonlyargs) or init[1].args.kwarg is not None)
        ctx.check(ok, "registry/constructible", q + " | __init__(ttl=)", f"Message.parseRecords builds the payload as {c.name}(ttl=...): the constructor does not accept it")
    # the table is still produced by scanning the module namespace for Record_* names
    scans = [x for x in ast.walk(msg) if isinstance(x, ast.Constant) and x.value == "Record_"]
    ctx.check(bool(scans) and any(isinstance(x, ast.Call) and isinstance(x.func, ast.Name) and x.func.id == "globals" for x in ast.walk(msg)), "registry/table-built", f"{Q}.Message | _recordTypes",
              "the registry is no longer filled from every global whose name starts with 'Record_' (the interpreted round trips assume exactly that table)")


# ---- structural layer ---------------------------------------------------------------------------------------------------

FORMAT_TABLE_EXCEPTIONS = {
    "Name": "a compression pointer is packed as !H and read back as two single bytes (its form is checked by name/pointer-form and the compression round trips)",
    "RRHeader": "rdlength is written as 0 and patched afterwards with a second !H (checked by the record round trips)",
    "Record_TSIG": "48-bit time: pack('!Q')[2:] is read back as two zero bytes + !QHH",
    "_OPTHeader": "delegates to RRHeader with an UnknownRecord payload",
}


def _reachable_private(cls: ast.ClassDef, start: ast.AST, mod) -> List[ast.AST]:
    ms = methods(cls)
    out, todo = [], [start]
    while todo:
        f = todo.pop()
        if any(f is x for x in out):
            continue
        out.append(f)
        for c in ast.walk(f):
            if isinstance(c, ast.Call) and isinstance(c.func, ast.Attribute) and isinstance(c.func.value, ast.Name) and c.func.value.id in ("self", "cls", cls.name) \
                    and c.func.attr.startswith("_") and not c.func.attr.startswith("__") and c.func.attr in ms:
                todo.append(ms[c.func.attr])
            if isinstance(c, ast.Call) and isinstance(c.func, ast.Name) and c.func.id.startswith("_"):
                d = mod.find(c.func.id)
                if isinstance(d, ast.FunctionDef) and d.name not in ("_ord2bytes",):
                    todo.append(d)
    return out


def _codes_of(funcs, mod, cls, consts, side: str):
    """Multiset of struct codes written (side='w') or read (side='r') with constant formats; None if some format is computed."""
    from sa.astx import call_name, const_eval, NotConst
    from sa.props._lib_g import struct_codes
    codes: List[str] = []
    names = ("struct.pack", "pack") if side == "w" else ("struct.unpack", "unpack")
    for f in funcs:
        params = {a.arg for a in getattr(f.args, "args", [])}
        for c in ast.walk(f):
            if not isinstance(c, ast.Call):
                continue
            nm = call_name(c)
            if nm in names and c.args:
                a0 = c.args[0]
                if isinstance(a0, ast.Name) and a0.id in params:
                    continue          # a read/write helper: its format is the caller's constant, counted at the call site below
                fmt = None
                if isinstance(a0, ast.Attribute) and isinstance(a0.value, ast.Name) and a0.value.id in ("self", "cls", cls.name):
                    fmt = class_const(mod, cls, a0.attr, consts)
                else:
                    try:
                        fmt = const_eval(a0, consts)
                    except NotConst:
                        fmt = None
                if not isinstance(fmt, str):
                    return None
                codes.extend(x for x in struct_codes(fmt) if not x.endswith("s"))
            elif nm and isinstance(c.func, ast.Name) and c.func.id.startswith("_") and len(c.args) >= 2 and isinstance(mod.find(c.func.id), ast.FunctionDef) and c.func.id != "_ord2bytes":
                # module-level read/write helper taking a format argument
                for a in c.args[1:]:
                    fmt = None
                    if isinstance(a, ast.Attribute) and isinstance(a.value, ast.Name) and a.value.id in ("self", "cls", cls.name):
                        fmt = class_const(mod, cls, a.attr, consts)
                    elif isinstance(a, ast.Constant) and isinstance(a.value, str):
                        fmt = a.value
                    if isinstance(fmt, str) and fmt[:1] in "!<>=@" and side == "r":
                        codes.extend(x for x in struct_codes(fmt) if not x.endswith("s"))
            elif side == "w" and nm == "_ord2bytes":
                codes.append("B")
            elif side == "r" and nm == "ord" and c.args:
                from sa.props._lib_g import expand as _expand, single_defs as _sd
                a_ = _expand(c.args[0], _sd(f))
                if isinstance(a_, ast.Call) and call_name(a_) == "readPrecisely":
                    codes.append("B")
    return sorted(codes)


def check_format_tables(ctx, mod, consts):
    """Table agreement, over ALL classes that define both directions: the multiset of fixed-size struct codes the writer packs equals the
    multiset the reader unpacks (raw 's' fields aside).  A signed/unsigned or width disagreement is visible here for every input."""
    n = 0
    for c in [x for x in mod.tree.body if isinstance(x, ast.ClassDef)]:
        ms = methods(c)
        if "encode" not in ms or "decode" not in ms or c.name.startswith("I") and not ms["encode"].body[-1:] == ms["encode"].body[-1:] and False:
            continue
        if any(b == "Interface" for b in [getattr(x, "id", getattr(x, "attr", "")) for x in c.bases]):
            continue
        q = f"{Q}.{c.name}"
        if c.name in FORMAT_TABLE_EXCEPTIONS:
            ctx.ok("layout/format-table", q, "documented exception: " + FORMAT_TABLE_EXCEPTIONS[c.name])
            continue
        enc = _codes_of(_reachable_private(c, ms["encode"], mod), mod, c, consts, "w")
        dec = _codes_of(_reachable_private(c, ms["decode"], mod), mod, c, consts, "r")
        if enc is None or dec is None:
            ctx.note(f"layout/format-table: {c.name} builds a struct format at run time; clause left to roundtrip/record (bounded)")
            continue
        n += 1
        ctx.check(enc == dec, "layout/format-table", q, f"{c.name}.encode packs the fixed-size fields {enc} but decode unpacks {dec}: width or signedness differ for every message carrying this record")
    ctx.floor("layout/format-table", n, 20, "classes with both directions")


def _zero_fact(test, lab: str, text: str) -> Optional[bool]:
    """What taking edge `lab` of `test` says about the expression whose source is `text`: True = it is non-zero there, False = it is zero, None = nothing."""
    flip = lab == "F"
    while isinstance(test, ast.UnaryOp) and isinstance(test.op, ast.Not):
        test, flip = test.operand, not flip
    if src(test) == text:
        return not flip
    if isinstance(test, ast.Compare) and len(test.ops) == 1:
        a, op, b = test.left, test.ops[0], test.comparators[0]
        if src(b) == text and isinstance(a, ast.Constant):
            a, b = b, a
            op = {ast.Lt: ast.Gt, ast.Gt: ast.Lt, ast.LtE: ast.GtE, ast.GtE: ast.LtE}.get(type(op), type(op))()
        if src(a) == text and isinstance(b, ast.Constant) and isinstance(b.value, int) and not isinstance(b.value, bool):
            k = b.value
            if (isinstance(op, ast.Gt) and k >= 0) or (isinstance(op, ast.GtE) and k >= 1) or (isinstance(op, ast.NotEq) and k == 0):
                return True if not flip else (False if (isinstance(op, ast.NotEq) and k == 0) else None)
            if isinstance(op, ast.Eq) and k == 0:
                return False if not flip else True
            if (isinstance(op, ast.LtE) and k == 0) or (isinstance(op, ast.Lt) and k == 1):
                return None if not flip else True
    return None


def check_end_slices(ctx, mod, consts):
    """`x[-n:]` is the last n items only for n != 0: for n == 0 it is ALL of x.  In every function of an encode/decode pair such a slice with a
    computed count must be dominated by a test establishing n != 0 - decided where the class itself shows that 0 is a value the count takes
    (some method tests it for zero / truthiness); otherwise the rule abstains."""
    n_sites = 0
    for c in [x for x in mod.tree.body if isinstance(x, ast.ClassDef)]:
        ms = methods(c)
        if "encode" not in ms or "decode" not in ms:
            continue
        funcs: List[ast.AST] = []
        for side in ("encode", "decode"):
            for f in _reachable_private(c, ms[side], mod):
                if not any(f is x for x in funcs):
                    funcs.append(f)
        tests = [t.test for t in ast.walk(c) if isinstance(t, (ast.If, ast.While, ast.IfExp, ast.Assert))]
        for f in funcs:
            g = None
            for n in ast.walk(f):
                if not (isinstance(n, ast.Subscript) and isinstance(n.slice, ast.Slice) and n.slice.upper is None and n.slice.step is None
                        and isinstance(n.slice.lower, ast.UnaryOp) and isinstance(n.slice.lower.op, ast.USub)):
                    continue
                cnt = n.slice.lower.operand
                if isinstance(cnt, ast.Constant):
                    continue
                n_sites += 1
                text = src(cnt)
                cons = f"{Q}.{c.name}.{f.name} | {src(n)}"
                g = g or ctx.cfg(f)
                ids = g.ids_of(n)
                guarded = bool(ids) and all(any(_zero_fact(g.node(t).ast, lab, text) is True for t, lab in g.edge_guards(i)) for i in ids)
                # a conditional expression / short circuit in the same statement:  x[-n:] if n else b""
                par = getattr(n, "_parent", None)
                while not guarded and par is not None and not isinstance(par, ast.stmt):
                    if isinstance(par, ast.IfExp) and any(x is n for x in ast.walk(par.body)) and _zero_fact(par.test, "T", text) is True:
                        guarded = True
                    if isinstance(par, ast.IfExp) and any(x is n for x in ast.walk(par.orelse)) and _zero_fact(par.test, "F", text) is True:
                        guarded = True
                    par = getattr(par, "_parent", None)
                if guarded:
                    ctx.ok("layout/end-slice-count-nonzero", cons, f"taken only where `{text}` is non-zero")
                    continue
                zero_is_a_value = any(_zero_fact(t, lab, text) is not None for t in tests for lab in ("T", "F"))
                if zero_is_a_value:
                    ctx.violation("layout/end-slice-count-nonzero", cons,
                                  f"`{src(n)}` is evaluated without a test of `{text}`, which {c.name} itself treats as possibly 0 (another method tests it): for 0 the slice is the "
                                  f"whole of `{src(n.value)}`, not the empty string, so the writer and the reader disagree about the length of this field")
                else:
                    ctx.note(f"layout/end-slice-count-nonzero: {cons}: count not tested anywhere in {c.name}; whether it can be 0 is left to the evaluated round trips")
    if not n_sites:
        ctx.note("layout/end-slice-count-nonzero: no slice counted from the end in any encode/decode pair")


def check_buffer_loops(ctx, mod, consts):
    """A decoder that walks a byte buffer of known length item by item (`while buf.tell() < total`) must go on while ANY byte remains: in linear normal
    form the loop test is  total - buf.tell() >= 1.  A larger constant stops with bytes left over - an item shorter than that constant in last position
    (an OPT option without data is 4 octets) is silently dropped, and what was encoded no longer decodes to itself."""
    from sa.astx import call_name, lincmp
    from sa.props._lib_g import expand, single_defs
    classes = {c.name: c for c in mod.tree.body if isinstance(c, ast.ClassDef)}
    n_loops = 0
    for c in classes.values():
        for f in methods(c).values():
            loops = [x for x in ast.walk(f) if isinstance(x, ast.While) and any(isinstance(y, ast.Call) and isinstance(y.func, ast.Attribute) and y.func.attr == "tell" for y in ast.walk(x.test))]
            if not loops:
                continue
            defs = single_defs(f)
            for lp in loops:
                test = expand(lp.test, defs)

                class K(ast.NodeTransformer):      # <Class>.<constant> / self.<constant> -> its value
                    def visit_Attribute(self, node):
                        if isinstance(node.value, ast.Name) and (node.value.id in classes or node.value.id in ("self", "cls")):
                            owner = classes.get(node.value.id, c)
                            v = class_const(mod, owner, node.attr, consts)
                            if isinstance(v, (int, str)) and not isinstance(v, bool):
                                return ast.Constant(value=v)
                        return self.generic_visit(node)
                test = ast.fix_missing_locations(K().visit(test))
                fm = lincmp(test, consts)
                cons = f"{Q}.{c.name}.{f.name} | while {src(lp.test)}"
                if fm is None:
                    ctx.note(f"layout/buffer-loop-until-empty: {cons}: test not linear; clause left to the evaluated option grid")
                    continue
                terms = dict(fm[0])
                tells = [t for t in terms if t.endswith(".tell()")]
                others = [t for t in terms if not t.endswith(".tell()")]
                if len(tells) != 1 or len(others) != 1 or terms[tells[0]] != -1 or terms[others[0]] != 1:
                    ctx.note(f"layout/buffer-loop-until-empty: {cons}: not of the form total - position >= k; not judged")
                    continue
                bufname = tells[0][: -len(".tell()")]
                total = others[0]
                # `total` must be the length of what the buffer was made from:  buf = BytesIO(E) ... total == len(E)
                bdef = defs.get(bufname)
                if bdef is None:
                    try:
                        bdef = ast.parse(bufname, mode="eval").body      # the buffer local was already replaced by its definition
                    except SyntaxError:
                        bdef = None
                made_from = src(bdef.args[0]) if isinstance(bdef, ast.Call) and call_name(bdef) in ("BytesIO", "io.BytesIO") and len(bdef.args) == 1 else None
                if made_from is None or total != f"len({made_from})":
                    ctx.note(f"layout/buffer-loop-until-empty: {cons}: `{total}` not recognised as the length of the buffer `{bufname}`; not judged")
                    continue
                n_loops += 1
                k = fm[1]
                ctx.check(k == 1, "layout/buffer-loop-until-empty", cons,
                          f"the loop goes on only while at least {k} octets remain (normal form {total} - {tells[0]} >= {k}): "
                          + ("an item of fewer octets in last position is left undecoded - decode(encode(x)) loses it" if k > 1 else "it runs once more at the end of the buffer"))
    if not n_loops:
        ctx.note("layout/buffer-loop-until-empty: no `while buffer.tell() < length` loop recognised")


def check_name_bounds_static(ctx, mod, consts):
    """Name.encode: the length byte and the pointer are written only under guards that keep them inside the format (dominance + linear normal form)."""
    from sa.astx import call_name, lincmp, walk_local
    from sa.props._lib_g import expand, single_defs
    f0 = ctx.func(DNS, "Name.encode")
    q = Q + ".Name.encode"
    # Name.encode and the private helpers (methods, static methods, module functions) it hands the work to: a write and the guard that bounds it are
    # looked for in whichever of them holds the write
    ctxs = []
    for fn in _reachable_private(ctx.cls(DNS, "Name"), f0, mod):
        if isinstance(fn, ast.FunctionDef):
            ctxs.append((fn, ctx.cfg(fn), single_defs(fn)))
    len_sites, ptr_sites = [], []
    for fn, g_, defs_ in ctxs:
        params = {a.arg for a in fn.args.args}
        for n in g_.ids(lambda n: n.ast is not None and n.kind in ("stmt", "test")):
            for c in walk_local(g_.node(n).ast):
                if isinstance(c, ast.Call) and isinstance(c.func, ast.Attribute) and c.func.attr == "write" and isinstance(c.func.value, ast.Name) and c.func.value.id in params and len(c.args) == 1:
                    a = expand(c.args[0], defs_)
                    if isinstance(a, ast.Call) and call_name(a) in ("_ord2bytes",) and a.args:
                        len_sites.append(((g_, defs_, n), a.args[0]))
                    elif isinstance(a, ast.Call) and call_name(a) in ("struct.pack", "pack") and any(isinstance(x, ast.BinOp) and isinstance(x.op, ast.BitOr) for x in ast.walk(a)):
                        bo = next(x for x in ast.walk(a) if isinstance(x, ast.BinOp) and isinstance(x.op, ast.BitOr))
                        operand = bo.right if isinstance(bo.left, ast.Constant) else bo.left
                        ptr_sites.append(((g_, defs_, n), operand))
    f, g, defs = ctxs[0] if ctxs else (f0, ctx.cfg(f0), single_defs(f0))
    if not len_sites:
        ctx.note("name/label-length-limit: the write of the label length byte was not recognised in Name.encode; clause left to name-evaluated/label-length-limit (bounded)")
    if not ptr_sites:
        ctx.note("name/pointer-offset-limit: the write of the compression pointer was not recognised in Name.encode; clause left to name-evaluated/pointer-offset-limit (bounded)")

    def bounded_above(site, operand, limit) -> bool:
        g, defs, n = site
        terms_ok = {src(expand(operand, defs)), src(operand)}
        # the length byte `ind` is len(label) on one branch and the dot position on the other: a guard on len(<label variable>) also counts
        for t, lab in g.edge_guards(n):
            fm = lincmp(expand(g.node(t).ast, defs), consts, negate=(lab == "F"))
            if fm is None or len(fm[0]) != 1:
                continue
            (term, coef), = tuple(fm[0])
            if coef == -1 and -fm[1] <= limit and (term in terms_ok or term.startswith("len(")):
                return True
        return False
    done = set()
    for n, operand in len_sites:
        if "len" in done:
            continue
        done.add("len")
        ctx.check(all(bounded_above(m, o, 63) for m, o in len_sites), "name/label-length-limit", q + " | <label longer than 63 bytes>",
                  "Name(b'a'*64 + b'.com').encode() writes the length byte 0x40 and a 200-byte label writes 0xc8: the two top bits of that byte mean "
                  "'compression pointer' to every reader, so the name is not refused and does not decode to itself (labels are limited to 63 bytes)")
    def stores_bounded(site, operand) -> bool:
        """the pointer operand is D[key] and every offset ever stored into D (by this module) is stored under a guard bounding it by 0x3FFF"""
        g, defs, _n = site
        op = expand(operand, defs)
        if not (isinstance(op, ast.Subscript) and isinstance(op.value, ast.Name)):
            return False
        dname = op.value.id
        found = False
        for qn, fn in mod.functions():
            if not any(isinstance(x, ast.Subscript) and isinstance(x.ctx, ast.Store) and isinstance(x.value, ast.Name) and x.value.id == dname for x in ast.walk(fn)):
                continue
            gg = ctx.cfg(fn)
            fdefs = single_defs(fn)
            for m in gg.ids(lambda n: n.kind == "stmt" and isinstance(n.ast, ast.Assign) and any(isinstance(t, ast.Subscript) and isinstance(t.value, ast.Name) and t.value.id == dname
                                                                                                for t in n.ast.targets)):
                found = True
                val = gg.node(m).ast.value
                terms_ok = {src(val), src(expand(val, fdefs))}
                ok_here = False
                for t, lab in gg.edge_guards(m):
                    fm = lincmp(expand(gg.node(t).ast, fdefs), consts, negate=(lab == "F"))
                    if fm is None:
                        continue
                    # -(offset expression) >= -c  with c <= 0x3FFF, the offset expression possibly a sum of several terms
                    if all(cf < 0 for _, cf in fm[0]) and -fm[1] <= 0x3FFF:
                        lhs = lincmp(ast.Compare(left=expand(val, fdefs), ops=[ast.GtE()], comparators=[ast.Constant(value=0)]), consts)
                        if lhs is not None and frozenset((k_, -v_) for k_, v_ in lhs[0]) == fm[0]:
                            ok_here = True
                        if len(fm[0]) == 1 and next(iter(fm[0]))[0] in terms_ok:
                            ok_here = True
                if not ok_here:
                    return False
        return found

    for n, operand in ptr_sites[:1]:
        ctx.check(all(bounded_above(m, o, 0x3FFF) or stores_bounded(m, o) for m, o in ptr_sites), "name/pointer-offset-limit", q + " | <compression pointer to an offset >= 0x4000>",
                  "a name that was first written at offset >= 0x4000 is referenced with 0xC000 | offset, which a reader decodes as offset & 0x3FFF: "
                  "in a 26 KiB message the last owner name decodes to bytes from the middle of another record")


def check_decoded_fields_static(ctx, mod, consts):
    """Every attribute a decoder (with its private helpers) assigns takes part in ==  (def-use over the class, no evaluation)."""
    allowed = {("RRHeader", "rdlength"), ("Record_A6", "bytes")}
    for c in [x for x in mod.tree.body if isinstance(x, ast.ClassDef) and "decode" in methods(x)]:
        r = mro_lookup(mod, c, "compareAttributes")
        if r is None:
            continue
        try:
            attrs = list(ast.literal_eval(r[1]))
        except ValueError:
            ctx.note(f"equality/decoded-fields-compared: {c.name}.compareAttributes is not a literal; clause left to equality/decoded-fields-evaluated (bounded)")
            continue
        assigned = set()
        dynamic = False
        for f in _reachable_private(c, methods(c)["decode"], mod):
            if not any(f is m for m in methods(c).values()):
                continue
            for st in ast.walk(f):
                if isinstance(st, (ast.Assign, ast.AugAssign, ast.AnnAssign)):
                    for t in (st.targets if isinstance(st, ast.Assign) else [st.target]):
                        for e in ast.walk(t):
                            if isinstance(e, ast.Attribute) and isinstance(e.value, ast.Name) and e.value.id == "self" and isinstance(e.ctx, ast.Store):
                                assigned.add(e.attr)
                if isinstance(st, ast.Call) and isinstance(st.func, ast.Name) and st.func.id == "setattr" and st.args and src(st.args[0]) == "self":
                    if len(st.args) > 1 and isinstance(st.args[1], ast.Constant):
                        assigned.add(st.args[1].value)
                    else:
                        dynamic = True
        for a in sorted(assigned):
            if (c.name, a) in allowed or a.startswith("_"):
                continue
            ctx.check(a in attrs, "equality/decoded-fields-compared", f"{Q}.{c.name} | {a}",
                      f"{c.name}.decode sets self.{a} but compareAttributes {tuple(attrs)} ignores it: two records differing only there compare equal "
                      "(a round trip would not notice a mangled field)")
        if dynamic:
            ctx.note(f"equality/decoded-fields-compared: {c.name}.decode also sets attributes through setattr() with computed names; those are left to equality/decoded-fields-evaluated (bounded)")


def check(ctx):
    mod = ctx.mod(DNS)
    consts = module_consts(mod)
    with ctx.section("structural: format tables"):
        check_format_tables(ctx, mod, consts)
    with ctx.section("structural: Name.encode bounds"):
        check_name_bounds_static(ctx, mod, consts)
    with ctx.section("structural: slices counted from the end"):
        check_end_slices(ctx, mod, consts)
    with ctx.section("structural: buffer loops"):
        check_buffer_loops(ctx, mod, consts)
    with ctx.section("structural: decoded fields compared"):
        check_decoded_fields_static(ctx, mod, consts)
    w = World(ctx, mod, consts)
    for name in ("Message.encode", "Message.decode", "Message.parseRecords", "Message.toStr", "Message.fromStr", "Name.encode", "Name.decode", "RRHeader.encode", "RRHeader.decode"):
        ctx.func(DNS, name)
    check_records(ctx, w)                      # one section per record class inside
    with ctx.section("A6 prefix lengths"):
        check_a6_prefix_lengths(ctx, w)
    with ctx.section("header and sections"):
        check_header(ctx, w)
    with ctx.section("name compression"):
        check_compression(ctx, w)
    with ctx.section("Name.encode limits"):
        check_name_limits(ctx, w)
    with ctx.section("truncation"):
        check_truncation(ctx, w)
    with ctx.section("EDNS"):
        check_edns(ctx, w)
    check_leaf_codecs(ctx, w)                  # one section per class inside
    check_decoded_fields_compared(ctx, w)      # one section per class inside
    with ctx.section("registry"):
        check_registry(ctx, mod, consts)


_LABEL_GUARD = ("            if ind > 63:\n                # The two high bits of the length byte are reserved (they mark\n                # a compression pointer).\n"
                "                raise ValueError(f\"DNS label longer than 63 bytes: {label!r}\")\n")
_OFFSET_GUARD = ("                    offset = strio.tell() + Message.headerSize\n                    # A compression pointer carries a 14 bit offset: names\n"
                 "                    # written further into the message cannot be referred to.\n                    if offset < 0x4000:\n                        compDict[name] = offset\n")

MUTANTS = [
    # the option walk goes on while any octet remains
    Mutant("option-walk-needs-one-data-octet-beyond-the-header", DNS, "            while optionsBytes.tell() < optionsBytesLength:\n", "            while optionsBytes.tell() + 4 < optionsBytesLength:\n", expect_rule="layout/buffer-loop-until-empty"),
    Mutant("option-walk-stops-at-the-last-option-header-via-a-counter", DNS, "            while optionsBytes.tell() < optionsBytesLength:\n", "            left = optionsBytesLength\n            while left > 4:\n", more=[(DNS, "                options.append(o)\n", "                options.append(o)\n                left = optionsBytesLength - optionsBytes.tell()\n")],
           expect_rule="roundtrip/opt-option-grid"),
    Mutant("label-written-by-a-static-helper-without-the-guard", DNS, "            if ind > 63:\n                # The two high bits of the length byte are reserved (they mark\n                # a compression pointer).\n                raise ValueError(f\"DNS label longer than 63 bytes: {label!r}\")\n            strio.write(_ord2bytes(ind))\n            strio.write(label)\n", "            self._emitLabel(strio, label)\n", more=[(DNS, "    def decode(self, strio, length=None):\n        \"\"\"\n        Decode a byte string into this Name.\n", "    @staticmethod\n    def _emitLabel(out, piece):\n        size = len(piece)\n        out.write(_ord2bytes(size))\n        out.write(piece)\n\n    def decode(self, strio, length=None):\n        \"\"\"\n        Decode a byte string into this Name.\n")], expect_rule="name/label-length-limit"),
    Mutant("name-decode-sentinel-iterator-stops-at-one-byte-labels", DNS, "        visited = set()\n        self.name = b\"\"\n        off = 0\n        while 1:\n            l = ord(readPrecisely(strio, 1))\n            if l == 0:\n                if off > 0:\n                    strio.seek(off)\n                return\n            if (l >> 6) == 3:\n                new_off = (l & 63) << 8 | ord(readPrecisely(strio, 1))\n                if new_off in visited:\n                    raise ValueError(\"Compression loop in encoded name\")\n                visited.add(new_off)\n                if off == 0:\n                    off = strio.tell()\n                strio.seek(new_off)\n                continue\n            label = readPrecisely(strio, l)\n            if self.name == b\"\":\n                self.name = label\n            else:\n                self.name = self.name + b\".\" + label\n", "        visited = set()\n        self.name = b\"\"\n        off = 0\n\n        def nextByte():\n            return ord(readPrecisely(strio, 1))\n\n        for l in iter(nextByte, 1):\n            if (l >> 6) != 3:\n                label = readPrecisely(strio, l)\n                self.name = label if self.name == b\"\" else self.name + b\".\" + label\n                continue\n            new_off = (l & 63) << 8 | nextByte()\n            if new_off in visited:\n                raise ValueError(\"Compression loop in encoded name\")\n            visited.add(new_off)\n            if off == 0:\n                off = strio.tell()\n            strio.seek(new_off)\n        if off > 0:\n            strio.seek(off)\n", expect_rule=None),
    Mutant("sections-chained-in-the-wrong-order", DNS, "        for q in self.queries:\n            q.encode(body_tmp, compDict)\n        for q in self.answers:\n            q.encode(body_tmp, compDict)\n        for q in self.authority:\n            q.encode(body_tmp, compDict)\n        for q in self.additional:\n            q.encode(body_tmp, compDict)\n",
           "        for entry in chain(self.queries, self.answers, self.additional, self.authority):\n            entry.encode(body_tmp, compDict)\n", expect_rule="roundtrip/sections"),
    # conditional / computed-length fields: writer and reader must agree for every value of the field that determines them
    Mutant("a6-suffix-guard-tests-the-prefix-length", DNS, "        if self.bytes:\n            strio.write(self.suffix[-self.bytes :])\n", "        if self.prefixLen < 128:\n            strio.write(self.suffix[-self.bytes :])\n",
           expect_rule="roundtrip/a6-prefix-lengths"),
    Mutant("a6-suffix-unguarded-through-a-local", DNS, "        if self.bytes:\n            strio.write(self.suffix[-self.bytes :])\n", "        tail = self.suffix[-self.bytes :]\n        strio.write(tail)\n",
           expect_rule="layout/end-slice-count-nonzero"),
    Mutant("a6-reader-rounds-suffix-octets-up", DNS, "        self.prefixLen = struct.unpack(\"!B\", readPrecisely(strio, 1))[0]\n        self.bytes = int((128 - self.prefixLen) / 8.0)\n",
           "        self.prefixLen = struct.unpack(\"!B\", readPrecisely(strio, 1))[0]\n        self.bytes = (128 - self.prefixLen + 7) // 8\n", expect_rule="roundtrip/a6-prefix-lengths"),
    Mutant("query-fields-swapped-in-encode", DNS, '        strio.write(struct.pack("!HH", self.type, self.cls))\n', '        strio.write(struct.pack("!HH", self.cls, self.type))\n', expect_rule=None),
    Mutant("soa-signedness", DNS, '        r = struct.unpack("!LlllL", readPrecisely(strio, 20))\n', '        r = struct.unpack("!LLllL", readPrecisely(strio, 20))\n', expect_rule=None),
    Mutant("soa-retry-expire-swapped", DNS, "        self.serial, self.refresh, self.retry, self.expire, self.minimum = r\n", "        self.serial, self.refresh, self.expire, self.retry, self.minimum = r\n",
           expect_rule=None),
    Mutant("hinfo-os-before-cpu", DNS, '        strio.write(struct.pack("!B", len(self.cpu)) + self.cpu)\n        strio.write(struct.pack("!B", len(self.os)) + self.os)\n',
           '        strio.write(struct.pack("!B", len(self.os)) + self.os)\n        strio.write(struct.pack("!B", len(self.cpu)) + self.cpu)\n', expect_rule=None),
    Mutant("naptr-regexp-service-swapped", DNS, "        self.service.decode(strio)\n        self.regexp.decode(strio)\n", "        self.regexp.decode(strio)\n        self.service.decode(strio)\n",
           expect_rule=None),
    Mutant("opt-option-length-8bit", DNS, '    _fmt = "!HH"\n', '    _fmt = "!HB"\n', expect_rule=None),
    Mutant("txt-counter-forgets-length-byte", DNS, "            soFar += L + 1\n", "            soFar += L\n", expect_rule=None),
    Mutant("wks-map-one-byte-long", DNS, "        self.map = readPrecisely(strio, length - 5)\n", "        self.map = readPrecisely(strio, length - 4)\n", expect_rule=None),
    Mutant("rdlength-patched-at-wrong-offset", DNS, "            strio.seek(prefix - 2, 0)\n", "            strio.seek(prefix - 4, 0)\n", expect_rule=None),
    Mutant("a6-prefix-condition", DNS, "        if self.prefixLen:\n            # This may not be compressed\n", "        if self.bytes:\n            # This may not be compressed\n", expect_rule=None),
    Mutant("header-cd-bit-position", DNS, "            | ((self.checkingDisabled & 1) << 4)\n", "            | ((self.checkingDisabled & 1) << 6)\n", expect_rule=None),
    Mutant("header-opcode-mask", DNS, "        self.opCode = (byte3 >> 3) & 0xF\n", "        self.opCode = (byte3 >> 3) & 0x7\n", expect_rule=None),
    Mutant("authority-additional-counts-swapped", DNS, "                len(self.authority),\n                len(self.additional),\n", "                len(self.additional),\n                len(self.authority),\n",
           expect_rule=None),
    Mutant("opt-version-unmasked", DNS, "            version=rrHeader.ttl >> 16 & 0xFF,\n", "            version=rrHeader.ttl >> 16,\n", expect_rule=None),
    Mutant("edns-rcode-upper-bits-shift", DNS, "                extendedRCODE=self.rCode >> 4,\n", "                extendedRCODE=self.rCode >> 8,\n", expect_rule=None),
    Mutant("edns-max-size-not-restored", DNS, "            newMessage.maxSize = opt.udpPayloadSize\n", "", expect_rule=None),
    Mutant("truncate-at-exact-size", DNS, "        if self.maxSize and size > self.maxSize:\n", "        if self.maxSize and size >= self.maxSize:\n", expect_rule=None),
    Mutant("cut-ignores-header", DNS, "            body = body[: self.maxSize - self.headerSize]\n", "            body = body[: self.maxSize]\n", expect_rule=None),
    Mutant("trunc-set-after-flags", DNS, "            self.trunc = 1\n            body = body[: self.maxSize - self.headerSize]\n", "            body = body[: self.maxSize - self.headerSize]\n",
           more=[(DNS, "        strio.write(body)\n\n    def decode(self, strio, length=None):\n        self.maxSize = 0\n", "        strio.write(body)\n        if self.maxSize and size > self.maxSize:\n            self.trunc = 1\n\n    def decode(self, strio, length=None):\n        self.maxSize = 0\n")],
           expect_rule=None),
    Mutant("partial-record-appended", DNS, "            try:\n                header.payload.decode(strio, header.rdlength)\n            except EOFError:\n                return\n            list.append(header)\n",
           "            try:\n                header.payload.decode(strio, header.rdlength)\n            except EOFError:\n                pass\n            list.append(header)\n", expect_rule=None),
    Mutant("duplicate-record-type", DNS, "    TYPE = SPF\n", "    TYPE = TXT\n", expect_rule=None),
    Mutant("unknown-type-skipped", DNS, "        return self._recordTypes.get(type, UnknownRecord)\n", "        return self._recordTypes.get(type)\n", expect_rule=None),
    Mutant("sshfp-fingerprint-type-not-compared", DNS, '    compareAttributes = ("algorithm", "fingerprintType", "fingerprint", "ttl")\n', '    compareAttributes = ("algorithm", "fingerprint", "ttl")\n',
           expect_rule=None),
    Mutant("payload-skipped-for-empty-rdata", DNS, "            header.payload = t(ttl=header.ttl)\n            try:\n                header.payload.decode(strio, header.rdlength)\n            except EOFError:\n                return\n            list.append(header)\n",
           "            if header.rdlength > 0:\n                header.payload = t(ttl=header.ttl)\n                try:\n                    header.payload.decode(strio, header.rdlength)\n                except EOFError:\n                    return\n            list.append(header)\n",
           expect_rule=None),
    Mutant("empty-records-appended-undecoded", DNS, "            header.payload = t(ttl=header.ttl)\n            try:\n                header.payload.decode(strio, header.rdlength)\n",
           "            if header.rdlength == 0 and header.type != TXT:\n                list.append(header)\n                continue\n            header.payload = t(ttl=header.ttl)\n            try:\n                header.payload.decode(strio, header.rdlength)\n",
           expect_rule=None),
    Mutant("txt-empty-strings-not-written", DNS, "        for d in self.data:\n            strio.write(struct.pack(\"!B\", len(d)) + d)\n", "        for d in self.data:\n            if d:\n                strio.write(struct.pack(\"!B\", len(d)) + d)\n",
           expect_rule=None),
    Mutant("txt-long-strings-chunked", DNS, "        for d in self.data:\n            strio.write(struct.pack(\"!B\", len(d)) + d)\n",
           "        for d in self.data:\n            pos = 0\n            while pos < len(d):\n                piece = d[pos : pos + 255]\n                strio.write(struct.pack(\"!B\", len(piece)) + piece)\n                pos += 255\n",
           expect_rule=None),
    Mutant("hinfo-empty-cpu-becomes-none", DNS, "        self.cpu = readPrecisely(strio, cpu)\n", "        self.cpu = readPrecisely(strio, cpu) if cpu else None\n", expect_rule=None),
    Mutant("pointer-hops-capped", DNS, "        visited = set()\n        self.name = b\"\"\n", "        hops = 0\n        self.name = b\"\"\n",
           more=[(DNS, "                if new_off in visited:\n                    raise ValueError(\"Compression loop in encoded name\")\n                visited.add(new_off)\n",
                  "                hops += 1\n                if hops > 16:\n                    raise ValueError(\"Compression loop in encoded name\")\n")],
           expect_rule=None),
    Mutant("decoded-name-length-capped", DNS, "            label = readPrecisely(strio, l)\n            if self.name == b\"\":\n",
           "            label = readPrecisely(strio, l)\n            if len(self.name) + l > 128:\n                raise ValueError(\"name too long\")\n            if self.name == b\"\":\n",
           expect_rule=None),
    Mutant("pointer-marker", DNS, '                    strio.write(struct.pack("!H", 0xC000 | compDict[name]))\n', '                    strio.write(struct.pack("!H", 0x8000 | compDict[name]))\n', expect_rule=None),
    Mutant("offset-without-header", DNS, "                    offset = strio.tell() + Message.headerSize\n", "                    offset = strio.tell()\n", expect_rule=None),
    # the repaired finding F32 (commit 485922f): reverting either half of the fix must be reported on its construct
    Mutant("F32-fix-reverted-label-length-unchecked", DNS, _LABEL_GUARD, "", expect_rule="name/label-length-limit"),
    Mutant("F32-fix-reverted-offset-recorded-unconditionally", DNS, _OFFSET_GUARD, "                    compDict[name] = strio.tell() + Message.headerSize\n", expect_rule="name/pointer-offset-limit"),
    Mutant("F32-fix-weakened-label-limit-64", DNS, "            if ind > 63:\n", "            if ind > 64:\n", expect_rule="name/label-length-limit"),
    Mutant("F32-fix-weakened-offset-limit-inclusive", DNS, "                    if offset < 0x4000:\n", "                    if offset <= 0x4000:\n", expect_rule="name/pointer-offset-limit"),
]

SILENT = [
    Silent("option-walk-test-written-as-remaining-octets", DNS, "            while optionsBytes.tell() < optionsBytesLength:\n", "            while optionsBytesLength - optionsBytes.tell() >= 1:\n"),
    Silent("option-walk-test-flipped", DNS, "            while optionsBytes.tell() < optionsBytesLength:\n", "            while not optionsBytesLength <= optionsBytes.tell():\n"),
    # the label write (with its guard) in a private static helper; the decode loop driven by iter(callable, sentinel) with a local closure
    Silent("label-written-by-a-static-helper-holding-the-guard", DNS, "            if ind > 63:\n                # The two high bits of the length byte are reserved (they mark\n                # a compression pointer).\n                raise ValueError(f\"DNS label longer than 63 bytes: {label!r}\")\n            strio.write(_ord2bytes(ind))\n            strio.write(label)\n", "            self._emitLabel(strio, label)\n", more=[(DNS, "    def decode(self, strio, length=None):\n        \"\"\"\n        Decode a byte string into this Name.\n", "    @staticmethod\n    def _emitLabel(out, piece):\n        size = len(piece)\n        if size > 63:\n            raise ValueError(f\"DNS label longer than 63 bytes: {piece!r}\")\n        out.write(_ord2bytes(size))\n        out.write(piece)\n\n    def decode(self, strio, length=None):\n        \"\"\"\n        Decode a byte string into this Name.\n")]),
    Silent("name-decode-loop-over-a-sentinel-iterator", DNS, "        visited = set()\n        self.name = b\"\"\n        off = 0\n        while 1:\n            l = ord(readPrecisely(strio, 1))\n            if l == 0:\n                if off > 0:\n                    strio.seek(off)\n                return\n            if (l >> 6) == 3:\n                new_off = (l & 63) << 8 | ord(readPrecisely(strio, 1))\n                if new_off in visited:\n                    raise ValueError(\"Compression loop in encoded name\")\n                visited.add(new_off)\n                if off == 0:\n                    off = strio.tell()\n                strio.seek(new_off)\n                continue\n            label = readPrecisely(strio, l)\n            if self.name == b\"\":\n                self.name = label\n            else:\n                self.name = self.name + b\".\" + label\n", "        visited = set()\n        self.name = b\"\"\n        off = 0\n\n        def nextByte():\n            return ord(readPrecisely(strio, 1))\n\n        for l in iter(nextByte, 0):\n            if (l >> 6) != 3:\n                label = readPrecisely(strio, l)\n                self.name = label if self.name == b\"\" else self.name + b\".\" + label\n                continue\n            new_off = (l & 63) << 8 | nextByte()\n            if new_off in visited:\n                raise ValueError(\"Compression loop in encoded name\")\n            visited.add(new_off)\n            if off == 0:\n                off = strio.tell()\n            strio.seek(new_off)\n        if off > 0:\n            strio.seek(off)\n"),
    Silent("sections-encoded-through-one-lazy-chain", DNS, "        for q in self.queries:\n            q.encode(body_tmp, compDict)\n        for q in self.answers:\n            q.encode(body_tmp, compDict)\n        for q in self.authority:\n            q.encode(body_tmp, compDict)\n        for q in self.additional:\n            q.encode(body_tmp, compDict)\n",
           "        for entry in chain.from_iterable(getattr(self, section) for section in (\"queries\", \"answers\", \"authority\", \"additional\")):\n            entry.encode(body_tmp, compDict)\n"),
    Silent("section-counts-unpacked-into-the-header", DNS, "                len(self.queries),\n                len(self.answers),\n                len(self.authority),\n                len(self.additional),\n",
           "                *[len(getattr(self, section)) for section in (\"queries\", \"answers\", \"authority\", \"additional\")],\n"),
    Silent("a6-suffix-conditional-expression", DNS, "        if self.bytes:\n            strio.write(self.suffix[-self.bytes :])\n", "        strio.write(self.suffix[-self.bytes :] if self.bytes > 0 else b\"\")\n"),
    Silent("a6-suffix-sliced-from-the-front-unguarded", DNS, "        if self.bytes:\n            strio.write(self.suffix[-self.bytes :])\n", "        strio.write(self.suffix[16 - self.bytes :])\n"),
    Silent("a6-reader-takes-zero-octets-unguarded", DNS, "        if self.bytes:\n            self.suffix = b\"\\x00\" * (16 - self.bytes) + readPrecisely(strio, self.bytes)\n",
           "        self.suffix = b\"\\x00\" * (16 - self.bytes) + readPrecisely(strio, self.bytes)\n"),
    Silent("flag-bytes-in-helpers", DNS, "        self.answer = (byte3 >> 7) & 1\n        self.opCode = (byte3 >> 3) & 0xF\n        self.auth = (byte3 >> 2) & 1\n        self.trunc = (byte3 >> 1) & 1\n        self.recDes = byte3 & 1\n",
           "        self._setFlags3(byte3)\n",
           more=[(DNS, "    def parseRecords(self, list, num, strio):\n", "    def _setFlags3(self, b):\n        for shift, width, attr in ((7, 1, \"answer\"), (3, 4, \"opCode\"), (2, 1, \"auth\"), (1, 1, \"trunc\"), (0, 1, \"recDes\")):\n            setattr(self, attr, (b >> shift) & ((1 << width) - 1))\n\n    def parseRecords(self, list, num, strio):\n")]),
    Silent("sections-encoded-in-one-loop", DNS, "        for q in self.queries:\n            q.encode(body_tmp, compDict)\n        for q in self.answers:\n            q.encode(body_tmp, compDict)\n        for q in self.authority:\n            q.encode(body_tmp, compDict)\n        for q in self.additional:\n            q.encode(body_tmp, compDict)\n",
           "        for sectionName in (\"queries\", \"answers\", \"authority\", \"additional\"):\n            for item in getattr(self, sectionName):\n                item.encode(body_tmp, compDict)\n"),
    Silent("unknown-record-guard-clause", DNS, "        if length is None:\n            raise Exception(\"must know length for unknown record types\")\n        self.data = readPrecisely(strio, length)\n",
           "        if length is not None:\n            self.data = readPrecisely(strio, length)\n            return\n        raise Exception(\"must know length for unknown record types\")\n"),
    Silent("name-encode-branches-swapped", DNS, "            if ind > 0:\n                label, name = name[:ind], name[ind + 1 :]\n            else:\n                # This is the last label, end the loop after handling it.\n                label = name\n                name = None\n                ind = len(label)\n",
           "            if ind <= 0:\n                label, name = name, None\n                ind = len(label)\n            else:\n                label, name = name[:ind], name[ind + 1 :]\n"),
    Silent("query-decode-inline", DNS, "        buff = readPrecisely(strio, 4)\n        self.type, self.cls = struct.unpack(\"!HH\", buff)\n",
           "        self.type, self.cls = struct.unpack(\"!HH\", readPrecisely(strio, struct.calcsize(\"!HH\")))\n"),
    Silent("hinfo-encode-split-writes", DNS, '        strio.write(struct.pack("!B", len(self.cpu)) + self.cpu)\n', '        strio.write(struct.pack("!B", len(self.cpu)))\n        strio.write(self.cpu)\n'),
    Silent("truncation-flipped-comparison", DNS, "        if self.maxSize and size > self.maxSize:\n", "        if self.maxSize and not (size <= self.maxSize):\n"),
    Silent("label-guard-on-the-label-not-le", DNS, "            if ind > 63:\n", "            if not len(label) <= 63:\n"),
    Silent("pointer-guard-at-the-write-site", DNS, _OFFSET_GUARD, "                    compDict[name] = strio.tell() + Message.headerSize\n",
           more=[(DNS, "                if name in compDict:\n", "                if name in compDict and compDict[name] <= 0x3FFF:\n")]),
    Silent("visited-as-list-renamed", DNS, "        visited = set()\n        self.name = b\"\"\n", "        seenOffsets = []\n        self.name = b\"\"\n",
           more=[(DNS, "                if new_off in visited:\n                    raise ValueError(\"Compression loop in encoded name\")\n                visited.add(new_off)\n",
                  "                if new_off in seenOffsets:\n                    raise ValueError(\"Compression loop in encoded name\")\n                seenOffsets.append(new_off)\n")]),
    Silent("wks-decode-one-unpack-guarded", DNS, "        self.address = readPrecisely(strio, 4)\n        self.protocol = struct.unpack(\"!B\", readPrecisely(strio, 1))[0]\n        self.map = readPrecisely(strio, length - 5)\n",
           "        if length < 5:\n            raise EOFError\n        r = struct.unpack(\"!4sB%ds\" % (length - 5,), readPrecisely(strio, length))\n        self.address, self.protocol, self.map = r\n",
           more=[(DNS, "        strio.write(self.address)\n        strio.write(struct.pack(\"!B\", self.protocol))\n        strio.write(self.map)\n",
                  "        strio.write(struct.pack(\"!4sB\", self.address, self.protocol))\n        strio.write(self.map)\n")]),
    Silent("parse-records-type-test-explicit", DNS, "            if not t:\n                continue\n            header.payload = t(ttl=header.ttl)\n", "            if t is None:\n                continue\n            header.payload = t(ttl=header.ttl)\n"),
    Silent("txt-encode-two-writes-per-string", DNS, "        for d in self.data:\n            strio.write(struct.pack(\"!B\", len(d)) + d)\n", "        for d in self.data:\n            strio.write(struct.pack(\"!B\", len(d)))\n            strio.write(d)\n"),
    Silent("header-flags-with-shifts-reordered", DNS, "            ((self.answer & 1) << 7)\n            | ((self.opCode & 0xF) << 3)\n", "            ((self.opCode & 0xF) << 3)\n            | ((self.answer & 1) << 7)\n"),
]
