"""C32 - DNS messages round-trip through the wire format."""
from __future__ import annotations

import ast
import io
import struct
from typing import Dict, List, Optional, Tuple

from sa.astx import NotConst, call_attr, call_name, const_eval, dotted, lincmp, module_consts, src, statements, walk_local
from sa.props._lib_g import (Inst, MiniEval, attrs_to_names, class_const, expand, fmt_lin, fresh, is_self_attr, lin_equal, lin_expect, module_classes, must_pass, norm_cmp,
                             run_eval, single_defs, struct_codes)
from sa.selftest import Mutant, Silent
from sa.source import AnalysisError, base_names, class_assigns, methods, mro_lookup

PROPERTY = "C32"
DNS = "names/dns.py"
Q = "twisted.names.dns"
TECHNIQUE = "symbolic wire layout of encode vs decode, table agreement, finite bit-field evaluation, guard dominance"
EXPLANATION = (
    'For every class with encode/decode the ordered wire layout written by encode (struct codes, length prefixes, raw '
    'fields, nested objects, conditional and repeated parts) is extracted symbolically and must equal the layout read '
    "by decode attribute by attribute, with byte accounting for length-delimited fields (frozen exceptions: Name's "
    "pointer form, RRHeader's back-patched rdlength, Record_TSIG's 48-bit time, the delegating _OPTHeader, each with "
    'its own rule). Message header flags, the OPT TTL fields and the EDNS rCode split are evaluated on finite grids '
    'against RFC 1035/2535/6891 bit positions in both directions, and the four counters are paired with the four '
    'sections in the same order both ways. The registry _recordTypes is built from every Record_* class (all defined '
    'before Message, pairwise distinct TYPEs, constructible with ttl=, unknown types fall back to UnknownRecord) and '
    'the attributes set by decode are exactly those compared by ==. Truncation: the size test is exactly size > '
    'maxSize, sets trunc before the flags byte is computed and cuts the body to maxSize - headerSize; decoding stops '
    'quietly on EOFError and appends only fully decoded records. Name.encode must refuse labels longer than 63 bytes '
    'and compression offsets >= 0x4000: both guards are missing (known finding F32). Not decided: value equality of '
    'whole messages, compression optimality, the vendored third-party decoder.'
)
ASSUMPTIONS = [
    "struct format codes have their CPython standard sizes under the '!' prefix",
    "strio is a seekable bytes buffer (BytesIO) as in Message.toStr/fromStr",
]

LAYOUT_EXCEPTIONS = {
    "Name": "labels are written as length byte + bytes until a zero byte, or a 2-byte pointer packed as !H and decoded bytewise; checked by its own rules",
    "Message": "header bit fields and section loops are checked by the header/sections rules",
    "_OPTHeader": "delegates to RRHeader with an UnknownRecord payload; its TTL bit fields are evaluated separately",
    "Record_TSIG": "48-bit time: pack('!Q')[2:] is read back as two zero bytes + !QHH; compared by total sizes instead",
}
SLOT_EXCEPTIONS = {("RRHeader", 4): "rdlength is written as 0 and back-patched with a separate !H after the payload is encoded"}
NOT_COMPARED = {("RRHeader", "rdlength"): "derived from the payload length", ("Record_A6", "bytes"): "derived from prefixLen"}
NOT_DECODED = {
    "ttl": "taken from the enclosing RRHeader by Message.parseRecords",
    ("RRHeader", "payload"): "decoded by Message.parseRecords according to the type", ("RRHeader", "auth"): "copied from the message by parseRecords",
    ("_OPTHeader", "name"): "read-only property", ("_OPTHeader", "type"): "read-only property",
    ("Message", "maxSize"): "transport limit, reset by decode",
    ("Message", "answers"): "filled in place by parseRecords (pairing checked by header/sections)",
    ("Message", "authority"): "filled in place by parseRecords (pairing checked by header/sections)",
    ("Message", "additional"): "filled in place by parseRecords (pairing checked by header/sections)",
}


def _fail(msg):
    raise AnalysisError("C32: " + msg)


# ---------------------------------------------------------------------------------------------------------------
# symbolic layouts

Tok = Tuple


def _fmt_of(expr, mod, cls, consts) -> Optional[str]:
    if is_self_attr(expr):
        v = class_const(mod, cls, expr.attr, consts)
        return v if isinstance(v, str) else None
    try:
        v = const_eval(expr, consts)
        return v if isinstance(v, str) else None
    except NotConst:
        return None


def _is_pack(c) -> bool:
    return isinstance(c, ast.Call) and call_name(c) in ("struct.pack", "pack")


def _is_unpack(c) -> bool:
    return isinstance(c, ast.Call) and call_name(c) in ("struct.unpack", "unpack")


def _is_read(c) -> bool:
    return isinstance(c, ast.Call) and call_name(c) == "readPrecisely" and len(c.args) == 2


class Enc:
    def __init__(self, mod, cls, func, consts):
        self.mod, self.cls, self.f, self.consts = mod, cls, func, consts
        self.strio = func.args.args[1].arg if len(func.args.args) > 1 else "strio"
        self.defs = single_defs(func)
        self.elem: Dict[str, str] = {}

    def desc(self, a) -> str:
        a = expand(a, self.defs)
        if is_self_attr(a):
            return a.attr
        if isinstance(a, ast.Call) and call_name(a) == "len" and len(a.args) == 1:
            x = a.args[0]
            if is_self_attr(x):
                return "len:" + x.attr
            if isinstance(x, ast.Name) and x.id in self.elem:
                return "len:<elem>"
        try:
            return f"const:{const_eval(a, self.consts)!r}"
        except NotConst:
            return "expr:" + src(a)

    def write(self, arg) -> List[Tok]:
        if isinstance(arg, ast.BinOp) and isinstance(arg.op, ast.Add):
            return self.write(arg.left) + self.write(arg.right)
        if _is_pack(arg) and arg.args:
            fmt = _fmt_of(arg.args[0], self.mod, self.cls, self.consts)
            if fmt is None:
                return [("?", src(arg))]
            codes = struct_codes(fmt)
            if len(codes) != len(arg.args) - 1:
                return [("?", src(arg))]
            return [(("raw", self.desc(a)) if c.endswith("s") else ("f", c, self.desc(a))) for c, a in zip(codes, arg.args[1:])]
        if isinstance(arg, ast.Call) and call_name(arg) == "_ord2bytes" and len(arg.args) == 1:
            return [("f", "B", self.desc(arg.args[0]))]
        if isinstance(arg, ast.Name):
            if arg.id in self.elem:
                return [("raw", "<elem>")]
            if arg.id in self.defs:
                return self.write(self.defs[arg.id])
            return [("?", src(arg))]
        if is_self_attr(arg):
            return [("raw", arg.attr)]
        if isinstance(arg, ast.Subscript) and is_self_attr(arg.value) and isinstance(arg.slice, ast.Slice):
            return [("raw", arg.value.attr)]
        if isinstance(arg, ast.Constant) and isinstance(arg.value, bytes):
            return [("const", arg.value)]
        return [("?", src(arg))]

    def block(self, stmts) -> List[Tok]:
        out: List[Tok] = []
        for st in stmts:
            if isinstance(st, ast.Expr) and isinstance(st.value, ast.Constant):
                continue
            if isinstance(st, ast.Expr) and isinstance(st.value, ast.Call):
                c = st.value
                if isinstance(c.func, ast.Attribute) and c.func.attr == "encode" and c.args and src(c.args[0]) == self.strio:
                    r = c.func.value
                    if is_self_attr(r):
                        out.append(("obj", r.attr))
                    elif isinstance(r, ast.Name) and r.id in self.elem:
                        out.append(("obj", "<elem>"))
                    else:
                        out.append(("?", src(c)))
                    continue
                if call_name(c) == f"{self.strio}.write" and len(c.args) == 1:
                    out.extend(self.write(c.args[0]))
                    continue
            if isinstance(st, ast.If):
                body, orelse = self.block(st.body), self.block(st.orelse)
                if body or orelse:
                    out.append(("if", src(st.test), tuple(body), tuple(orelse)))
                continue
            if isinstance(st, ast.For) and isinstance(st.target, ast.Name) and is_self_attr(st.iter):
                self.elem[st.target.id] = st.iter.attr
                body = self.block(st.body)
                del self.elem[st.target.id]
                out.append(("loop", st.iter.attr, tuple(body)))
                continue
            touches = any((isinstance(x, ast.Call) and (call_name(x) or "").startswith(self.strio + ".")) or
                          (isinstance(x, ast.Call) and call_attr(x) == "encode") for x in ast.walk(st))
            if touches:
                out.append(("?", src(st)[:80]))
        return out


class Dec:
    def __init__(self, mod, cls, func, consts):
        self.mod, self.cls, self.f, self.consts = mod, cls, func, consts
        self.strio = func.args.args[1].arg if len(func.args.args) > 1 else "strio"
        self.toks: List[list] = []
        self.pending: Dict[str, List[int]] = {}      # local -> token indices waiting for their attribute names
        self.local_tok: Dict[str, int] = {}          # local -> index of the single token it names
        self.obj_alias: Dict[str, str] = {}          # local object -> attribute it is stored in
        self.assigned: List[str] = []                # attributes assigned by decode (for compareAttributes)

    # -- helpers
    def emit(self, tok: list) -> int:
        self.toks.append(tok)
        return len(self.toks) - 1

    def name_target(self, t, idx: int):
        if self.toks[idx][0] == "raw":
            if is_self_attr(t):
                self.toks[idx][1] = t.attr
                self.assigned.append(t.attr)
            else:
                self.toks[idx][1] = "?" + src(t)
            return
        if is_self_attr(t):
            self.toks[idx][2] = t.attr
            self.assigned.append(t.attr)
        elif isinstance(t, ast.Name):
            self.toks[idx][2] = "local:" + t.id
            self.local_tok[t.id] = idx
        else:
            self.toks[idx][2] = "?" + src(t)

    def size_desc(self, n) -> str:
        if isinstance(n, ast.Name) and n.id in self.local_tok:
            return "local:" + n.id
        try:
            return f"const:{const_eval(n, self.consts)!r}"
        except NotConst:
            return "expr:" + src(n)

    def bytes_source(self, e) -> Optional[Tuple[str, object]]:
        """("read", sizeexpr) for readPrecisely(strio, n) | ("pending", name) for a local holding a raw read | None."""
        if _is_read(e) and src(e.args[0]) == self.strio:
            return ("read", e.args[1])
        if isinstance(e, ast.Name) and e.id in self.pending and len(self.pending[e.id]) == 1 and self.toks[self.pending[e.id][0]][0] == "raw":
            return ("pending", e.id)
        return None

    def unpack_tokens(self, call) -> Optional[List[int]]:
        fmt = _fmt_of(call.args[0], self.mod, self.cls, self.consts) if call.args else None
        if fmt is None and call.args and isinstance(call.args[0], ast.BinOp) and isinstance(call.args[0].op, ast.Mod) \
                and isinstance(call.args[0].left, ast.Constant) and isinstance(call.args[0].left.value, str):
            # a format with computed repeat counts ("!4sB%ds" % n): the field kinds are what matters for the layout
            fmt = call.args[0].left.value.replace("%d", "1").replace("%i", "1")
            if "%" in fmt:
                fmt = None
        if fmt is None or len(call.args) != 2:
            return None
        bs = self.bytes_source(call.args[1])
        if bs is None:
            return None
        codes = struct_codes(fmt)
        if bs[0] == "pending":
            idx0 = self.pending.pop(bs[1])[0]
            # replace the raw placeholder by the unpacked fields, in place
            new = [(["raw", None, "fmt"] if c.endswith("s") else ["f", c, None]) for c in codes]
            self.toks[idx0:idx0 + 1] = new
            shift = len(new) - 1
            if shift:
                for k, v in self.pending.items():
                    self.pending[k] = [i + shift if i > idx0 else i for i in v]
                for k, v in list(self.local_tok.items()):
                    if v > idx0:
                        self.local_tok[k] = v + shift
            return list(range(idx0, idx0 + len(new)))
        return [self.emit(["raw", None, "fmt"] if c.endswith("s") else ["f", c, None]) for c in codes]

    def assign(self, targets, value) -> bool:
        """Returns True when the statement was understood (or irrelevant)."""
        tgt = targets[0] if len(targets) == 1 else None
        if tgt is None:
            return not self.touches(value)
        # unpack(...)[0]
        v = value
        single = False
        if isinstance(v, ast.Subscript) and isinstance(v.slice, ast.Constant) and v.slice.value == 0 and _is_unpack(v.value):
            v = v.value
            single = True
        if _is_unpack(v):
            idxs = self.unpack_tokens(v)
            if idxs is None:
                return False
            if single:
                if len(idxs) != 1:
                    return False
                self.name_target(tgt, idxs[0])
                return True
            if isinstance(tgt, (ast.Tuple, ast.List)):
                if len(tgt.elts) != len(idxs):
                    return False
                for t, i in zip(tgt.elts, idxs):
                    self.name_target(t, i)
                return True
            if isinstance(tgt, ast.Name):
                self.pending[tgt.id] = idxs
                return True
            return False
        if isinstance(v, ast.Call) and call_name(v) == "ord" and len(v.args) == 1 and _is_read(v.args[0]):
            i = self.emit(["f", "B", None])
            self.name_target(tgt, i)
            return True
        # raw reads (possibly padded: b"\0" * k + readPrecisely(...))
        reads = [x for x in ast.walk(v) if _is_read(x)]
        if len(reads) == 1 and not any(_is_unpack(x) for x in ast.walk(v)):
            r = reads[0]
            if is_self_attr(tgt):
                self.emit(["raw", tgt.attr, self.size_desc(r.args[1])])
                self.assigned.append(tgt.attr)
                return True
            if isinstance(tgt, ast.Name) and v is r:
                i = self.emit(["raw", None, self.size_desc(r.args[1])])
                self.pending[tgt.id] = [i]
                return True
            return False
        if reads:
            return False
        # naming of earlier tokens:  self.a, self.b = r   /  (self.x,) = r  /  self.algorithm = algorithm
        if isinstance(v, ast.Name) and v.id in self.pending:
            idxs = self.pending[v.id]
            ts = tgt.elts if isinstance(tgt, (ast.Tuple, ast.List)) else [tgt]
            if len(ts) != len(idxs):
                return False
            for t, i in zip(ts, idxs):
                if self.toks[i][0] == "raw":
                    if is_self_attr(t):
                        self.toks[i][1] = t.attr
                        self.assigned.append(t.attr)
                    else:
                        return False
                else:
                    self.name_target(t, i)
            del self.pending[v.id]
            return True
        if isinstance(v, ast.Name) and is_self_attr(tgt):
            self.obj_alias[v.id] = tgt.attr
            self.assigned.append(tgt.attr)
            for t in self.toks:
                if t[0] == "obj" and t[1] == "local:" + v.id:
                    t[1] = tgt.attr
            return True
        # plain (non-wire) assignments
        for t in (tgt.elts if isinstance(tgt, (ast.Tuple, ast.List)) else [tgt]):
            if is_self_attr(t):
                self.assigned.append(t.attr)
        return not self.touches(value)

    def touches(self, node) -> bool:
        return any(_is_read(x) or _is_unpack(x) or (isinstance(x, ast.Call) and call_attr(x) == "decode") or
                   (isinstance(x, ast.Name) and x.id == self.strio) for x in ast.walk(node))

    def block(self, stmts) -> None:
        for st in stmts:
            if isinstance(st, ast.Expr) and isinstance(st.value, ast.Constant):
                continue
            if isinstance(st, ast.Assign):
                if not self.assign(st.targets, st.value):
                    self.emit(["?", src(st)[:80], None])
                continue
            if isinstance(st, ast.Expr) and isinstance(st.value, ast.Call):
                c = st.value
                if isinstance(c.func, ast.Attribute) and c.func.attr == "decode" and c.args and src(c.args[0]) == self.strio:
                    r = c.func.value
                    if is_self_attr(r):
                        self.emit(["obj", r.attr, None])
                    elif isinstance(r, ast.Name):
                        self.emit(["obj", self.obj_alias.get(r.id, "local:" + r.id), None])
                    else:
                        self.emit(["?", src(c), None])
                    continue
                # self.data.append(readPrecisely(strio, L))
                if isinstance(c.func, ast.Attribute) and c.func.attr == "append" and is_self_attr(c.func.value) and len(c.args) == 1 and _is_read(c.args[0]):
                    self.emit(["raw", "<elem>", self.size_desc(c.args[0].args[1])])
                    self.loop_attr = c.func.value.attr
                    continue
                if not self.touches(st):
                    continue
                self.emit(["?", src(st)[:80], None])
                continue
            if isinstance(st, ast.If):
                sub = self.sub(st.body)
                sub2 = self.sub(st.orelse)
                if sub or sub2:
                    self.emit(["if", src(st.test), (tuple(sub), tuple(sub2))])
                continue
            if isinstance(st, ast.While):
                d = Dec(self.mod, self.cls, self.f, self.consts)
                d.loop_attr = None
                d.block(st.body)
                body = d.finish()
                self.assigned.extend(d.assigned)
                self.emit(["loop", getattr(d, "loop_attr", None), tuple(body)])
                continue
            if isinstance(st, (ast.AugAssign, ast.Pass, ast.Return)) and not self.touches(st):
                continue
            if isinstance(st, ast.Raise):
                continue
            if self.touches(st):
                self.emit(["?", src(st)[:80], None])

    def sub(self, stmts) -> List[Tok]:
        if not stmts:
            return []
        d = Dec(self.mod, self.cls, self.f, self.consts)
        d.local_tok = dict(self.local_tok)
        d.block(stmts)
        self.assigned.extend(d.assigned)
        return d.finish()

    def finish(self) -> List[Tok]:
        # raw fields sized by a local that names an integer token: that token is the length prefix of the raw field
        for t in self.toks:
            if t[0] == "raw" and isinstance(t[2], str) and t[2].startswith("local:"):
                i = self.local_tok.get(t[2][6:])
                if i is not None and i < len(self.toks) and self.toks[i][0] == "f":
                    self.toks[i][2] = "len:" + str(t[1])
        out: List[Tok] = []
        for t in self.toks:
            if t[0] == "raw":
                out.append(("raw", t[1]))
            elif t[0] == "obj":
                out.append(("obj", t[1]))
            elif t[0] == "if":
                out.append(("if", t[1], t[2][0], t[2][1]))
            elif t[0] == "loop":
                out.append(("loop", t[1], t[2]))
            elif t[0] == "f":
                out.append(("f", t[1], t[2]))
            else:
                out.append(("?", t[1]))
        return out


def _has_unknown(toks) -> Optional[str]:
    for t in toks:
        if t[0] == "?":
            return str(t[1])
        if t[0] == "f" and (t[2] is None or str(t[2]).startswith("?")):
            return "unnamed field"
        if t[0] == "raw" and (t[1] is None or str(t[1]).startswith(("?", "expr:", "const:"))):
            return "unnamed raw field"
        for sub in t[2:]:
            if isinstance(sub, tuple) and sub and isinstance(sub[0], tuple):
                u = _has_unknown(sub)
                if u:
                    return u
    return None


def _show(toks) -> str:
    parts = []
    for t in toks:
        if t[0] == "f":
            parts.append(f"{t[1]}:{t[2]}")
        elif t[0] == "raw":
            parts.append(f"bytes:{t[1]}")
        elif t[0] == "obj":
            parts.append(f"<{t[1]}>")
        elif t[0] == "const":
            parts.append(repr(t[1]))
        elif t[0] == "if":
            parts.append(f"if {t[1]}: [{_show(t[2])}]" + (f" else [{_show(t[3])}]" if t[3] else ""))
        elif t[0] == "loop":
            parts.append(f"each {t[1]}: [{_show(t[2])}]")
        else:
            parts.append("?" + str(t[1]))
    return " ".join(parts)


def _formats(func, mod, cls, consts, names) -> List[str]:
    out = []
    for c in ast.walk(func):
        if isinstance(c, ast.Call) and call_name(c) in names and c.args:
            f = _fmt_of(c.args[0], mod, cls, consts)
            out.append(f if f is not None else "?" + src(c.args[0]))
    return sorted(out)


def check_rdlength_backpatch(ctx, mod, cls, enc, consts):
    """RRHeader.encode writes the fixed header with rdlength 0, then the payload, then goes back and patches rdlength.
    Returns the unconditional statements (the part compared with decode)."""
    q = f"{Q}.RRHeader.encode"
    strio = enc.args.args[1].arg
    ifs = [st for st in enc.body if isinstance(st, ast.If) and src(st.test) == "self.payload"]
    if len(ifs) != 1 or ifs[0].orelse:
        _fail("RRHeader.encode: `if self.payload:` block not found")
    blk = ifs[0].body
    fmt = class_const(mod, cls, "fmt", consts)
    last = struct_codes(fmt)[-1] if isinstance(fmt, str) else None
    tells = [st for st in blk if isinstance(st, ast.Assign) and isinstance(st.value, ast.Call) and call_name(st.value) == f"{strio}.tell" and isinstance(st.targets[0], ast.Name)]
    pay = [i for i, st in enumerate(blk) if isinstance(st, ast.Expr) and isinstance(st.value, ast.Call) and call_name(st.value) == "self.payload.encode"]
    ok = len(tells) == 2 and len(pay) == 1 and blk.index(tells[0]) < pay[0] < blk.index(tells[1])
    ctx.check(ok, "layout/rdlength-backpatch", q + " | <measure payload>", "the payload is not bracketed by two strio.tell() measurements")
    if not ok:
        return [st for st in enc.body if st is not ifs[0]]
    before, after = tells[0].targets[0].id, tells[1].targets[0].id
    rest = blk[blk.index(tells[1]) + 1:]
    seeks = [st.value for st in rest if isinstance(st, ast.Expr) and isinstance(st.value, ast.Call) and call_name(st.value) == f"{strio}.seek"]
    writes = [st.value for st in rest if isinstance(st, ast.Expr) and isinstance(st.value, ast.Call) and call_name(st.value) == f"{strio}.write"]
    ok = len(seeks) == 2 and len(writes) == 1 and _is_pack(writes[0].args[0])
    if ok:
        pk = writes[0].args[0]
        pf = _fmt_of(pk.args[0], mod, cls, consts)
        size = struct.calcsize(pf) if pf else None
        back = ast.parse(f"{before} - {size}", mode="eval").body
        ok = pf is not None and struct_codes(pf) == [last] and lin_equal(seeks[0].args[0], back, {}) and lin_equal(pk.args[1], ast.parse(f"{after} - {before}", mode="eval").body, {}) \
            and src(seeks[1].args[0]) == after and rest.index(next(st for st in rest if getattr(st, "value", None) is seeks[0])) < rest.index(next(st for st in rest if getattr(st, "value", None) is writes[0]))
    ctx.check(ok, "layout/rdlength-backpatch", q + " | <patch rdlength>",
              f"after the payload the writer must seek to (payload start - size of the last header field {last!r}), write the payload length in that format and seek back to the end")
    return [st for st in enc.body if st is not ifs[0]]


def check_layouts(ctx, mod, consts):
    classes = [c for c in mod.tree.body if isinstance(c, ast.ClassDef) and ("encode" in methods(c) or "decode" in methods(c)) and "Interface" not in base_names(c)]
    n_cmp = 0
    for c in classes:
        with ctx.section(f"layout {c.name}"):
            ms = methods(c)
            q = f"{Q}.{c.name}"
            if ("encode" in ms) != ("decode" in ms):
                ctx.violation("layout/both-directions", q, f"{c.name} defines only {'encode' if 'encode' in ms else 'decode'}; the other direction is inherited and no longer matches")
                continue
            if c.name in LAYOUT_EXCEPTIONS:
                ctx.ok("layout/agreement", q, "documented exception: " + LAYOUT_EXCEPTIONS[c.name])
                continue
            enc_body = ms["encode"].body
            if c.name == "RRHeader":
                enc_body = check_rdlength_backpatch(ctx, mod, c, ms["encode"], consts)
            e = Enc(mod, c, ms["encode"], consts).block(enc_body)
            d = Dec(mod, c, ms["decode"], consts)
            d.block(ms["decode"].body)
            dt = d.finish()
            ue, ud = _has_unknown(e), _has_unknown(dt)
            if ue or ud:
                # shape outside the recognised idioms: fall back to the multiset of struct formats (never a false alarm on a refactor)
                fe = _formats(ms["encode"], mod, c, consts, ("struct.pack", "pack"))
                fd = _formats(ms["decode"], mod, c, consts, ("struct.unpack", "unpack"))
                if any(x.startswith("?") for x in fe + fd):
                    _fail(f"{c.name}: layout not recognised ({ue or ud}) and a struct format is not constant: encode {fe}, decode {fd}")
                ctx.note(f"{c.name}: layout not fully recognised ({ue or ud}); compared struct format multisets instead")
                ctx.check(fe == fd, "layout/format-multiset", q, f"encode packs {fe}, decode unpacks {fd}")
                continue
            n_cmp += 1
            # strip writer-only constants? none expected outside Name
            n = max(len(e), len(dt))
            same = True
            for i in range(n):
                a = e[i] if i < len(e) else None
                b = dt[i] if i < len(dt) else None
                if a == b:
                    continue
                if (c.name, i) in SLOT_EXCEPTIONS and a is not None and b is not None and a[0] == b[0] == "f" and a[1] == b[1]:
                    continue
                same = False
                ctx.violation("layout/agreement", f"{q} | field {i + 1}",
                              f"{c.name}.encode writes [{_show(e)}] but decode reads [{_show(dt)}]: position {i + 1} is "
                              f"{_show([a]) if a else 'nothing'} on the wire and {_show([b]) if b else 'nothing'} in the reader")
                break
            if same:
                ctx.ok("layout/agreement", q, _show(e))
    ctx.floor("layout/agreement", n_cmp, 18, "classes with a fully recognised layout")

    # fixed formats every independent decoder relies on (RFC 1035 3.2.1 / 4.1.2, RFC 6891 6.1.2)
    with ctx.section("spec formats"):
        allc = module_classes(mod)
        for cname, attr, want, why in (("RRHeader", "fmt", "!HHIH", "TYPE(16) CLASS(16) TTL(32) RDLENGTH(16)"),
                                       ("_OPTVariableOption", "_fmt", "!HH", "OPTION-CODE(16) OPTION-LENGTH(16)")):
            cc = allc.get(cname) or _fail(cname + " vanished")
            got = class_const(mod, cc, attr, consts)
            ctx.check(got == want, "layout/spec-format", f"{Q}.{cname} | {attr}", f"{cname}.{attr} is {got!r}; the wire format is {want!r}: {why}")
        qe = methods(allc["Query"])["encode"] if "Query" in allc else _fail("Query vanished")
        qf = [f for c in ast.walk(qe) if _is_pack(c) and c.args for f in [_fmt_of(c.args[0], mod, allc["Query"], consts)]]
        qcodes = [code for f in qf for code in (struct_codes(f) if f else ["?"])]
        ctx.check(qcodes == ["H", "H"] and all(f and f[0] in "!>" for f in qf), "layout/spec-format", f"{Q}.Query | <format>",
                  f"a question is written with {qf}; the wire format is QTYPE(16) QCLASS(16) in network byte order")

    # byte accounting inside length-delimited records
    for c in classes:
        with ctx.section(f"byte accounting {c.name}"):
            dec = methods(c).get("decode")
            if dec is None or len(dec.args.args) < 3:
                continue
            lname = dec.args.args[2].arg
            strio = dec.args.args[1].arg
            q = f"{Q}.{c.name}.decode"
            # (i) `readPrecisely(strio, length - K)`: K is the number of bytes read before it
            fixed = 0
            for st in dec.body:
                reads = [x for x in ast.walk(st) if _is_read(x)]
                for r in reads:
                    sz = r.args[1]
                    if isinstance(sz, ast.BinOp) and isinstance(sz.op, ast.Sub) and src(sz.left) == lname:
                        try:
                            k = const_eval(sz.right, consts)
                        except NotConst:
                            k = None
                        ctx.check(fixed is not None and k == fixed, "layout/remainder-size", ctx.construct(q, r),
                                  f"the rest of the record is read as {src(sz)} bytes after {fixed} bytes of fixed fields: the field must take exactly rdlength - {fixed} bytes "
                                  "(else it eats into, or leaves bytes for, the next record)")
                        fixed = None
                    elif fixed is not None:
                        try:
                            v = const_eval(sz, consts)
                            fixed = fixed + v if isinstance(v, int) else None
                        except NotConst:
                            fixed = None
                if any(isinstance(x, ast.Call) and call_attr(x) == "decode" for x in ast.walk(st)):
                    fixed = None
            # (ii) `while soFar < length:` loops account for every byte they consume
            for lp in [st for st in dec.body if isinstance(st, ast.While)]:
                t = lp.test
                if not (isinstance(t, ast.Compare) and len(t.ops) == 1 and isinstance(t.ops[0], ast.Lt) and isinstance(t.left, ast.Name) and src(t.comparators[0]) == lname):
                    continue
                ctr = t.left.id
                incs = [st for st in lp.body if isinstance(st, ast.AugAssign) and isinstance(st.op, ast.Add) and isinstance(st.target, ast.Name) and st.target.id == ctr]
                sizes = [src(r.args[1]) for st in lp.body for r in ast.walk(st) if _is_read(r)]
                total = ast.parse(" + ".join(sizes) or "0", mode="eval").body
                ctx.check(len(incs) == 1 and lin_equal(incs[0].value, total, {}, consts), "layout/loop-accounting", f"{q} | {ctr}",
                          f"each iteration reads {' + '.join(sizes)} bytes but advances `{ctr}` by {src(incs[0].value) if incs else 'nothing'}: the loop runs past (or stops short of) rdlength")
                init = [st for st in dec.body if isinstance(st, ast.Assign) and any(isinstance(x, ast.Name) and x.id == ctr for x in st.targets)]
                ctx.check(len(init) == 1 and isinstance(init[0].value, ast.Constant) and init[0].value.value == 0, "layout/loop-accounting", f"{q} | {ctr} = 0", f"`{ctr}` does not start at 0")

    # Record_TSIG: total fixed sizes agree (48-bit time)
    with ctx.section("Record_TSIG"):
        cls = module_classes(mod).get("Record_TSIG") or _fail("Record_TSIG vanished")
        ms = methods(cls)
        enc_sizes = []
        for cc in ast.walk(ms["encode"]):
            if _is_pack(cc):
                f = _fmt_of(cc.args[0], mod, cls, consts)
                par = getattr(cc, "_parent", None)
                size = struct.calcsize(f) if f else None
                if isinstance(par, ast.Subscript) and isinstance(par.slice, ast.Slice) and par.slice.lower is not None and par.slice.upper is None:
                    try:
                        size -= const_eval(par.slice.lower, consts)
                    except NotConst:
                        size = None
                enc_sizes.append(size)
        dec_sizes = []
        for cc in ast.walk(ms["decode"]):
            if _is_read(cc):
                try:
                    dec_sizes.append(const_eval(cc.args[1], consts))
                except NotConst:
                    pass
        ctx.check(None not in enc_sizes and sum(enc_sizes) == sum(dec_sizes) == 16, "layout/tsig-fixed-part", f"{Q}.Record_TSIG",
                  f"fixed-size parts: encode writes {enc_sizes} bytes, decode reads {dec_sizes} bytes (6-byte time + fudge + MAC size, then id + error + other size)")
        for cc in ast.walk(ms["decode"]):
            if _is_unpack(cc):
                f = _fmt_of(cc.args[0], mod, cls, consts)
                arg = cc.args[1]
                pad = 0
                rd = None
                for x in ([arg.left, arg.right] if isinstance(arg, ast.BinOp) else [arg]):
                    if isinstance(x, ast.Constant) and isinstance(x.value, bytes):
                        pad += len(x.value)
                    elif _is_read(x):
                        rd = const_eval(x.args[1], consts)
                ctx.check(f is not None and rd is not None and struct.calcsize(f) == pad + rd, "layout/tsig-fixed-part", f"{Q}.Record_TSIG.decode | {src(cc.args[0])}",
                          f"unpack({f!r}) needs {struct.calcsize(f) if f else '?'} bytes, it is given {pad}+{rd}")


# ---------------------------------------------------------------------------------------------------------------
# Name.encode limits (F32), header bits, sections, truncation, registry, compareAttributes

def check_name_limits(ctx, mod, consts):
    f = ctx.func(DNS, "Name.encode")
    g = ctx.cfg(f)
    q = Q + ".Name.encode"
    strio = f.args.args[1].arg
    # the label-length byte written
    writes = g.find(lambda x: isinstance(x, ast.Call) and call_name(x) == f"{strio}.write" and len(x.args) == 1 and isinstance(x.args[0], ast.Call)
                    and call_name(x.args[0]) in ("_ord2bytes", "bytes", "struct.pack", "pack"))
    len_writes = []
    ptr_writes = []
    for n in writes:
        call = next(x for x in walk_local(g.node(n).ast) if isinstance(x, ast.Call) and call_name(x) == f"{strio}.write")
        inner = call.args[0]
        if call_name(inner) == "_ord2bytes":
            len_writes.append((n, inner.args[0]))
        elif _is_pack(inner) and any(isinstance(x, ast.BinOp) and isinstance(x.op, ast.BitOr) for x in ast.walk(inner)):
            ptr_writes.append((n, inner))
    ctx.need(len_writes, "label length write in Name.encode")
    ctx.need(ptr_writes, "compression pointer write in Name.encode")
    all_label_guarded = True
    for n, v in len_writes:
        vt = src(v)
        ok = False
        for t, lab in g.edge_guards(n):
            fm = lincmp(g.node(t).ast, consts, negate=(lab == "F"))
            if fm is not None and dict(fm[0]).get(vt, 0) < 0 and set(k for k, _ in fm[0]) == {vt} and -fm[1] <= 63 and fm[1] <= 0:
                # -v >= -c  with c <= 63
                ok = True
            if fm is not None and f"len(label)" in dict(fm[0]) and dict(fm[0])["len(label)"] < 0 and -fm[1] <= 63:
                ok = True
        all_label_guarded = all_label_guarded and ok
        ctx.check(ok, "name/label-length-limit", ctx.construct(q, g.node(n).ast),
                  "Name(b'a'*64 + b'.com').encode() writes the length byte 0x40 and a 200-byte label writes 0xc8: the two top bits of that byte mean "
                  "'compression pointer' to every reader, so the name is not refused and does not decode to itself (labels are limited to 63 bytes)")
    for n, inner in ptr_writes:
        off = next((x for x in ast.walk(inner) if isinstance(x, ast.BinOp) and isinstance(x.op, ast.BitOr)), None)
        operand = off.right if isinstance(off.left, ast.Constant) else off.left
        ot = src(operand)
        ok = False
        for t, lab in g.edge_guards(n):
            fm = lincmp(g.node(t).ast, consts, negate=(lab == "F"))
            if fm is not None and set(k for k, _ in fm[0]) == {ot} and dict(fm[0])[ot] < 0 and -fm[1] <= 0x3FFF:
                ok = True
        ctx.check(ok, "name/pointer-offset-limit", ctx.construct(q, g.node(n).ast),
                  "a name that was first written at offset >= 0x4000 is referenced with 0xC000 | offset, which a reader decodes as offset & 0x3FFF: "
                  "in a 26 KiB message the last owner name decodes to bytes from the middle of another record")
        # the pointer marker and format
        fmt = _fmt_of(inner.args[0], mod, ctx.cls(DNS, "Name"), consts)
        mark = off.left if isinstance(off.left, ast.Constant) else off.right
        ctx.check(fmt == "!H" and isinstance(mark, ast.Constant) and mark.value == 0xC000, "name/pointer-form", q + " | <compression pointer form>",
                  f"a compression pointer is written as pack({fmt!r}, {src(off)}); RFC 1035 4.1.4 requires two bytes with the top two bits set (0xC000 | offset)")
    # offsets recorded relative to the message start
    recs = [st for st in statements(f) if isinstance(st, ast.Assign) and any(isinstance(t, ast.Subscript) and src(t.value) == "compDict" for t in st.targets)]
    ok = len(recs) == 1 and lin_equal(recs[0].value, ast.parse(f"{strio}.tell() + Message.headerSize", mode="eval").body, {})
    ctx.check(ok, "name/pointer-form", q + " | <recorded offset>", "the offset remembered for later back-references is not `position in the body + header size`: "
              "pointers would not address the start of the name within the message")
    # decoder side of the pointer: (l & 63) << 8 | next byte, taken when the two top bits are set
    d = _name_label_reader(ctx)
    dq = f"{Q}.Name.{d.name}"
    ptr = [st for st in statements(d) if isinstance(st, ast.Assign) and any(isinstance(x, ast.BinOp) and isinstance(x.op, ast.LShift) for x in ast.walk(st.value))]
    ok = False
    if len(ptr) == 1:
        expr = ptr[0].value
        # evaluate the decoder's pointer expression against the RFC form on a grid
        cands = {x.id for x in ast.walk(expr) if isinstance(x, ast.Name)} - {"ord", "readPrecisely", d.args.args[1].arg}
        lname = next(iter(cands)) if len(cands) == 1 else None
        ok = lname is not None
        for hi in (0xC0, 0xC1, 0xFF, 0xE8):
            for lo in (0, 1, 0x7F, 0xFF):
                e2 = fresh(expr)
                for x in ast.walk(e2):
                    if isinstance(x, ast.Call) and call_name(x) == "ord":
                        x.func = ast.Name(id="int", ctx=ast.Load())
                        x.args = [ast.Constant(value=lo)]
                try:
                    v = const_eval(e2, {lname: hi})
                except NotConst:
                    ok = False
                    break
                if v != (((hi << 8) | lo) & 0x3FFF):
                    ok = False
    ctx.check(ok, "name/pointer-form", dq + " | <pointer value>", "the decoder does not compute the 14-bit offset ((first & 0x3F) << 8) | second of a compression pointer")
    tests = [t for t in ast.walk(d) if isinstance(t, ast.Compare) and any(isinstance(x, ast.BinOp) and isinstance(x.op, ast.RShift) for x in ast.walk(t))]
    okt = False
    if len(tests) == 1:
        lname = next((x.id for x in ast.walk(tests[0]) if isinstance(x, ast.Name)), None)
        try:
            okt = all(bool(const_eval(tests[0], {lname: b})) == (b >= 0xC0) for b in range(256))
        except NotConst:
            okt = False
    ctx.check(okt, "name/pointer-form", dq + " | <pointer test>", "the decoder does not treat exactly the bytes 0xC0..0xFF as the first byte of a compression pointer")
    return all_label_guarded


def _name_label_reader(ctx) -> ast.FunctionDef:
    """The method of Name that reads length bytes and follows pointers (Name.decode today; a helper after a refactor)."""
    cls = ctx.cls(DNS, "Name")
    cands = [m for m in methods(cls).values()
             if any(isinstance(x, ast.Call) and call_name(x) == "ord" for x in ast.walk(m))
             and any(isinstance(x, ast.Call) and call_attr(x) == "seek" for x in ast.walk(m))
             and any(isinstance(x, ast.BinOp) and isinstance(x.op, ast.LShift) for x in ast.walk(m))]
    if len(cands) != 1:
        _fail(f"Name: the method that reads labels and follows compression pointers was not identified ({[m.name for m in cands]})")
    ctx.functions.add(f"{DNS}:Name.{cands[0].name}")
    return cands[0]


def check_name_reader(ctx, mod, consts, encoder_limits_labels: bool):
    """Writer/reader agreement on compression: Name.encode chains suffix pointers without any bound (h2.h1.example.com after
    h1.example.com after example.com adds one hop per nesting level), so the only input Name.decode may refuse while following
    pointers is a true cycle - a target already visited in this name.  Any other rejection is a condition the writer does not
    respect, i.e. Twisted would refuse its own valid output."""
    f = _name_label_reader(ctx)
    g = ctx.cfg(f)
    q = f"{Q}.Name.{f.name}"
    defs = single_defs(f)
    seeks = g.find(lambda x: isinstance(x, ast.Call) and call_attr(x) == "seek")
    loops = [x for x in ast.walk(f) if isinstance(x, ast.While)]
    if len(loops) != 1:
        _fail("Name.decode: the label loop was not found exactly once")
    loop = loops[0]
    heads = g.ids(lambda n: n.kind == "join" and n.ast is loop)
    ptr_defs = [st for st in statements(f) if isinstance(st, ast.Assign) and len(st.targets) == 1 and isinstance(st.targets[0], ast.Name)
                and any(isinstance(x, ast.BinOp) and isinstance(x.op, ast.LShift) for x in ast.walk(st.value))]
    if len(ptr_defs) != 1:
        _fail("Name: the assignment computing the pointer target was not found exactly once")
    target = ptr_defs[0].targets[0].id
    jump = [s_ for s_ in seeks if any(isinstance(x, ast.Call) and call_attr(x) == "seek" and [src(a) for a in x.args[:1]] == [target] for x in walk_local(g.node(s_).ast))]
    if not jump:
        _fail(f"Name: no seek({target}) (pointer following) was found")
    # the length-byte variable and the pointer test
    ptests = []
    for t in g.ids(lambda n: n.kind == "test"):
        te = g.node(t).ast
        names = {x.id for x in ast.walk(te) if isinstance(x, ast.Name)}
        if len(names) != 1:
            continue
        nm = next(iter(names))
        try:
            tv = [bool(const_eval(te, {nm: b})) for b in range(256)]
        except (NotConst, TypeError):
            continue
        if tv == [b >= 0xC0 for b in range(256)]:
            ptests.append((t, "T", nm))
        elif tv == [b < 0xC0 for b in range(256)]:
            ptests.append((t, "F", nm))
    if len(ptests) != 1:
        _fail("Name.decode: the test selecting the compression-pointer branch (first byte >= 0xC0) was not found exactly once")
    pt, plab, lvar = ptests[0]

    def membership(n: int):
        """(container, ) if node n is dominated by `target in C` being false."""
        for t, lab in g.edge_guards(n):
            te = g.node(t).ast
            if isinstance(te, ast.Name) and te.id in defs:
                te = defs[te.id]
            if isinstance(te, ast.Compare) and len(te.ops) == 1 and src(te.left) == target:
                if (isinstance(te.ops[0], ast.In) and lab == "T") or (isinstance(te.ops[0], ast.NotIn) and lab == "F"):
                    return src(te.comparators[0])
        return None

    raises = g.ids(lambda n: n.kind == "stmt" and isinstance(n.ast, ast.Raise))
    n_sites = 0
    containers = set()
    for r in raises:
        n_sites += 1
        cons = ctx.construct(q, g.node(r).ast)
        in_branch = any(t == pt and lab == plab for t, lab in g.edge_guards(r))
        cont = membership(r)
        if cont is not None:
            containers.add(cont)
            ctx.ok("name/reader-accepts-writer", cons, f"only when `{target}` was already visited in this name (a true cycle, which the writer never produces)")
            continue
        # a rejection of reserved label types (length byte 64..191) is tolerated once the writer refuses such labels itself
        gl = [(g.node(t).ast, lab) for t, lab in g.edge_guards(r)]
        only_reserved = False
        for te, lab in gl:
            names = {x.id for x in ast.walk(te) if isinstance(x, ast.Name)}
            if names == {lvar}:
                try:
                    rej = [b for b in range(256) if bool(const_eval(te, {lvar: b})) == (lab == "T")]
                except (NotConst, TypeError):
                    continue
                if rej and min(rej) >= 64 and max(rej) < 0xC0:
                    only_reserved = True
        if only_reserved and encoder_limits_labels and not in_branch:
            ctx.ok("name/reader-accepts-writer", cons, "length bytes 64..191 only; the writer refuses labels longer than 63 bytes")
            continue
        conds = " and ".join(f"{'' if lab == 'T' else 'not '}({src(te)})" for te, lab in gl if not (isinstance(te, ast.Constant)))
        ctx.violation("name/reader-accepts-writer", cons,
                      f"Name.decode refuses a name when {conds or 'this point is reached'}: Name.encode enforces no such limit - it chains suffix pointers "
                      "(example.com, h1.example.com, h2.h1.example.com, ... one more hop per nesting level) and writes names of any length - so a message Twisted "
                      "itself encoded is rejected on decoding; while following pointers only a target already visited in the same name (a real cycle) may be refused")
    ctx.floor("name/reader-accepts-writer", n_sites, 1, "raise sites in Name.decode")
    # the pointer branch always follows the pointer (no quiet give-up)
    tsucc = [d for d, l in g.succ[pt] if l == plab]
    ok_raises = [r for r in raises if membership(r) is not None]
    quiet = g.path([x for x in tsucc if x not in jump and x not in ok_raises], [g.exit] + heads, avoid=set(jump) | set(ok_raises), edge_ok=lambda a, b, l: l != "exc")
    ctx.check(quiet is None, "name/reader-accepts-writer", q + " | <pointer always followed>",
              "a compression pointer can be skipped or end the name without being followed: the suffix it refers to is lost", witness=g.describe(quiet))
    # the visited container only ever receives the offsets jumped to
    for cont in sorted(containers):
        bad = []
        inits = 0
        body_ids = {id(x) for x in ast.walk(loop)}
        for st in ast.walk(f):
            if isinstance(st, (ast.Assign, ast.AnnAssign, ast.AugAssign)) and any(isinstance(x, ast.Name) and x.id == cont and isinstance(x.ctx, ast.Store) for x in ast.walk(st)):
                v = getattr(st, "value", None)
                empty = isinstance(v, (ast.List, ast.Set, ast.Tuple, ast.Dict)) and not getattr(v, "elts", getattr(v, "keys", None)) or \
                    (isinstance(v, ast.Call) and call_name(v) in ("set", "list", "dict") and not v.args)
                if isinstance(st, ast.Assign) and empty and id(st) not in body_ids:
                    inits += 1
                else:
                    bad.append(src(st))
            if isinstance(st, ast.Call) and isinstance(st.func, ast.Attribute) and src(st.func.value) == cont:
                if st.func.attr in ("add", "append") and [src(a) for a in st.args] == [target]:
                    continue
                if st.func.attr in ("__contains__", "count", "index", "copy"):
                    continue
                bad.append(src(st))
        params = [a.arg for a in f.args.args]
        if inits == 0 and cont in params:
            # the container is handed in by the callers inside the class: each must pass a fresh empty one (or pass its own on)
            pos = params.index(cont) - 1
            sites = [c for m in methods(ctx.cls(DNS, "Name")).values() for c in ast.walk(m) if isinstance(c, ast.Call) and call_name(c) == f"self.{f.name}"]
            fresh_ok = bool(sites)
            for c in sites:
                a = c.args[pos] if pos < len(c.args) else next((k.value for k in c.keywords if k.arg == cont), None)
                emptyc = isinstance(a, ast.Call) and call_name(a) in ("set", "list") and not a.args or (isinstance(a, (ast.List, ast.Set)) and not a.elts)
                if not (emptyc or (isinstance(a, ast.Name) and a.id == cont)):
                    fresh_ok = False
            if fresh_ok:
                inits = 1
        ctx.check(inits == 1 and not bad, "name/reader-accepts-writer", q + f" | {cont}",
                  f"`{cont}` must start empty before the loop and only ever receive the offsets jumped to ({cont}.add({target})); found: {bad or 'no single empty initialisation'} - "
                  "otherwise an offset that was never visited can be taken for a cycle")


_HEADER_BITS = {  # attribute -> (byte index 3|4, shift, width)   RFC 1035 4.1.1, RFC 2535 6.1
    "answer": (3, 7, 1), "opCode": (3, 3, 4), "auth": (3, 2, 1), "trunc": (3, 1, 1), "recDes": (3, 0, 1),
    "recAv": (4, 7, 1), "authenticData": (4, 5, 1), "checkingDisabled": (4, 4, 1), "rCode": (4, 0, 4),
}


def _attr_names(expr, recv="self"):
    return attrs_to_names(expr, recv)


def check_header(ctx, mod, consts):
    cls = ctx.cls(DNS, "Message")
    enc = ctx.func(DNS, "Message.encode")
    dec = ctx.func(DNS, "Message.decode")
    q = Q + ".Message"
    hf = class_const(mod, cls, "headerFmt", consts)
    hs = class_const(mod, cls, "headerSize", consts)
    ctx.check(isinstance(hf, str) and struct.calcsize(hf) == 12 and struct_codes(hf) == ["H", "B", "B", "H", "H", "H", "H"], "header/format", q + " | headerFmt",
              f"the header format is {hf!r}; RFC 1035 4.1.1 fixes id(16) flags(8+8) and four 16-bit counts = 12 bytes")
    hsx = class_assigns(cls).get("headerSize")
    ctx.check(hsx is not None and src(hsx) in ("struct.calcsize(headerFmt)", "12"), "header/format", q + " | headerSize", f"headerSize is {src(hsx) if hsx is not None else None}, not the size of headerFmt")
    # encode side
    packs = [c for c in ast.walk(enc) if _is_pack(c) and c.args and is_self_attr(c.args[0], "headerFmt")]
    if len(packs) != 1 or len(packs[0].args) != 8:
        _fail("Message.encode: struct.pack(self.headerFmt, id, b3, b4, n, n, n, n) not found")
    pa = packs[0].args[1:]
    edefs = single_defs(enc)
    b3e, b4e = _attr_names(expand(pa[1], edefs)), _attr_names(expand(pa[2], edefs))
    ctx.check(src(pa[0]) == "self.id", "header/fields", q + ".encode | id", f"the first header field written is {src(pa[0])}, not self.id")
    # decode side
    ups = [st for st in statements(dec) if isinstance(st, ast.Assign) and isinstance(st.targets[0], ast.Tuple) and len(st.targets[0].elts) == 7]
    if len(ups) != 1:
        _fail("Message.decode: 7-way unpacking of the header not found")
    tg = ups[0].targets[0].elts
    ctx.check(src(tg[0]) == "self.id", "header/fields", q + ".decode | id", f"the first header field is stored in {src(tg[0])}, not self.id")
    b3n, b4n = src(tg[1]), src(tg[2])
    ddefs = single_defs(dec)
    vsrc = expand(ups[0].value, ddefs)
    okh = _is_unpack(vsrc) and is_self_attr(vsrc.args[0], "headerFmt") and _is_read(vsrc.args[1]) and is_self_attr(vsrc.args[1].args[1], "headerSize")
    ctx.check(okh, "header/format", q + ".decode | <header read>", "the header is not read as struct.unpack(self.headerFmt, readPrecisely(strio, self.headerSize))")
    dexprs: Dict[str, ast.expr] = {}
    for st in statements(dec):
        if isinstance(st, ast.Assign) and len(st.targets) == 1 and is_self_attr(st.targets[0]) and any(isinstance(x, ast.Name) and x.id in (b3n, b4n) for x in ast.walk(st.value)):
            dexprs[st.targets[0].attr] = st.value
    ctx.check(set(dexprs) == set(_HEADER_BITS), "header/flags", q + ".decode | <flag set>",
              f"flags decoded: {sorted(dexprs)}; the header carries {sorted(_HEADER_BITS)}")
    zbad = None
    for attr, (byte, shift, width) in _HEADER_BITS.items():
        bad = None
        vals = list(range(1 << width))
        for bg in (0, 1):  # background: all other flags clear / set
            for v in vals:
                env = {f"self__{a}": ((1 << _HEADER_BITS[a][2]) - 1) * bg for a in _HEADER_BITS}
                env[f"self__{attr}"] = v
                try:
                    e3, e4 = const_eval(b3e, env), const_eval(b4e, env)
                except NotConst as ex:
                    _fail(f"Message.encode flag bytes not evaluable: {ex}")
                got = ((e3 if byte == 3 else e4) >> shift) & ((1 << width) - 1)
                if got != v and not bad:
                    bad = f"encode: {attr}={v} (other flags {'set' if bg else 'clear'}) gives byte{byte}={(e3 if byte == 3 else e4):#04x}; RFC puts {attr} at bits {shift + width - 1}..{shift}"
                if not (0 <= e3 <= 255 and 0 <= e4 <= 255) and not bad:
                    bad = f"encode: flag bytes out of range ({e3}, {e4}) for {attr}={v}"
                if e4 & 0x40:
                    zbad = zbad or f"encode: {attr}={v} (other flags {'set' if bg else 'clear'}) sets the reserved Z bit (byte4={e4:#04x})"
                if attr in dexprs:
                    # decode the RFC-positioned bytes
                    b3v = sum((((1 << w) - 1) * bg if a != attr else v) << s for a, (b, s, w) in _HEADER_BITS.items() if b == 3)
                    b4v = sum((((1 << w) - 1) * bg if a != attr else v) << s for a, (b, s, w) in _HEADER_BITS.items() if b == 4)
                    try:
                        back = const_eval(dexprs[attr], {b3n: b3v, b4n: b4v})
                    except NotConst as ex:
                        _fail(f"Message.decode flag expression not evaluable: {ex}")
                    if back != v and not bad:
                        bad = f"decode: bytes ({b3v:#04x}, {b4v:#04x}) carry {attr}={v} but `{src(dexprs[attr])}` yields {back}"
        ctx.check(bad is None, "header/flags", q + f" | {attr}", bad or "", detail=f"{2 * len(vals)} evaluations each way")
    ctx.check(zbad is None, "header/flags", q + " | <reserved Z bit>", zbad or "")
    # counts <-> sections, same order both ways
    sections_enc = []
    for st in enc.body:
        if isinstance(st, ast.For) and is_self_attr(st.iter) and any(isinstance(c, ast.Call) and call_attr(c) == "encode" for c in ast.walk(st)):
            sections_enc.append(src(st.iter))
        elif isinstance(st, ast.For) and isinstance(st.iter, (ast.Tuple, ast.List)) and all(is_self_attr(e) for e in st.iter.elts) \
                and any(isinstance(c, ast.Call) and call_attr(c) == "encode" for c in ast.walk(st)):
            sections_enc.extend(src(e) for e in st.iter.elts)
    if not sections_enc:
        _fail("Message.encode: the loops writing the four sections were not recognised")
    counts_enc = [src(a.args[0]) if isinstance(a, ast.Call) and call_name(a) == "len" and a.args else src(a) for a in pa[3:]]
    ctx.check(sections_enc == counts_enc == ["self.queries", "self.answers", "self.authority", "self.additional"], "header/sections", q + ".encode | <section order>",
              f"sections are written in the order {sections_enc} and counted as {counts_enc}; both must be queries, answers, authority, additional")
    cn = [src(t) for t in tg[3:]]
    qloop = [st for st in dec.body if isinstance(st, ast.For) and isinstance(st.iter, ast.Call) and call_name(st.iter) == "range"]
    okq = len(qloop) == 1 and [src(a) for a in qloop[0].iter.args] == [cn[0]] and any(isinstance(x, ast.Call) and call_name(x) == "self.queries.append" for x in ast.walk(qloop[0]))
    items = [st for st in statements(dec) if isinstance(st, ast.Assign) and isinstance(st.value, ast.Tuple) and all(isinstance(e, ast.Tuple) and len(e.elts) == 2 for e in st.value.elts) and len(st.value.elts) == 3]
    pairs = [(src(e.elts[0]), src(e.elts[1])) for e in items[0].value.elts] if len(items) == 1 else []
    ctx.check(okq and pairs == [("self.answers", cn[1]), ("self.authority", cn[2]), ("self.additional", cn[3])], "header/sections", q + ".decode | <section order>",
              f"the decoder reads {cn[0]} queries then {pairs}; the counts unpacked are {cn} in header order")


def check_opt(ctx, mod, consts):
    enc = ctx.func(DNS, "_OPTHeader.encode")
    frm = ctx.func(DNS, "_OPTHeader.fromRRHeader")
    q = Q + "._OPTHeader"
    rr = [c for c in ast.walk(enc) if isinstance(c, ast.Call) and call_name(c) == "RRHeader"]
    if len(rr) != 1:
        _fail("_OPTHeader.encode: RRHeader(...) construction not found")
    kw = {k.arg: k.value for k in rr[0].keywords}
    ret = [c for c in ast.walk(frm) if isinstance(c, ast.Call) and call_name(c) == "cls"]
    if len(ret) != 1:
        _fail("_OPTHeader.fromRRHeader: cls(...) construction not found")
    dk = {k.arg: k.value for k in ret[0].keywords}
    rrn = frm.args.args[1].arg
    ctx.check("cls" in kw and src(kw["cls"]) == "self.udpPayloadSize" and "udpPayloadSize" in dk and src(dk["udpPayloadSize"]) == f"{rrn}.cls", "opt/fields", q + " | udpPayloadSize",
              "the requestor's UDP payload size does not travel in the CLASS field both ways")
    ctx.check("type" in kw and src(kw["type"]) == "self.type", "opt/fields", q + " | type", "the OPT pseudo-record is not written with its own type")
    need = ("extendedRCODE", "version", "dnssecOK")
    if "ttl" not in kw or not all(k in dk for k in need):
        _fail("_OPTHeader: ttl= / extendedRCODE= / version= / dnssecOK= keywords not found")
    te = _attr_names(kw["ttl"])
    bad = None
    n = 0
    for e in (0, 1, 0x80, 0xFF):
        for v in (0, 1, 0x80, 0xFF):
            for d in (0, 1, False, True):
                n += 1
                try:
                    ttl = const_eval(te, {"self__extendedRCODE": e, "self__version": v, "self__dnssecOK": d})
                except NotConst as ex:
                    _fail(f"_OPTHeader.encode ttl expression not evaluable: {ex}")
                want = e << 24 | v << 16 | int(d) << 15
                if ttl != want and not bad:
                    bad = f"encode: extendedRCODE={e} version={v} dnssecOK={d} gives TTL {ttl:#010x}; RFC 6891 6.1.3 requires {want:#010x}"
                for name, val in (("extendedRCODE", e), ("version", v), ("dnssecOK", d)):
                    x = _attr_names(dk[name], rrn)
                    try:
                        back = const_eval(x, {f"{rrn}__ttl": want})
                    except NotConst as ex:
                        _fail(f"_OPTHeader.fromRRHeader {name} expression not evaluable: {ex}")
                    if back != val and not bad:
                        bad = f"decode: TTL {want:#010x} carries {name}={val} but `{src(dk[name])}` yields {back}"
    ctx.check(bad is None, "opt/ttl-bits", q + " | <TTL bit fields>", bad or "", detail=f"{n} grid points both ways")
    # options: payload bytes are the concatenation of the encoded options; decoded until exhausted
    loop = [st for st in enc.body if isinstance(st, ast.For) and src(st.iter) == "self.options"]
    okw = len(loop) == 1 and "payload" in kw and isinstance(kw["payload"], ast.Call) and call_name(kw["payload"]) == "UnknownRecord"
    wl = [st for st in ast.walk(frm) if isinstance(st, ast.While)]
    okr = len(wl) == 1 and any(isinstance(c, ast.Call) and call_attr(c) == "decode" for c in ast.walk(wl[0])) and any(isinstance(c, ast.Call) and call_name(c) == "options.append" for c in ast.walk(wl[0]))
    ctx.check(okw and okr, "opt/fields", q + " | options", "the variable options are not written as the record payload and read back until the payload is exhausted")


def check_edns(ctx, mod, consts):
    """_EDNSMessage <-> Message + OPT record: the same fields travel both ways; the 12-bit rCode is split 8/4 and rejoined."""
    to = ctx.func(DNS, "_EDNSMessage._toMessage")
    frm = ctx.func(DNS, "_EDNSMessage._fromMessage")
    q = Q + "._EDNSMessage"
    mk = [c for c in ast.walk(to) if isinstance(c, ast.Call) and call_name(c) == "self._messageFactory"]
    ok_ = [c for c in ast.walk(to) if isinstance(c, ast.Call) and call_name(c) == "_OPTHeader"]
    if len(mk) != 1 or len(ok_) != 1:
        _fail("_EDNSMessage._toMessage: message/OPT construction not found")
    mkw = {k.arg: k.value for k in mk[0].keywords}
    okw = {k.arg: k.value for k in ok_[0].keywords}
    msgp = frm.args.args[1].arg
    back = [c for c in ast.walk(frm) if isinstance(c, ast.Call) and call_name(c) == "cls"]
    if len(back) != 1:
        _fail("_EDNSMessage._fromMessage: cls(...) construction not found")
    bkw = {k.arg: k.value for k in back[0].keywords}
    # plain header fields: written from self.X, read back from message.X
    plain = ("id", "answer", "opCode", "auth", "trunc", "recDes", "recAv", "authenticData", "checkingDisabled")
    for a in plain:
        ctx.check(a in mkw and src(mkw[a]) == f"self.{a}" and a in bkw and src(bkw[a]) == f"{msgp}.{a}", "edns/field-mapping", f"{q} | {a}",
                  f"`{a}` does not travel as Message.{a} in both directions (to: {src(mkw[a]) if a in mkw else None}, from: {src(bkw[a]) if a in bkw else None})")
    for sec in ("queries", "answers", "authority"):
        copied = any(isinstance(st, ast.Assign) and src(st.targets[0]).endswith("." + sec) and src(st.value) in (f"self.{sec}[:]", f"list(self.{sec})", f"self.{sec}") for st in statements(to))
        ctx.check(copied and sec in bkw and src(bkw[sec]) in (f"{msgp}.{sec}[:]", f"list({msgp}.{sec})", f"{msgp}.{sec}"), "edns/field-mapping", f"{q} | {sec}",
                  f"section `{sec}` is not copied unchanged in both directions")
    # OPT-carried fields
    opt_assign = {}
    optv = None
    for st in statements(frm):
        if isinstance(st, ast.Assign) and len(st.targets) == 1 and isinstance(st.targets[0], ast.Attribute) and isinstance(st.targets[0].value, ast.Name) \
                and st.targets[0].value.id not in ("self",) and isinstance(st.value, (ast.Attribute, ast.BinOp)):
            opt_assign[st.targets[0].attr] = st.value
    for mine, theirs in (("ednsVersion", "version"), ("dnssecOK", "dnssecOK"), ("maxSize", "udpPayloadSize")):
        w = okw.get(theirs)
        r = opt_assign.get(mine)
        ctx.check(w is not None and src(w) == f"self.{mine}" and r is not None and isinstance(r, ast.Attribute) and r.attr == theirs, "edns/field-mapping", f"{q} | {mine}",
                  f"`{mine}` is written to OPT.{theirs} as {src(w) if w is not None else None} and read back from {src(r) if r is not None else None}")
    # rCode split
    lo, hi, join = mkw.get("rCode"), okw.get("extendedRCODE"), opt_assign.get("rCode")
    bad = None
    if lo is None or hi is None or join is None:
        bad = "the rCode split (Message.rCode / OPT.extendedRCODE) or its recombination was not found"
    else:
        names = sorted({x.value.id for x in ast.walk(join) if isinstance(x, ast.Attribute) and isinstance(x.value, ast.Name)})
        for r in (0, 1, 15, 16, 17, 0xFF, 0x100, 0xABC, 0xFFF):
            try:
                l = const_eval(attrs_to_names(lo), {"self__rCode": r})
                h = const_eval(attrs_to_names(hi), {"self__rCode": r})
                e = fresh(join)
                for nm in names:
                    e = attrs_to_names(e, nm)
                env = {f"{nm}__extendedRCODE": h for nm in names}
                env.update({f"{nm}__rCode": l for nm in names})
                j = const_eval(e, env)
            except NotConst as ex:
                _fail(f"_EDNSMessage rCode expressions not evaluable: {ex}")
            if not (0 <= l <= 15 and 0 <= h <= 255 and j == r) and not bad:
                bad = f"rCode {r:#05x} is sent as Message.rCode={l}, OPT.extendedRCODE={h} and received as {j:#05x}; RFC 6891 6.1.3: lower 4 bits in the header, upper 8 bits in OPT"
    ctx.check(bad is None, "edns/rcode-split", f"{q} | rCode", bad or "")
    # the OPT record is looked for in the additional section and removed from it
    loop = [st for st in frm.body if isinstance(st, ast.For) and src(st.iter) == f"{msgp}.additional"]
    okl = len(loop) == 1 and any(isinstance(t, ast.Compare) and src(t) in (f"{loop[0].target.id}.type == OPT", f"OPT == {loop[0].target.id}.type") for t in ast.walk(loop[0]))
    ctx.check(okl, "edns/field-mapping", f"{q}._fromMessage | <OPT extraction>", "OPT pseudo-records are not separated from message.additional by their type")
    app = [c for c in ast.walk(to) if isinstance(c, ast.Call) and call_attr(c) == "append" and src(c.func.value).endswith(".additional")]
    tg = ctx.cfg(to)
    nodes = [n for c in app for n in tg.ids_of(c)]
    ctx.check(bool(nodes) and all(tg.guarded(n, lambda e: src(e) == "self.ednsVersion is not None", True) for n in nodes), "edns/field-mapping", f"{q}._toMessage | <OPT appended>",
              "the OPT record is not appended to the additional section exactly when ednsVersion is set")


def check_truncation(ctx, mod, consts):
    f = ctx.func(DNS, "Message.encode")
    g = ctx.cfg(f)
    q = Q + ".Message.encode"
    defs = single_defs(f)
    # body variable: the one sliced
    cuts = g.ids(lambda n: n.kind == "stmt" and isinstance(n.ast, ast.Assign) and isinstance(n.ast.value, ast.Subscript) and isinstance(n.ast.value.slice, ast.Slice)
                 and isinstance(n.ast.targets[0], ast.Name) and src(n.ast.value.value) == n.ast.targets[0].id)
    ctx.check(len(cuts) == 1, "truncation/cut", q + " | <body cut>", f"{len(cuts)} statements cut the encoded body (exactly one expected)")
    sets = g.ids(lambda n: n.kind == "stmt" and isinstance(n.ast, ast.Assign) and any(is_self_attr(t, "trunc") for t in n.ast.targets))
    ctx.check(len(sets) == 1 and isinstance(g.node(sets[0]).ast.value, ast.Constant) and g.node(sets[0]).ast.value.value == 1, "truncation/flag", q + " | self.trunc",
              "the truncation flag is not set to 1 at exactly one place of encode")
    if len(cuts) != 1 or len(sets) != 1:
        return
    cut = g.node(cuts[0]).ast
    body = cut.targets[0].id
    # `size` may be a local: len(body) + self.headerSize.  body is assigned twice (getvalue, cut) so expand by hand.
    size_defs = {k: v for k, v in defs.items()}
    exp = lin_expect({f"len({body})": 1, "self.headerSize": 1, "self.maxSize": -1}, 1)
    for n in (cuts[0], sets[0]):
        forms = [norm_cmp(g.node(t).ast, size_defs, consts, negate=(lab == "F")) for t, lab in g.edge_guards(n)]
        forms = [fm for fm in forms if fm is not None]
        ctx.check(exp in forms, "truncation/boundary", ctx.construct(q, g.node(n).ast),
                  ("this runs when `" + " and ".join(fmt_lin(fm) for fm in forms) + "`" if forms else "this is not guarded by a size comparison") +
                  f"; a message must be truncated exactly when `{fmt_lin(exp)}` (one of exactly maxSize bytes fits and must keep trunc=0)")
        ctx.check(g.guarded(n, lambda e: src(e) == "self.maxSize", True), "truncation/boundary", ctx.construct(q, g.node(n).ast) + " | unlimited",
                  "maxSize == 0 means 'no limit'; the truncation branch must not run then")
    up = cut.value.slice.upper
    ctx.check(cut.value.slice.lower is None and up is not None and lin_equal(up, ast.parse("self.maxSize - self.headerSize", mode="eval").body, defs, consts), "truncation/cut",
              q + " | <body cut length>", f"the body is cut to [{src(cut.value.slice.lower) if cut.value.slice.lower else ''}:{src(up) if up else ''}]; header + body must be exactly maxSize bytes")
    # the flag byte is computed after trunc is set; the header is written after the cut
    flag_uses = g.ids(lambda n: n.kind == "stmt" and n.id not in sets and any(is_self_attr(x, "trunc") and isinstance(x.ctx, ast.Load) for x in ast.walk(n.ast)))
    ctx.need(flag_uses, "use of self.trunc in Message.encode")
    bad = g.path(flag_uses, sets, edge_ok=lambda a, b, l: l != "exc")
    ctx.check(bad is None, "truncation/flag", q + " | <flag before header>", "the flags byte is computed before trunc is set: a truncated message goes out with TC=0",
              witness=g.describe(bad))
    wr = g.find(lambda x: isinstance(x, ast.Call) and call_attr(x) == "write" and len(x.args) == 1 and src(x.args[0]) == body)
    bad = g.path(wr, cuts, edge_ok=lambda a, b, l: l != "exc")
    ctx.check(bool(wr) and bad is None, "truncation/cut", q + " | <cut before write>", "the body is written before it is cut to the limit", witness=g.describe(bad))

    # decoding a truncated message: stop at EOFError, append only complete records
    for qual in ("Message.decode", "Message.parseRecords"):
        d = ctx.func(DNS, qual)
        gd = ctx.cfg(d, exception_is_all=True)
        decs = gd.find(lambda x: isinstance(x, ast.Call) and call_attr(x) == "decode")
        apps = gd.find(lambda x: isinstance(x, ast.Call) and call_attr(x) == "append")
        ctx.need(decs, f"decode calls in {qual}")
        for n in decs:
            hs = [h for h, l in gd.succ[n] if l == "exc" and gd.node(h).kind == "handler"]
            ok = any(gd.node(h).ast.type is not None and "EOFError" in src(gd.node(h).ast.type) for h in hs)
            okret = ok and all(must_pass(gd, [h], gd.ids(lambda m: m.kind == "stmt" and isinstance(m.ast, ast.Return)), to=apps or None) is None for h in hs if "EOFError" in src(gd.node(h).ast.type or ast.Constant(value="")))
            ctx.check(ok and okret, "truncation/prefix-on-eof", ctx.construct(f"{Q}.{qual}", gd.node(n).ast),
                      "running out of data inside this element does not end decoding quietly (the records decoded so far must be kept, the partial one dropped)")
        for a in apps:
            # an append is reached only after the decode calls of the same iteration succeeded
            pre = [n for n in decs if gd.path([n], [a], edge_ok=lambda x, y, l: l != "exc")]
            via_exc = gd.path([n for n in decs], [a], edge_ok=lambda x, y, l: True, avoid=[])
            handlers_to_app = [h for n in decs for h, l in gd.succ[n] if l == "exc" and gd.path([h], [a], avoid=gd.ids(lambda m: m.kind == "for"))]
            ctx.check(bool(pre) and not handlers_to_app, "truncation/prefix-on-eof", ctx.construct(f"{Q}.{qual}", gd.node(a).ast),
                      "an element is appended although its decoding failed")


def check_registry(ctx, mod, consts):
    classes = module_classes(mod)
    recs = [c for n, c in classes.items() if n.startswith("Record_")]
    ctx.floor("registry/record-types", len(recs), 26, "Record_* classes")
    body = mod.tree.body
    msg = classes.get("Message") or _fail("Message vanished")
    mi = body.index(msg)
    types: Dict[object, str] = {}
    for c in recs:
        q = f"{Q}.{c.name}"
        ctx.check(body.index(c) < mi, "registry/record-types", q + " | <defined before Message>", f"{c.name} is defined after Message: Message._recordTypes (built from globals() while the "
                  "class body runs) does not contain it, its records decode as UnknownRecord and no longer compare equal")
        t = class_const(mod, c, "TYPE", consts)
        ctx.check(isinstance(t, int) and not isinstance(t, bool), "registry/record-types", q + " | TYPE", f"{c.name}.TYPE is {t!r}")
        if isinstance(t, int):
            ctx.check(t not in types, "registry/distinct-types", q + " | TYPE", f"{c.name} and {types.get(t)} share TYPE {t}: one of them is unreachable from the registry")
            types.setdefault(t, c.name)
        init = mro_lookup(mod, c, "__init__")
        ok = init is not None and isinstance(init[1], ast.FunctionDef) and (any(a.arg == "ttl" for a in init[1].args.args + init[1].args.kwonlyargs) or init[1].args.kwarg is not None)
        ctx.check(ok, "registry/constructible", q + " | __init__(ttl=)", f"Message.parseRecords builds the payload as {c.name}(ttl=...): the constructor does not accept it")
        for m in ("encode", "decode"):
            r = mro_lookup(mod, c, m)
            ctx.check(r is not None and isinstance(r[1], ast.FunctionDef), "registry/constructible", q + f" | {m}", f"{c.name} has no {m}()")
    # the loop building the table
    loops = [st for st in msg.body if isinstance(st, ast.For) and isinstance(st.iter, ast.Call) and call_name(st.iter) == "globals"]
    ok = False
    if len(loops) == 1:
        lp = loops[0]
        tests = [x for x in ast.walk(lp) if isinstance(x, ast.Call) and call_attr(x) == "startswith" and x.args and isinstance(x.args[0], ast.Constant) and x.args[0].value == "Record_"]
        stores = [st for st in ast.walk(lp) if isinstance(st, ast.Assign) and isinstance(st.targets[0], ast.Subscript) and src(st.targets[0].value) == "_recordTypes"]
        ok = len(tests) == 1 and len(stores) == 1 and src(stores[0].targets[0].slice).endswith(".TYPE") and src(stores[0].value) == src(stores[0].targets[0].slice)[:-5]
    ctx.check(ok, "registry/table-built", f"{Q}.Message | _recordTypes", "the registry is no longer filled with {cls.TYPE: cls} for every global whose name starts with 'Record_'")
    lk = ctx.func(DNS, "Message.lookupRecordType")
    rets = [st for st in statements(lk) if isinstance(st, ast.Return)]
    ok = len(rets) == 1 and isinstance(rets[0].value, ast.Call) and call_name(rets[0].value) == "self._recordTypes.get" and len(rets[0].value.args) == 2 \
        and src(rets[0].value.args[0]) == lk.args.args[1].arg and src(rets[0].value.args[1]) == "UnknownRecord"
    ctx.check(ok, "registry/unknown-fallback", f"{Q}.Message.lookupRecordType", "an unregistered type does not fall back to UnknownRecord (its bytes must pass through unchanged)")
    pr = ctx.func(DNS, "Message.parseRecords")
    calls = [c for c in ast.walk(pr) if isinstance(c, ast.Call) and call_attr(c) == "decode" and len(c.args) == 2 and src(c.args[1]).endswith(".rdlength")]
    ctx.check(len(calls) == 1, "registry/unknown-fallback", f"{Q}.Message.parseRecords | <rdlength passed>", "the payload decoder is not given the record's rdlength (length-delimited records cannot be read)")


def check_payload_always_built(ctx, mod, consts):
    """Message.parseRecords must hand back a payload object for every record the encoder can emit - also one with empty RDATA
    (Record_NULL(b''), UnknownRecord(b''), Record_TXT()): building and decoding the payload may depend only on the type look-up."""
    f = ctx.func(DNS, "Message.parseRecords")
    g = ctx.cfg(f)
    q = Q + ".Message.parseRecords"
    builds = g.ids(lambda n: n.kind == "stmt" and isinstance(n.ast, ast.Assign) and any(isinstance(t, ast.Attribute) and t.attr == "payload" for t in n.ast.targets)
                   and isinstance(n.ast.value, ast.Call))
    decodes = g.find(lambda x: isinstance(x, ast.Call) and call_attr(x) == "decode" and src(x.func.value).endswith(".payload"))
    appends = g.find(lambda x: isinstance(x, ast.Call) and call_attr(x) == "append")
    ctx.need(builds, "payload construction in parseRecords")
    ctx.need(decodes, "payload.decode call in parseRecords")
    ctx.need(appends, "append of the decoded header in parseRecords")
    tnames = {src(g.node(b).ast.value.func) for b in builds}
    for n in builds + decodes:
        for t, lab in g.edge_guards(n):
            te = g.node(t).ast
            txt = src(te)
            allowed = txt in tnames or any(txt in (f"{tn} is None", f"{tn} is not None") for tn in tnames)
            ctx.check(allowed, "registry/payload-always-built", ctx.construct(q, g.node(n).ast) + f" | guard {txt}",
                      f"the payload is built/decoded only when `{txt}` is {'true' if lab == 'T' else 'false'}: a record for which this does not hold - e.g. one with empty RDATA "
                      "(Record_NULL(b''), UnknownRecord(b''), an empty TXT) - comes back with payload None (or stale) although the encoder emits it; only the outcome of the "
                      "type look-up may decide this")
    for a in appends:
        w1 = g.must_precede(builds, [a], exc=False)
        w2 = g.must_precede(decodes, [a], exc=False)
        ctx.check(w1 is None and w2 is None, "registry/payload-always-built", ctx.construct(q, g.node(a).ast),
                  "a record header can be appended to the section without its payload having been built and decoded", witness=g.describe(w1 or w2))


_ROUNDTRIP_CASES = {
    # class -> (attribute names, sample attribute tuples).  Items are chosen around the empty string and the 255/256-octet boundary.
    "Record_TXT": (("data",), [([],), ([b""],), ([b"", b"a"],), ([b"k=v", b"", b"tail"],), ([b"a", b""],), ([b"x" * 255],), ([b"x" * 256],), ([b"a", b"x" * 255, b""],)]),
    "Record_SPF": (("data",), [([b""],), ([b"v=spf1", b"", b"-all"],)]),
    "Record_HINFO": (("cpu", "os"), [(b"", b""), (b"", b"linux"), (b"x86", b""), (b"c" * 255, b"o"), (b"c" * 256, b"o")]),
    "Charstr": (("string",), [(b"",), (b"a",), (b"s" * 255,), (b"s" * 256,)]),
    "_OPTVariableOption": (("code", "data"), [(3, b""), (3, b"abc"), (65535, b"\x00" * 300)]),
    "UnknownRecord": (("data",), [(b"",), (b"xyz",)]),
    "Record_NULL": (("payload",), [(b"",), (b"xyz",)]),
    "Record_SSHFP": (("algorithm", "fingerprintType", "fingerprint"), [(1, 2, b""), (4, 1, b"f" * 20)]),
    "Record_WKS": (("address", "protocol", "map"), [(b"\x01\x02\x03\x04", 6, b""), (b"\x01\x02\x03\x04", 17, b"\x00\x80")]),
}


def check_concrete_roundtrip(ctx, mod, consts):
    """encode/decode of the length-prefixed leaf codecs are interpreted (whitelisted interpreter, BytesIO and struct from the
    standard library) on items around the empty string and the 255/256 boundary: every item written must come back, the empty one
    included; an item the format cannot carry must be refused by encode, not altered."""
    classes = module_classes(mod)
    for cname, (attrs, samples) in _ROUNDTRIP_CASES.items():
        with ctx.section(f"concrete round trip {cname}"):
            c = classes.get(cname) or _fail(f"{cname} vanished")
            bad = None
            n = 0
            for vals in samples:
                ev = MiniEval(mod, consts=consts)
                src_inst = Inst(c, **{a: (list(v) if isinstance(v, list) else v) for a, v in zip(attrs, vals)})
                buf = io.BytesIO()
                k, r = run_eval(lambda: ev.method(src_inst, "encode", [buf]))
                if k == "unsupported":
                    _fail(f"{cname}.encode uses a construct outside the interpreted subset: {r}")
                n += 1
                shown = ", ".join(f"{a}={_short(v)}" for a, v in zip(attrs, vals))
                if k == "raised":
                    representable = all(len(x) <= 255 for v in vals for x in (v if isinstance(v, list) else [v]) if isinstance(x, bytes)) or cname in ("UnknownRecord", "Record_NULL", "_OPTVariableOption")
                    if representable and not (cname == "_OPTVariableOption" and False):
                        bad = bad or f"{cname}({shown}).encode() raises {r} although every item fits the format"
                    continue
                wire = buf.getvalue()
                dst = Inst(c)
                k, r = run_eval(lambda: ev.method(dst, "decode", [io.BytesIO(wire), len(wire)]))
                if k == "unsupported":
                    _fail(f"{cname}.decode uses a construct outside the interpreted subset: {r}")
                if k == "raised":
                    bad = bad or f"{cname}({shown}) encodes to {_short(wire)} which {cname}.decode refuses with {r}"
                    continue
                for a, v in zip(attrs, vals):
                    got = dst.fields.get(a, "<unset>")
                    if got != v or type(got) is not type(v):
                        bad = bad or f"{cname}({shown}) encodes to {_short(wire)} and decodes to {a}={_short(got)}"
            ctx.check(bad is None, "roundtrip/empty-and-boundary-items", f"{Q}.{cname} | encode/decode", bad or "", detail=f"{n} concrete instances interpreted")


def _short(v) -> str:
    if isinstance(v, list):
        return "[" + ", ".join(_short(x) for x in v) + "]"
    if isinstance(v, (bytes, bytearray)) and len(v) > 24:
        return f"<{len(v)} bytes {bytes(v[:4])!r}..>"
    return repr(v)


def check_compare_attributes(ctx, mod, consts):
    for c in [c for c in mod.tree.body if isinstance(c, ast.ClassDef) and "decode" in methods(c)]:
        with ctx.section(f"compareAttributes {c.name}"):
            ca = mro_lookup(mod, c, "compareAttributes")
            if ca is None:
                continue  # Charstr / Name / Query define __eq__ themselves
            try:
                attrs = list(const_eval(ca[1], consts))
            except NotConst:
                _fail(f"{c.name}.compareAttributes is not a literal")
            d = Dec(mod, c, methods(c)["decode"], consts)
            dec = methods(c)["decode"]
            assigned = set()
            inplace = set()
            for st in ast.walk(dec):
                if isinstance(st, ast.Assign):
                    for t in st.targets:
                        for e in (t.elts if isinstance(t, (ast.Tuple, ast.List)) else [t]):
                            if is_self_attr(e):
                                assigned.add(e.attr)
                if isinstance(st, ast.Call) and call_attr(st) in ("decode", "append") and is_self_attr(st.func.value):
                    inplace.add(st.func.value.attr)
                if isinstance(st, ast.Call) and call_name(st) == "setattr" and st.args and src(st.args[0]) == "self":
                    inplace.add("*")
            q = f"{Q}.{c.name}"
            for a in sorted(assigned):
                if (c.name, a) in NOT_COMPARED:
                    ctx.ok("equality/decoded-fields-compared", f"{q} | {a}", "documented exception: " + NOT_COMPARED[(c.name, a)])
                    continue
                ctx.check(a in attrs, "equality/decoded-fields-compared", f"{q} | {a}",
                          f"{c.name}.decode sets self.{a} but compareAttributes {tuple(attrs)} ignores it: two records differing only there compare equal "
                          "(a round trip would not notice a mangled field)")
            if "*" in inplace:
                continue
            for a in attrs:
                if a in assigned or a in inplace:
                    ctx.ok("equality/compared-fields-decoded", f"{q} | {a}")
                    continue
                if a in NOT_DECODED or (c.name, a) in NOT_DECODED:
                    ctx.ok("equality/compared-fields-decoded", f"{q} | {a}", "documented exception: " + NOT_DECODED.get(a, NOT_DECODED.get((c.name, a), "")))
                    continue
                ctx.violation("equality/compared-fields-decoded", f"{q} | {a}",
                              f"{c.name} compares `{a}` but decode never sets it: a decoded record keeps the constructor default and differs from the original")


def check(ctx):
    mod = ctx.mod(DNS)
    consts = module_consts(mod)
    check_layouts(ctx, mod, consts)          # one section per class inside
    label_guard = False
    with ctx.section("Name.encode limits"):
        label_guard = check_name_limits(ctx, mod, consts)
    with ctx.section("Name.decode accepts what Name.encode writes"):
        check_name_reader(ctx, mod, consts, label_guard)
    with ctx.section("Message header"):
        check_header(ctx, mod, consts)
    with ctx.section("OPT header"):
        check_opt(ctx, mod, consts)
    with ctx.section("EDNS mapping"):
        check_edns(ctx, mod, consts)
    with ctx.section("truncation"):
        check_truncation(ctx, mod, consts)
    with ctx.section("registry"):
        check_registry(ctx, mod, consts)
    with ctx.section("payload always built"):
        check_payload_always_built(ctx, mod, consts)
    check_concrete_roundtrip(ctx, mod, consts)   # one section per class inside
    check_compare_attributes(ctx, mod, consts)   # one section per class inside


MUTANTS = [
    Mutant("query-fields-swapped-in-encode", DNS, '        strio.write(struct.pack("!HH", self.type, self.cls))\n', '        strio.write(struct.pack("!HH", self.cls, self.type))\n', expect_rule="layout/agreement"),
    Mutant("soa-signedness", DNS, '        r = struct.unpack("!LlllL", readPrecisely(strio, 20))\n', '        r = struct.unpack("!LLllL", readPrecisely(strio, 20))\n', expect_rule="layout/agreement"),
    Mutant("soa-retry-expire-swapped", DNS, "        self.serial, self.refresh, self.retry, self.expire, self.minimum = r\n", "        self.serial, self.refresh, self.expire, self.retry, self.minimum = r\n",
           expect_rule="layout/agreement"),
    Mutant("hinfo-os-before-cpu", DNS, '        strio.write(struct.pack("!B", len(self.cpu)) + self.cpu)\n        strio.write(struct.pack("!B", len(self.os)) + self.os)\n',
           '        strio.write(struct.pack("!B", len(self.os)) + self.os)\n        strio.write(struct.pack("!B", len(self.cpu)) + self.cpu)\n', expect_rule="layout/agreement"),
    Mutant("naptr-regexp-service-swapped", DNS, "        self.service.decode(strio)\n        self.regexp.decode(strio)\n", "        self.regexp.decode(strio)\n        self.service.decode(strio)\n",
           expect_rule="layout/agreement"),
    Mutant("opt-option-length-8bit", DNS, '    _fmt = "!HH"\n', '    _fmt = "!HB"\n', expect_rule="layout/spec-format"),
    Mutant("txt-counter-forgets-length-byte", DNS, "            soFar += L + 1\n", "            soFar += L\n", expect_rule="layout/loop-accounting"),
    Mutant("wks-map-one-byte-long", DNS, "        self.map = readPrecisely(strio, length - 5)\n", "        self.map = readPrecisely(strio, length - 4)\n", expect_rule="layout/remainder-size"),
    Mutant("rdlength-patched-at-wrong-offset", DNS, "            strio.seek(prefix - 2, 0)\n", "            strio.seek(prefix - 4, 0)\n", expect_rule="layout/rdlength-backpatch"),
    Mutant("a6-prefix-condition", DNS, "        if self.prefixLen:\n            # This may not be compressed\n", "        if self.bytes:\n            # This may not be compressed\n", expect_rule="layout/agreement"),
    Mutant("header-cd-bit-position", DNS, "            | ((self.checkingDisabled & 1) << 4)\n", "            | ((self.checkingDisabled & 1) << 6)\n", expect_rule="header/flags"),
    Mutant("header-opcode-mask", DNS, "        self.opCode = (byte3 >> 3) & 0xF\n", "        self.opCode = (byte3 >> 3) & 0x7\n", expect_rule="header/flags"),
    Mutant("authority-additional-counts-swapped", DNS, "                len(self.authority),\n                len(self.additional),\n", "                len(self.additional),\n                len(self.authority),\n",
           expect_rule="header/sections"),
    Mutant("opt-version-unmasked", DNS, "            version=rrHeader.ttl >> 16 & 0xFF,\n", "            version=rrHeader.ttl >> 16,\n", expect_rule="opt/ttl-bits"),
    Mutant("edns-rcode-upper-bits-shift", DNS, "                extendedRCODE=self.rCode >> 4,\n", "                extendedRCODE=self.rCode >> 8,\n", expect_rule="edns/rcode-split"),
    Mutant("edns-max-size-not-restored", DNS, "            newMessage.maxSize = opt.udpPayloadSize\n", "", expect_rule="edns/field-mapping"),
    Mutant("truncate-at-exact-size", DNS, "        if self.maxSize and size > self.maxSize:\n", "        if self.maxSize and size >= self.maxSize:\n", expect_rule="truncation/boundary"),
    Mutant("cut-ignores-header", DNS, "            body = body[: self.maxSize - self.headerSize]\n", "            body = body[: self.maxSize]\n", expect_rule="truncation/cut"),
    Mutant("trunc-set-after-flags", DNS, "            self.trunc = 1\n            body = body[: self.maxSize - self.headerSize]\n", "            body = body[: self.maxSize - self.headerSize]\n",
           more=[(DNS, "        strio.write(body)\n\n    def decode(self, strio, length=None):\n        self.maxSize = 0\n", "        strio.write(body)\n        if self.maxSize and size > self.maxSize:\n            self.trunc = 1\n\n    def decode(self, strio, length=None):\n        self.maxSize = 0\n")],
           expect_rule="truncation/flag"),
    Mutant("partial-record-appended", DNS, "            try:\n                header.payload.decode(strio, header.rdlength)\n            except EOFError:\n                return\n            list.append(header)\n",
           "            try:\n                header.payload.decode(strio, header.rdlength)\n            except EOFError:\n                pass\n            list.append(header)\n", expect_rule="truncation/prefix-on-eof"),
    Mutant("duplicate-record-type", DNS, "    TYPE = SPF\n", "    TYPE = TXT\n", expect_rule="registry/distinct-types"),
    Mutant("unknown-type-skipped", DNS, "        return self._recordTypes.get(type, UnknownRecord)\n", "        return self._recordTypes.get(type)\n", expect_rule="registry/unknown-fallback"),
    Mutant("sshfp-fingerprint-type-not-compared", DNS, '    compareAttributes = ("algorithm", "fingerprintType", "fingerprint", "ttl")\n', '    compareAttributes = ("algorithm", "fingerprint", "ttl")\n',
           expect_rule="equality/decoded-fields-compared"),
    Mutant("second-unguarded-label-writer", DNS, "            strio.write(_ord2bytes(ind))\n            strio.write(label)\n        strio.write(b\"\\x00\")\n",
           "            strio.write(_ord2bytes(ind))\n            strio.write(label)\n        if self.name.endswith(b\".\"):\n            strio.write(_ord2bytes(len(self.name)))\n        strio.write(b\"\\x00\")\n",
           expect_rule="name/label-length-limit"),
    Mutant("payload-skipped-for-empty-rdata", DNS, "            header.payload = t(ttl=header.ttl)\n            try:\n                header.payload.decode(strio, header.rdlength)\n            except EOFError:\n                return\n            list.append(header)\n",
           "            if header.rdlength > 0:\n                header.payload = t(ttl=header.ttl)\n                try:\n                    header.payload.decode(strio, header.rdlength)\n                except EOFError:\n                    return\n            list.append(header)\n",
           expect_rule="registry/payload-always-built"),
    Mutant("empty-records-appended-undecoded", DNS, "            header.payload = t(ttl=header.ttl)\n            try:\n                header.payload.decode(strio, header.rdlength)\n",
           "            if header.rdlength == 0 and header.type != TXT:\n                list.append(header)\n                continue\n            header.payload = t(ttl=header.ttl)\n            try:\n                header.payload.decode(strio, header.rdlength)\n",
           expect_rule="registry/payload-always-built"),
    Mutant("txt-empty-strings-not-written", DNS, "        for d in self.data:\n            strio.write(struct.pack(\"!B\", len(d)) + d)\n", "        for d in self.data:\n            if d:\n                strio.write(struct.pack(\"!B\", len(d)) + d)\n",
           expect_rule="roundtrip/empty-and-boundary-items"),
    Mutant("txt-long-strings-chunked", DNS, "        for d in self.data:\n            strio.write(struct.pack(\"!B\", len(d)) + d)\n",
           "        for d in self.data:\n            pos = 0\n            while pos < len(d):\n                piece = d[pos : pos + 255]\n                strio.write(struct.pack(\"!B\", len(piece)) + piece)\n                pos += 255\n",
           expect_rule="roundtrip/empty-and-boundary-items"),
    Mutant("hinfo-empty-cpu-becomes-none", DNS, "        self.cpu = readPrecisely(strio, cpu)\n", "        self.cpu = readPrecisely(strio, cpu) if cpu else None\n", expect_rule="roundtrip/empty-and-boundary-items"),
    Mutant("pointer-hops-capped", DNS, "        visited = set()\n        self.name = b\"\"\n", "        hops = 0\n        self.name = b\"\"\n",
           more=[(DNS, "                if new_off in visited:\n                    raise ValueError(\"Compression loop in encoded name\")\n                visited.add(new_off)\n",
                  "                hops += 1\n                if hops > 16:\n                    raise ValueError(\"Compression loop in encoded name\")\n")],
           expect_rule="name/reader-accepts-writer"),
    Mutant("decoded-name-length-capped", DNS, "            label = readPrecisely(strio, l)\n            if self.name == b\"\":\n",
           "            label = readPrecisely(strio, l)\n            if len(self.name) + l > 128:\n                raise ValueError(\"name too long\")\n            if self.name == b\"\":\n",
           expect_rule="name/reader-accepts-writer"),
    Mutant("visited-also-records-current-position", DNS, "                visited.add(new_off)\n", "                visited.add(new_off)\n                visited.add(strio.tell())\n",
           expect_rule="name/reader-accepts-writer"),
    Mutant("forward-pointer-ends-name-quietly", DNS, "                if off == 0:\n                    off = strio.tell()\n                strio.seek(new_off)\n",
           "                if off == 0:\n                    off = strio.tell()\n                if new_off >= off:\n                    return\n                strio.seek(new_off)\n",
           expect_rule="name/reader-accepts-writer"),
    Mutant("pointer-marker", DNS, '                    strio.write(struct.pack("!H", 0xC000 | compDict[name]))\n', '                    strio.write(struct.pack("!H", 0x8000 | compDict[name]))\n', expect_rule="name/pointer-form"),
    Mutant("offset-without-header", DNS, "                    compDict[name] = strio.tell() + Message.headerSize\n", "                    compDict[name] = strio.tell()\n", expect_rule="name/pointer-form"),
]

SILENT = [
    Silent("query-decode-inline", DNS, "        buff = readPrecisely(strio, 4)\n        self.type, self.cls = struct.unpack(\"!HH\", buff)\n",
           "        self.type, self.cls = struct.unpack(\"!HH\", readPrecisely(strio, struct.calcsize(\"!HH\")))\n"),
    Silent("hinfo-encode-split-writes", DNS, '        strio.write(struct.pack("!B", len(self.cpu)) + self.cpu)\n', '        strio.write(struct.pack("!B", len(self.cpu)))\n        strio.write(self.cpu)\n'),
    Silent("truncation-flipped-comparison", DNS, "        if self.maxSize and size > self.maxSize:\n", "        if self.maxSize and not (size <= self.maxSize):\n"),
    Silent("f32-repaired", DNS, "            strio.write(_ord2bytes(ind))\n            strio.write(label)\n", "            if ind > 63:\n                raise ValueError(\"label too long\")\n            strio.write(_ord2bytes(ind))\n            strio.write(label)\n",
           more=[(DNS, "                if name in compDict:\n", "                if name in compDict and compDict[name] < 0x4000:\n")]),
    Silent("visited-as-list-renamed", DNS, "        visited = set()\n        self.name = b\"\"\n", "        seenOffsets = []\n        self.name = b\"\"\n",
           more=[(DNS, "                if new_off in visited:\n                    raise ValueError(\"Compression loop in encoded name\")\n                visited.add(new_off)\n",
                  "                if new_off in seenOffsets:\n                    raise ValueError(\"Compression loop in encoded name\")\n                seenOffsets.append(new_off)\n")]),
    Silent("wks-decode-one-unpack-guarded", DNS, "        self.address = readPrecisely(strio, 4)\n        self.protocol = struct.unpack(\"!B\", readPrecisely(strio, 1))[0]\n        self.map = readPrecisely(strio, length - 5)\n",
           "        if length < 5:\n            raise EOFError\n        r = struct.unpack(\"!4sB%ds\" % (length - 5,), readPrecisely(strio, length))\n        self.address, self.protocol, self.map = r\n",
           more=[(DNS, "        strio.write(self.address)\n        strio.write(struct.pack(\"!B\", self.protocol))\n        strio.write(self.map)\n",
                  "        strio.write(struct.pack(\"!4sB\", self.address, self.protocol))\n        strio.write(self.map)\n")]),
    Silent("parse-records-type-test-explicit", DNS, "            if not t:\n                continue\n            header.payload = t(ttl=header.ttl)\n", "            if t is None:\n                continue\n            header.payload = t(ttl=header.ttl)\n"),
    Silent("txt-encode-two-writes-per-string", DNS, "        for d in self.data:\n            strio.write(struct.pack(\"!B\", len(d)) + d)\n", "        for d in self.data:\n            strio.write(struct.pack(\"!B\", len(d)))\n            strio.write(d)\n"),
    Silent("header-flags-with-shifts-reordered", DNS, "            ((self.answer & 1) << 7)\n            | ((self.opCode & 0xF) << 3)\n", "            ((self.opCode & 0xF) << 3)\n            | ((self.answer & 1) << 7)\n"),
]
