"""C43 - IRC messages are split within the length limit; CTCP / low-level quoting round-trips."""
from __future__ import annotations

import ast
import re

from sa.astx import call_name, module_consts, src
from sa.domains import escaper_problems, replace_chain
from sa.effects import class_accesses
from sa.selftest import Mutant, Silent
from sa.source import AnalysisError, class_assigns, methods
from sa.props._lib_c import norm_class
from sa.props._lib_i import (sect, COMPAT, Abstain, BlockRaised, FollowModule, NotPure, Raised, bind_methods, domain_argument, kinded, structural, eval_block, interp, module_env, peval, words)

PROPERTY = "C43"
RULE_KINDS = {
    "quote/table": "structural", "quote/dequote-table-inverse": "structural", "dequote/regex": "structural",     # table agreement / constant pattern shape
    "send/single-wire-path": "structural", "queue/fifo": "structural", "send-defuse/": "structural", "send/wire-carries-whole-line": "bounded", "send/message-reaches-wire-whole": "bounded",
    "quote/escaper-rows": "finite-exhaustive", "quote/escaper-order": "finite-exhaustive",            # every table row / the concatenation of all rows
    "quote/output-alphabet": "finite-exhaustive", "dequote/undoes-quote": "finite-exhaustive",         # all 256 units + special-character words, premise checked
    "quote/output-alphabet (bounded)": "bounded", "dequote/undoes-quote (bounded)": "bounded",
    "send/quoted-before-wire": "bounded", "send/terminator": "bounded", "send/siblings-forward-length": "bounded", "split/": "bounded", "limit/": "bounded",
    "queue/drains-in-order": "bounded", "ctcp/frame-before-dequote": "structural", "ctcp/reader-regex-any-matches-all": "structural", "ctcp/extract-undoes-stringify": "bounded",
}
IRC = "words/protocols/irc.py"
TECHNIQUE = "table agreement, def-use, call-graph closure; exhaustive quoting units; bounded send grid"
EXPLANATION = (
    'STRUCTURAL: quote tables (escape + one distinct tail per row, forbidden characters have rows), de-quote tables are the'
    ' inverse, the de-quoting pattern is escape + one unit; on the normalised IRCClient every definition of the value hande'
    'd to LineReceiver.sendLine passes lowQuote (def-use) and no bounded slice is applied to a value carrying the line on that path; a compiled pattern the CTCP reader (de-quoters aside) applies to message text contains no any-character dot without DOTALL; only _reallySendLine or private helpers called from nothing else'
    ' write to the transport (call-graph closure); the rate-limit queue is filled at one end and drained from the other (op'
    'eration kinds). FINITE-EXHAUSTIVE (premise checked: quoters only apply .replace() rewrites, de-quoters decide on singl'
    'e units and constants): every table row, the concatenation of all rows, all 256 single units and every word <= 3 over '
    'the special characters round-trip and contain no forbidden character. BOUNDED only (message text and lengths are infin'
    "ite domains; the arithmetic is the splitter's): width + prefix + CR LF <= length on a grid, msg/notice forwarding, spl"
    'it() chunk widths and content, real messages x lengths through _sendMessage -> split -> _reallySendLine (plain text wi'
    'thin budget; characters that quoting / UTF-8 expand exceed it: known finding F43), three queued lines leave in order, '
    'wire form of sample lines incl. lines of 400-700 characters, long multi-octet messages decoded back from the wire, CTCP (tag, data) round trip with data over every character the quoting tables name (<= 2) and multi-line samples. Not decided: textwrap internals, server-side IRC.sendLine.'
)
ASSUMPTIONS = [
    "textwrap.wrap(text, width) returns chunks of at most width characters that together contain all non-whitespace characters in order (stdlib)",
    "re.sub semantics of the stdlib; the repo's pattern string is evaluated, not the repo's code",
]


def _module_loops(mod, target_name):
    """Module-level ``for`` loops that store into ``target_name[...]``."""
    out = []
    for st in mod.tree.body:
        if isinstance(st, ast.For):
            for x in ast.walk(st):
                if isinstance(x, ast.Assign) and any(isinstance(t, ast.Subscript) and isinstance(t.value, ast.Name) and t.value.id == target_name for t in x.targets):
                    out.append(st)
                    break
    return out


def _check_quoting(ctx, env, cenv, label, qname, dqname, esc_name, table_name, dtable_name, forbidden_names):
    mod = ctx.mod(IRC)
    base = "twisted.words.protocols.irc."
    esc = ctx.need(env.get(esc_name), f"module constant {esc_name}")
    table = ctx.need(env.get(table_name), f"module constant {table_name}")
    forbidden = {env[n] for n in forbidden_names}
    # -- table rows
    tails = {}
    for k, v in table.items():
        ok = isinstance(v, str) and len(v) == 2 and v[0] == esc and len(k) == 1
        ctx.check(ok, "quote/table", f"{base}{table_name} | row {k!r}", f"row {k!r} -> {v!r} is not escape-unit {esc!r} followed by exactly one character")
        if ok:
            ctx.check(v[1] not in tails, "quote/table", f"{base}{table_name} | tail of row {k!r}",
                      f"rows {tails.get(v[1])!r} and {k!r} share the tail {v[1]!r}: the de-quoter cannot tell them apart")
            tails.setdefault(v[1], k)
            ctx.check(v[1] not in forbidden, "quote/table", f"{base}{table_name} | output of row {k!r}", f"the replacement {v!r} itself contains a forbidden character")
    ctx.check(esc in table, "quote/table", f"{base}{table_name} | escape unit row",
              f"the escape unit {esc!r} has no row: a literal {esc!r} in the text is read back as the start of an escape")
    for fch in sorted(forbidden):
        ctx.check(fch in table, "quote/table", f"{base}{table_name} | forbidden character {fch!r}",
                  f"{fch!r} has no row and reaches the wire raw" + (" (a raw CR / LF ends the IRC line early)" if fch in "\r\n" else ""))
    # -- de-quote table derived as the inverse
    loops = _module_loops(mod, dtable_name)
    e2 = dict(env)
    if loops:                      # filled by a module-level loop: evaluate it; otherwise the module-level expression was evaluated already
        e2[dtable_name] = {}
        for lp in loops:
            eval_block([lp], e2)
    dtable = e2.get(dtable_name)
    ctx.need(isinstance(dtable, dict), f"module-level table {dtable_name}")
    want = {v[-1]: k for k, v in table.items()}
    ctx.check(dtable == want, "quote/dequote-table-inverse", f"{base}{dtable_name}",
              f"the de-quote table evaluates to {dtable!r}; the inverse of {table_name} is {want!r}")
    env = dict(env)
    env[dtable_name] = dtable
    # -- quoter as an ordered rewrite system
    fq = ctx.func(IRC, qname)
    quote = interp(fq, FollowModule(mod, dict(COMPAT), env), env)
    for k, v in table.items():
        try:
            got = quote(k)
        except (Raised, BlockRaised) as ex:
            got = f"<raises {ex}>"
        ctx.check(got == v, "quote/escaper-rows", f"{base}{qname} | applies row {k!r}",
                  f"{qname}({k!r}) gives {got!r}, the table row says {v!r}" + (": the character reaches the wire raw" if got == k else ": a later step re-escapes the output of an earlier one"))
    try:
        pairs = replace_chain(fq, cenv)
    except AnalysisError as ex:
        pairs = []
        ctx.note(f"{qname}: not a plain replace chain ({ex}); the rewrite order is decided by evaluation only")
    if pairs:
        probs = escaper_problems(pairs, esc)
        ctx.check(not probs, "quote/escaper-order", base + qname, "; ".join(probs))
    else:
        # order decided semantically: quoting a text made of every key must be the concatenation of the rows
        text = "".join(table)
        try:
            got = quote(text)
        except (Raised, BlockRaised) as ex:
            got = f"<raises {ex}>"
        ctx.check(got == "".join(table[c] for c in text), "quote/escaper-order", base + qname,
                  f"{qname}({text!r}) gives {got!r} instead of {''.join(table[c] for c in text)!r}: the escape unit introduced by one rewrite is escaped again by a later one")
    # -- de-quoter: evaluated as a whole (its regex, if any, is a stdlib object built from the module's constant pattern)
    fd = ctx.func(IRC, dqname)
    dequote = interp(fd, FollowModule(mod, dict(COMPAT), env), env)
    for rx_name, rx in sorted((k, v) for k, v in env.items() if isinstance(v, re.Pattern) and any(isinstance(n, ast.Name) and n.id == k for n in ast.walk(fd))):
        shape_ok = all((m := rx.match(esc + t + "Z")) is not None and m.end() == 2 for t in list(want) + [esc, "a"]) and rx.match("a" + esc) is None and rx.fullmatch(esc) is None
        ctx.check(shape_ok, "dequote/regex", f"{base}{rx_name}", f"pattern {rx.pattern!r} does not match exactly the escape unit followed by one character")
    # premise of exhaustiveness: the quoter only applies .replace() rewrites (character-wise), the de-quoter decides on the unit and its
    # predecessor through constants only; then every single unit 0..255 plus every word <= 3 over the special characters is a complete domain
    def followed(f0):
        out, work = [f0], [f0]
        while work:
            for c in ast.walk(work.pop()):
                if isinstance(c, ast.Call) and isinstance(c.func, ast.Name):
                    h = next((st for st in mod.tree.body if isinstance(st, ast.FunctionDef) and st.name == c.func.id), None)
                    if h is not None and h not in out:
                        out.append(h)
                        work.append(h)
        return out
    qfuncs, dfuncs = followed(fq), followed(fd)
    text_methods = {c.func.attr for f_ in qfuncs for c in ast.walk(f_) if isinstance(c, ast.Call) and isinstance(c.func, ast.Attribute)}
    ex_q = text_methods <= {"replace", "items", "get", "join"}
    helper_names = {h.name for h in mod.tree.body if isinstance(h, ast.FunctionDef)} | {"reduce"}
    ex_d = all(domain_argument([f_] + [n_ for n_ in ast.walk(f_) if isinstance(n_, ast.FunctionDef) and n_ is not f_],
                               inputs={a.arg for a in f_.args.args} | {a.arg for n_ in ast.walk(f_) if isinstance(n_, ast.FunctionDef) for a in n_.args.args},
                               state={t.id for st in ast.walk(f_) if isinstance(st, (ast.Assign, ast.AugAssign)) for t in (st.targets if isinstance(st, ast.Assign) else [st.target]) if isinstance(t, ast.Name)},
                               helpers=helper_names)[0] for f_ in dfuncs)
    exhaustive = ex_q and ex_d
    why_dom = ("quoter = character-wise .replace() rewrites, de-quoter decides on single units and constants: all 256 single units and all words <= 3 over the special characters are a complete domain"
               if exhaustive else "premise of exhaustiveness not established on this shape: bounded evidence")
    if not exhaustive:
        ctx.note(f"{qname}/{dqname}: {why_dom}")
    alphabet = sorted(set(table) | set(want) | {"a", "\x01", "\\", "\x10", "\x00", "\r", "\n"})
    bad_rt = bad_out = None
    n = 0
    singles = [(chr(cp),) for cp in range(256)] + [("\u00e9",), ("\u20ac",)]
    for w in list(words(alphabet, 3)) + singles:
        text = "".join(w)
        try:
            qd = quote(text)
            back = dequote(qd)
        except (Raised, BlockRaised) as ex:
            raise AnalysisError(f"C43: evaluation of {qname}/{dqname} raises on {text!r}: {ex}")
        n += 1
        if back != text and bad_rt is None:
            bad_rt = (text, qd, back)
        if any(c in qd for c in forbidden) and bad_out is None:
            bad_out = (text, qd)
    ctx.check(bad_rt is None, kinded("dequote/undoes-quote", exhaustive), f"{base}{dqname} ~ {qname} | round trip",
              bad_rt and f"{qname}({bad_rt[0]!r}) = {bad_rt[1]!r} is read back by {dqname} as {bad_rt[2]!r}", detail=f"{n} texts: all 256 single units + words <= 3 over {len(alphabet)} special characters; " + why_dom)
    ctx.check(bad_out is None, kinded("quote/output-alphabet", exhaustive), f"{base}{qname} | forbidden characters removed",
              bad_out and f"{qname}({bad_out[0]!r}) = {bad_out[1]!r} still contains a character that must not appear on the wire")
    return [(k, v) for k, v in table.items()]


def _check_send_path(ctx, env, low_pairs):
    mod = ctx.mod(IRC)
    cls = ctx.cls(IRC, "IRCClient")
    ms = methods(cls)
    base = "twisted.words.protocols.irc.IRCClient."
    # -- only _reallySendLine (or a private helper called from nothing else) writes to the wire
    callers = {}
    for name, m in ms.items():
        for c in ast.walk(m):
            if isinstance(c, ast.Call) and (call_name(c) or "").startswith("self.") and (call_name(c) or "").count(".") == 1:
                callers.setdefault(call_name(c)[5:], set()).add(name)

    def wire_writer(name, seen=()):
        if name == "_reallySendLine":
            return True
        cs = callers.get(name, set())
        return name.startswith("_") and bool(cs) and name not in seen and all(wire_writer(c, seen + (name,)) for c in cs)
    n = 0
    for name, m in ms.items():
        for c in ast.walk(m):
            if isinstance(c, ast.Call) and ((call_name(c) or "").endswith("LineReceiver.sendLine") or call_name(c) in ("self.transport.write", "self.transport.writeSequence")):
                n += 1
                ctx.check(wire_writer(name), "send/single-wire-path", ctx.construct(base + name, c),
                          "a second place writes protocol lines to the transport, bypassing low-level quoting and the CR LF terminator")
    ctx.floor("send/single-wire-path", n, 1)
    # -- structural: on the normalised _reallySendLine every occurrence of the line that flows into the wire call lies inside lowQuote(...)
    with structural(ctx, "send-defuse/quoted-before-wire", "send/quoted-before-wire (bounded)"):
        ncls = norm_class(ctx, IRC, "IRCClient", keep=("_reallySendLine", "sendLine", "_sendLine", "_sendMessage", "msg", "notice"))
        nf = next((m for m in ast.walk(ncls) if isinstance(m, ast.FunctionDef) and m.name == "_reallySendLine"), None)
        if nf is None:
            raise Abstain("_reallySendLine not found in the normalised class")
        lp = nf.args.args[1].arg
        sinks = [c for c in ast.walk(nf) if isinstance(c, ast.Call) and ((call_name(c) or "").endswith("LineReceiver.sendLine") or call_name(c) in ("self.transport.write",))]
        if not sinks:
            raise Abstain("no wire call in the normalised _reallySendLine")
        defs = {}
        for st in ast.walk(nf):
            if isinstance(st, (ast.Assign, ast.AugAssign)):
                for t in (st.targets if isinstance(st, ast.Assign) else [st.target]):
                    if isinstance(t, ast.Name):
                        defs.setdefault(t.id, []).append(st.value)

        def flows(e, seen=()):
            if isinstance(e, ast.Call) and call_name(e) == "lowQuote":
                return {"quoted"} if any("raw" in flows(a, seen) or "quoted" in flows(a, seen) for a in e.args) else set()
            if isinstance(e, ast.Name):
                if e.id == lp:
                    return {"raw"}
                if e.id in seen:
                    return set()
                if e.id in defs:
                    out = set()
                    for v in defs[e.id]:
                        out |= flows(v, seen + (e.id,))
                    return out
                return set()
            if isinstance(e, ast.Call) and (call_name(e) or "").startswith("self._"):
                raise Abstain(f"private helper {call_name(e)} not inlined")
            out = set()
            for ch in ast.iter_child_nodes(e):
                out |= flows(ch, seen)
            return out
        for c in sinks:
            fl = flows(c.args[-1]) if c.args else set()
            if not fl:
                raise Abstain("the written value does not derive from the line parameter in a recognisable way")
            ctx.check("raw" not in fl, "send-defuse/quoted-before-wire", ctx.construct(base + "_reallySendLine", c),
                      "the line parameter reaches the wire call by a definition that does not pass through lowQuote(...): a CR, LF or NUL in a message goes out raw")
        # content-losing operations on the sink path: a slice / index applied to a value that carries the line cuts octets off what goes to the wire
        def on_path(e, seen):
            out = [e]
            for x in ast.walk(e):
                if isinstance(x, ast.Name) and x.id in defs and x.id not in seen:
                    seen.add(x.id)
                    for v in defs[x.id]:
                        out += on_path(v, seen)
            return out
        for c in sinks:
            cuts = [x for root in on_path(c.args[-1], set()) for x in ast.walk(root) if isinstance(x, ast.Subscript) and isinstance(x.slice, ast.Slice) and flows(x.value)]
            for x in cuts:
                whole = x.slice.lower is None and x.slice.upper is None and x.slice.step is None
                ctx.check(whole, "send-defuse/nothing-cut-on-the-way-to-the-wire", ctx.construct(base + "_reallySendLine", x),
                          f"the value written to the transport is taken from {src(x)}: part of the (quoted, encoded) line is cut off on its way to the wire - message text is "
                          "silently lost, possibly in the middle of a UTF-8 sequence; keeping lines within the limit is the splitter's job, before this point")
            if not cuts:
                ctx.ok("send-defuse/nothing-cut-on-the-way-to-the-wire", ctx.construct(base + "_reallySendLine", c))
    # -- _reallySendLine evaluated (with the private helpers it calls): the wire carries lowQuote(line), UTF-8 encoded, then CR LF
    f = ctx.func(IRC, "IRCClient._reallySendLine")
    q = base + "_reallySendLine"
    line = f.args.args[1].arg
    delim = class_assigns(cls).get("delimiter")
    ctx.need(delim is not None, "IRCClient.delimiter")
    dval = peval(delim, env)
    follow = FollowModule(mod, dict(COMPAT), env)
    real_quote = interp(ctx.func(IRC, "lowQuote"), follow, env)

    def method_env(skip, **extra):
        e = dict(env)
        e.update({"self": object()})
        e.update(extra)
        bind_methods(e, [cls], follow, skip=set(skip))
        return e

    def send_one(sample, f=f, line=line, q=q):
        sent = []
        e = method_env({f.name}, **{line: sample})
        fl = FollowModule(mod, dict(COMPAT), env)
        fl["basic.LineReceiver.sendLine"] = lambda slf, data: sent.append(data)
        fl["LineReceiver.sendLine"] = fl["basic.LineReceiver.sendLine"]
        try:
            r = eval_block(f.body, e, funcs=fl)
        except BlockRaised as ex:
            raise AnalysisError(f"{q}: not evaluable for {sample!r}: {ex}")
        if r.raised:
            raise AnalysisError(f"{q}: raises {r.raised}")
        return b"".join(bytes(x) + dval for x in sent)
    for sample in ("abc", "a\rb\nc\x00d\x10e", "\u00e9\r", "PRIVMSG u :x y"):
        wire = send_one(sample)
        quoted = real_quote(sample)
        want = (quoted.encode("utf-8") if isinstance(quoted, str) else quoted) + b"\r\n"
        body = wire[:-2]
        ctx.check(not (b"\r" in body or b"\n" in body or b"\x00" in body) and wire[-2:] == b"\r\n" and wire == want, "send/quoted-before-wire" if wire[-2:] == b"\r\n" else "send/terminator",
                  f"{q} | {type(sample).__name__} line {'with control characters' if any(c in (sample if isinstance(sample, str) else sample.decode('latin-1')) for c in chr(13) + chr(10) + chr(0) + chr(16)) else 'plain'}",
                  f"the line {sample!r} goes out as {wire!r}; required {want!r}: low-level quoted (a CR, LF or NUL in a message must not reach the wire raw, it would split the "
                  "IRC line), UTF-8 encoded, terminated by exactly CR LF (the limit accounts for two octets)")

    # long lines (longer than any protocol limit, multi-octet characters): the wire payload, decoded, is the line - nothing is cut at this point
    for sample in ("\u00e9" * 400, "x" * 700, ("\u20ac\x10" * 150) + " tail"):
        wire = send_one(sample)
        quoted = real_quote(sample)
        want = (quoted.encode("utf-8") if isinstance(quoted, str) else quoted) + b"\r\n"
        try:
            back = wire[:-2].decode("utf-8")
        except UnicodeDecodeError as ex:
            back = f"<not UTF-8: {ex.reason} at octet {ex.start}>"
        ctx.check(wire == want, "send/wire-carries-whole-line", f"{q} | line of {len(sample)} characters, {len(want)} octets on the wire",
                  f"a line of {len(sample)} characters ({sample[:6]!r}...) is written as {len(wire)} octets; its quoted UTF-8 form has {len(want)}: "
                  + (f"the payload decodes to {len(back)} characters - the tail of the text is lost" if not back.startswith("<") else f"the payload is cut inside a character {back}")
                  + " (whatever the splitter hands over must reach the peer; length is the splitter's concern)")

    # -- _sendMessage budget arithmetic
    f = ctx.func(IRC, "IRCClient._sendMessage")
    q = base + "_sendMessage"
    params = [a.arg for a in f.args.args]
    ctx.need(len(params) == 5, f"{q}(self, msgType, user, message, length)")
    _, p_type, p_user, p_msg, p_len = params
    bad = bad_send = None
    cases = 0
    LONG = "hello world " * 20
    for mt in ("PRIVMSG", "NOTICE"):
        for user in ("u", "#chan"):
            prefix = f"{mt} {user} :"
            for length in range(0, len(prefix) + 12):
                seen = []

                def fake_split(text, width, _seen=seen):
                    _seen.append((text, width))
                    return ["L1", "L2"]
                fn = FollowModule(mod, dict(COMPAT), env)
                fn["split"] = fake_split
                try:
                    r = eval_block(f.body, method_env({f.name, "sendLine"}, **{p_type: mt, p_user: user, p_msg: LONG, p_len: length}), funcs=fn,
                                   record={"self.sendLine"})
                except BlockRaised as ex:
                    if isinstance(ex.exc, RuntimeError) and str(ex.exc).startswith("raise "):       # raised by a private helper the method calls
                        cases += 1
                        if seen and bad is None:
                            bad = (mt, user, length, "raises after splitting")
                        continue
                    raise AnalysisError(f"{q}: not evaluable: {ex}")
                cases += 1
                if r.raised:
                    if seen and bad is None:
                        bad = (mt, user, length, "raises after splitting")
                    continue
                if not seen:
                    continue        # a path that does not go through split(): judged by the evaluation on real messages below
                if len(seen) != 1 or seen[0][0] != LONG:
                    raise AnalysisError(f"{q}: split() not called exactly once with the message")
                width = seen[0][1]
                if width + len(prefix) + 2 > length and bad is None:
                    bad = (mt, user, length, f"split width {width}")
                sent = [a[0] for _, a in r.calls]
                if sent != [prefix + "L1", prefix + "L2"] and bad_send is None:
                    bad_send = (mt, user, length, sent)
    ctx.check(bad is None, "split/budget", q + " | width + prefix + CR LF <= length",
              bad and f"for '{bad[0]} {bad[1]} :' and length={bad[2]}: {bad[3]}, but prefix ({len(bad[0]) + len(bad[1]) + 3}) + width + 2 terminator octets exceeds the limit",
              detail=f"{cases} (command, target, length) cases evaluated")
    ctx.check(bad_send is None, "split/every-chunk-sent", q + " | one line per chunk, in order",
              bad_send and f"chunks ['L1', 'L2'] for '{bad_send[0]} {bad_send[1]} :' are sent as {bad_send[3]!r}")
    # split(message, ...) receives the caller's text
    # -- msg / notice forward target, text and length (evaluated with a recording _sendMessage)
    sm_params = params[1:]
    for name, cmd in (("msg", "PRIVMSG"), ("notice", "NOTICE")):
        m = ctx.func(IRC, "IRCClient." + name)
        mp = [a.arg for a in m.args.args][1:]
        got_calls = []
        e = method_env({name, "_sendMessage"}, **dict(zip(mp, ("#chan", "some text", 77))))
        e["self._sendMessage"] = lambda *a, **kw: got_calls.append({**dict(zip(sm_params, a)), **kw})
        try:
            eval_block(m.body, e, funcs=follow)
        except BlockRaised as ex:
            raise AnalysisError(f"{base}{name}: not evaluable: {ex}")
        want = dict(zip(sm_params, (cmd, "#chan", "some text", 77)))
        ctx.check(got_calls == [want], "send/siblings-forward-length", base + name,
                  f"{name}('#chan', 'some text', 77) hands _sendMessage {got_calls!r}; required {want!r}: the caller's target, text and length limit must be forwarded (a dropped "
                  "length silently falls back to the 512-octet default)")
    # -- split(): wrap arguments
    f = ctx.func(IRC, "split")
    q = "twisted.words.protocols.irc.split"
    mod = ctx.mod(IRC)
    split_fn = interp(f, FollowModule(mod, dict(COMPAT), env), env)        # textwrap (wrap / TextWrapper and its options) is delegated to CPython
    WSP = "\t\n\x0b\x0c\r "
    bad_w = bad_c = None
    n_split = 0
    for text in ("hello world", "x" * 30, "ab cd ef gh ij kl", "a" * 9 + " " + "b" * 12, "one\ntwo three\n\nfour", "tab\tsep arated", "a\rb c\x0bd e\x0cf", "  lead and trail  ", ""):
        for width in (1, 2, 3, 5, 10, 40):
            try:
                chunks = split_fn(text, width)
            except (Raised, BlockRaised) as ex:
                raise AnalysisError(f"{q}({text!r}, {width}) not evaluable: {ex}")
            n_split += 1
            if any(len(c) > width for c in chunks) and bad_w is None:
                bad_w = (text, width, chunks)
            if "".join(c for c in "".join(chunks) if c not in WSP) != "".join(c for c in text if c not in WSP) and bad_c is None:
                bad_c = (text, width, chunks)
    ctx.check(bad_w is None, "split/wrap-arguments", q + " | every chunk within the width",
              bad_w and f"split({bad_w[0]!r}, {bad_w[1]}) returns {bad_w[2]!r}: a chunk is longer than the requested width (words longer than the width must be broken)",
              detail=f"{n_split} (text, width) cases")
    ctx.check(bad_c is None, "split/wrap-arguments", q + " | nothing but white space dropped",
              bad_c and f"split({bad_c[0]!r}, {bad_c[1]}) returns {bad_c[2]!r}: non-whitespace content is lost or reordered")
    # -- real messages through _sendMessage -> split -> _reallySendLine (repository functions interpreted, textwrap / str methods delegated to CPython)
    f = ctx.func(IRC, "IRCClient._sendMessage")
    q = base + "_sendMessage"
    real = FollowModule(mod, dict(COMPAT), env)       # lowQuote, split and any other module-level helper are interpreted on demand

    def wire_of(text):
        return send_one(text)

    WS = "\t\n\x0b\x0c\r "
    plain = ["hello world", "a\rb", "a\nb", "a\r\nb", "\r", "\n", "\r\n", "ab cd ef gh ij", "x" * 30, "", " ", "a  b", "tab\tsep", "trailing\r", "\rleading", "a\rb\rc\rd",
             "one\ntwo three\n\nfour", "ab\rcd", "abc\x0bdef ghi", "a\x0cb", "ab\tcd", "\x0b", "x\ry\rz w", "abcd\refgh", "ab\x0b\x0ccd ef\rgh"]
    expanding = ["a\x10b\x10c", "\x10" * 8, "\x00" * 4, "\u00e9" * 6, "\u20ac \u20ac\u20ac", "x\u00e9 y\x10"]
    prefix = "PRIVMSG u :"
    over_plain = over_exp = lost = None
    n = 0
    for group, texts in (("plain", plain), ("expanding", expanding)):
        for text in texts:
            for k in (1, 2, 3, 4, 5, 8, 13, 40):
                length = len(prefix) + 2 + k
                try:
                    r = eval_block(f.body, method_env({f.name, "sendLine"}, **{p_type: "PRIVMSG", p_user: "u", p_msg: text, p_len: length}), funcs=real, record={"self.sendLine"})
                except BlockRaised as ex:
                    raise AnalysisError(f"{q}: not evaluable for message {text!r}: {ex}")
                if r.raised:
                    raise AnalysisError(f"{q}: raises for message {text!r}, length {length}: {r.raised}")
                n += 1
                lines = [a[0] for _, a in r.calls]
                parts = [ln[len(prefix):] if isinstance(ln, str) and ln.startswith(prefix) else None for ln in lines]
                if None in parts:
                    lost = lost or (text, length, lines, "a line does not start with the command prefix")
                    continue
                if "".join(c for c in "".join(parts) if c not in WS) != "".join(c for c in text if c not in WS):
                    lost = lost or (text, length, lines, "the non-whitespace characters of the message parts differ from the message's")
                for ln in lines:
                    w = wire_of(ln)
                    if len(w) > length or b"\r" in w[:-2] or b"\n" in w[:-2]:
                        if group == "plain":
                            over_plain = over_plain or (text, length, w)
                        else:
                            over_exp = over_exp or (text, length, w)
    # -- end to end: a long message through _sendMessage, the real sendLine (no rate limit) and _reallySendLine; what the peer can decode from the wire is the message
    denv = dict(env)
    for lp_ in _module_loops(mod, "mDequoteTable"):
        denv.setdefault("mDequoteTable", {})
        eval_block([lp_], denv)
    real_dequote = interp(ctx.func(IRC, "lowDequote"), FollowModule(mod, dict(COMPAT), denv), denv)
    for text in ("\u00e9" * 400 + " and " + "caf\u00e9 " * 120, "word " * 300, "x" * 1200):
        sent = []
        fl = FollowModule(mod, dict(COMPAT), env)
        fl["basic.LineReceiver.sendLine"] = lambda slf, data, _s=sent: _s.append(data)
        fl["LineReceiver.sendLine"] = fl["basic.LineReceiver.sendLine"]
        e = dict(env)
        e.update({"self": object(), "self.lineRate": None, "self._queue": [], "self._queueEmptying": None, p_type: "PRIVMSG", p_user: "u", p_msg: text, p_len: 512})
        bind_methods(e, [cls], fl, skip={f.name})
        try:
            r = eval_block(f.body, e, funcs=fl)
        except BlockRaised as ex:
            raise AnalysisError(f"{q}: not evaluable end to end for a message of {len(text)} characters: {ex}")
        if r.raised:
            raise AnalysisError(f"{q}: raises for a message of {len(text)} characters: {r.raised}")
        problem = None
        got_parts = []
        for w in sent:
            w = bytes(w)
            try:
                ln = real_dequote((w[:-1] if w.endswith(b"\r") else w).decode("utf-8"))
            except UnicodeDecodeError as ex:
                problem = problem or f"a wire line of {len(w)} octets is not UTF-8 ({ex.reason} at octet {ex.start}): a character was cut in two"
                continue
            except (Raised, BlockRaised) as ex:
                raise AnalysisError(f"lowDequote not evaluable on a wire line: {ex}")
            if not ln.startswith(prefix):
                problem = problem or f"a wire line does not start with {prefix!r}"
                continue
            got_parts.append(ln[len(prefix):])
        have, want_chars = "".join(c for c in "".join(got_parts) if c not in WS), "".join(c for c in text if c not in WS)
        if problem is None and have != want_chars:
            problem = f"the lines on the wire carry {len(have)} of the message's {len(want_chars)} non-blank characters"
        ctx.check(problem is None, "send/message-reaches-wire-whole", q + f" | message of {len(text)} characters, default-sized lines",
                  f"msg('u', <{len(text)} characters, {text[:8]!r}...>, length=512) puts {len(sent)} lines on the wire; {problem}: text must never be lost or cut inside a character "
                  "between the splitter and the transport")
    ctx.check(lost is None, "split/content-preserved", q + " | message parts carry the message",
              lost and f"msg('u', {lost[0]!r}, length={lost[1]}) sends {lost[2]!r}: {lost[3]}", detail=f"{n} (message, length) cases")
    ctx.check(over_plain is None, "limit/plain-text-within-budget", q + " | <ASCII text without characters that quoting expands>",
              over_plain and f"msg('u', {over_plain[0]!r}, length={over_plain[1]}) writes {over_plain[2]!r}: {len(over_plain[2])} octets including CR LF (or a raw line break inside the "
              "line); every line must fit the limit - CR / LF in the message are break points or white space for the splitter, they must not reach the quoting step")
    ctx.check(over_exp is None, "limit/unit-agreement", q + " | <split width in characters, limit in octets>",
              over_exp and f"msg('u', {over_exp[0]!r}, length={over_exp[1]}) writes {over_exp[2]!r}: {len(over_exp[2])} octets including CR LF. Chunks are measured in characters of the "
              "raw text, but the limit is in octets of the line on the wire: after the split the line is low-quoted (a quoted character doubles) and UTF-8 encoded "
              "(1 character -> up to 4 octets)")


def _check_ctcp_framing(ctx, env):
    """ctcpStringify / ctcpExtract: the X_DELIM framing is parsed on the still-quoted text, so quoted delimiters inside the data survive."""
    mod = ctx.mod(IRC)
    base = "twisted.words.protocols.irc."
    fx = ctx.func(IRC, "ctcpExtract")
    # structural: the text that is split on X_DELIM does not derive from a de-quoting call (de-quoting comes after framing, piece by piece)
    with structural(ctx, "ctcp/frame-before-dequote", "ctcp/extract-undoes-stringify (bounded)"):
        splits = [c for c in ast.walk(fx) if isinstance(c, ast.Call) and isinstance(c.func, ast.Attribute) and c.func.attr == "split" and c.args and src(c.args[0]) == "X_DELIM"]
        if not splits:
            raise Abstain("no <text>.split(X_DELIM) in ctcpExtract")
        defs = {}
        for st in ast.walk(fx):
            if isinstance(st, ast.Assign):
                for t in st.targets:
                    if isinstance(t, ast.Name):
                        defs.setdefault(t.id, []).append(st.value)

        def dequoted(e, seen=()):
            if isinstance(e, ast.Call) and (call_name(e) or "").lower().endswith("dequote"):
                return True
            if isinstance(e, ast.Name) and e.id in defs and e.id not in seen:
                return any(dequoted(v, seen + (e.id,)) for v in defs[e.id])
            return any(dequoted(ch, seen) for ch in ast.iter_child_nodes(e))
        for c in splits:
            ctx.check(not dequoted(c.func.value), "ctcp/frame-before-dequote", ctx.construct(base + "ctcpExtract", c),
                      "the message is de-quoted before it is split on X_DELIM: a quoted delimiter inside CTCP data becomes a raw delimiter again and cuts the data")
    env = dict(env)
    for dt in ("mDequoteTable", "xDequoteTable"):          # module-level loops that fill the de-quote tables
        loops = _module_loops(mod, dt)
        if loops:
            env[dt] = {}
            for lp in loops:
                eval_block([lp], env)
    follow = FollowModule(mod, dict(COMPAT), env)
    extract = interp(fx, follow, env)
    stringify = interp(ctx.func(IRC, "ctcpStringify"), follow, env)
    delim, xq = env["X_DELIM"], env["X_QUOTE"]
    bad = None
    n = 0
    # data alphabet: every character either quoting table names (keys and tails), the framing characters, SPC and a plain letter; all words <= 2 over it,
    # <= 3 over the framing core, and a few longer texts with line breaks in the middle
    named = set(delim + xq + " a\x10\x00\r\n")
    for tn in ("mQuoteTable", "xQuoteTable"):
        for k_, v_ in (env.get(tn) or {}).items():
            if isinstance(k_, str) and isinstance(v_, str):
                named |= set(k_) | set(v_)
    grid = {"".join(w) for w in words(tuple(sorted(named)), 2)} | {"".join(w) for w in words((delim, xq, "a", " ", "\x10"), 3)}
    grid |= {"first line\nsecond line", "a\r\nb c", "x\x00y z", "two  spaces", " lead", "trail ", "a\nb\nc"}
    for data in sorted(grid):
        for msgs in ([("TAG", data)], [("PING", "1"), ("X" + data.replace(" ", ""), data)]):
            try:
                wire = stringify(msgs)
                got = extract("pre" + wire)
            except (Raised, BlockRaised) as ex:
                raise AnalysisError(f"ctcpStringify / ctcpExtract not evaluable on {msgs!r}: {ex}")
            n += 1
            want_ext = []
            for tag, d in msgs:
                text = f"{tag} {d}" if d else str(tag)
                t_, _, d_ = text.partition(" ")
                want_ext.append((t_, d_ if " " in text else None))
            if (got.get("extended"), got.get("normal")) != (want_ext, ["pre"]) and bad is None:
                bad = (msgs, wire, got)
    ctx.check(bad is None, "ctcp/extract-undoes-stringify", base + "ctcpExtract ~ ctcpStringify",
              bad and f"ctcpStringify({bad[0]!r}) = {bad[1]!r} is read back by ctcpExtract as {bad[2]!r}: every (tag, data) pair must come back, and nothing else",
              detail=f"{n} messages, data over the {len(named)} characters named by the quoting tables / framing ^<=2, {{X_DELIM, X_QUOTE, 'a', ' ', M_QUOTE}}^<=3, multi-line samples")
    # structural twin: a compiled pattern the reader applies to message text must let '.' match every character (line breaks are data here)
    with structural(ctx, "ctcp/reader-regex-any-matches-all", "ctcp/extract-undoes-stringify, dequote/undoes-quote"):
        import re._parser as sre_parser
        readers = [fx]
        work = [fx]
        while work:
            for c in ast.walk(work.pop()):
                if isinstance(c, ast.Call) and isinstance(c.func, ast.Name):
                    h = next((st for st in mod.tree.body if isinstance(st, ast.FunctionDef) and st.name == c.func.id), None)
                    # the de-quoters have their own pattern rule (dequote/regex) and an exhaustive round trip; their '.' only ever follows the escape unit
                    if h is not None and h not in readers and not h.name.lower().endswith("dequote"):
                        readers.append(h)
                        work.append(h)
        used = sorted({nm.id for f_ in readers for nm in ast.walk(f_) if isinstance(nm, ast.Name) and isinstance(env.get(nm.id), re.Pattern)})

        def has_any(node):
            if isinstance(node, sre_parser.SubPattern):
                return any(has_any(i) for i in node.data)
            if isinstance(node, (list, tuple)):
                return (len(node) == 2 and str(node[0]) == "ANY") or any(has_any(x) for x in node)
            return False
        for nm in used:
            rx = env[nm]
            try:
                tree = sre_parser.parse(rx.pattern, rx.flags)
            except Exception as ex:     # noqa: BLE001
                raise Abstain(f"pattern {nm} not parseable ({ex})")
            dot = has_any(tree)
            ctx.check(not dot or bool(rx.flags & re.DOTALL), "ctcp/reader-regex-any-matches-all", f"{base}{nm}",
                      f"the pattern {rx.pattern!r} is applied to message text by the CTCP reader and contains '.', but is compiled without re.DOTALL: '.' stops at a line feed, "
                      "so data after an embedded LF is dropped or left unconverted (LF is ordinary data once low-level quoting is undone)")


def _check_queue(ctx, env):
    """The rate-limit queue of IRCClient: lines leave in the order they were queued."""
    mod = ctx.mod(IRC)
    cls = ctx.cls(IRC, "IRCClient")
    base = "twisted.words.protocols.irc.IRCClient."
    # K5: produced at one end, consumed from the other (classified by operation kind)
    acc = class_accesses(mod, cls, {"_queue"}, receivers={"self"})
    tail_in = [a for a in acc if a.kind in ("append", "extend")]
    head_in = [a for a in acc if a.kind in ("appendleft", "insert0", "extendleft")]
    head_out = [a for a in acc if a.kind == "pop_first"]
    tail_out = [a for a in acc if a.kind == "pop_last"]
    odd = [a for a in acc if a.kind in ("insert", "pop_key", "sort", "reverse", "remove")]
    ctx.floor("queue/fifo", len(tail_in) + len(head_in), 1)
    for a in head_out + tail_out:
        lifo = (a.kind == "pop_last" and tail_in) or (a.kind == "pop_first" and head_in)
        ctx.check(not lifo, "queue/fifo", ctx.construct("twisted.words.protocols.irc." + a.func, a.node),
                  "the rate-limit queue is consumed at the end it is filled at: queued lines (the chunks of one long message) go out newest first")
    for a in odd:
        ctx.check(False, "queue/fifo", ctx.construct("twisted.words.protocols.irc." + a.func, a.node), f"queue operation {a.kind} reorders or drops queued lines")
    ctx.check(bool(head_out or tail_out), "queue/fifo", base + "_queue | consumer", "queued lines are never taken off the queue")
    # evaluated: three lines through sendLine with a line rate set, then the delayed calls run
    inits = [st.value for m in ast.walk(cls) if isinstance(m, ast.FunctionDef) for st in ast.walk(m)
             if isinstance(st, ast.Assign) and any(isinstance(t, ast.Attribute) and t.attr == "_queue" and src(t.value) == "self" for t in st.targets)]
    ctx.need(inits, "initial value of self._queue")
    f_send = ctx.func(IRC, "IRCClient.sendLine")
    f_drain = ctx.func(IRC, "IRCClient._sendLine")
    lp = f_send.args.args[1].arg
    for rate in (None, 2):
        for init in inits:
            try:
                q0 = peval(init, env)
            except (NotPure, Raised) as ex:
                raise AnalysisError(f"initial queue {src(init)} not evaluable ({ex})")
            sent, pending = [], []
            e = dict(env)
            funcs = FollowModule(mod, dict(COMPAT), env)
            funcs["reactor.callLater"] = lambda delay, fn, *a: (pending.append(fn), object())[1]
            e.update({"self": object(), "self.lineRate": rate, "self._queue": q0, "self._queueEmptying": None, "self._reallySendLine": sent.append})
            e["self._sendLine"] = lambda: eval_block(f_drain.body, e, funcs=funcs)
            lines = ["PRIVMSG u :one", "PRIVMSG u :two", "PRIVMSG u :three"]
            try:
                for ln in lines:
                    e[lp] = ln
                    eval_block(f_send.body, e, funcs=funcs)
                steps = 0
                while pending and steps < 20:
                    steps += 1
                    pending.pop(0)()
            except BlockRaised as ex:
                raise AnalysisError(f"send queue not evaluable: {ex}")
            ctx.check(sent == lines, "queue/drains-in-order", base + f"sendLine ~ _sendLine | lineRate {'set' if rate else 'None'}, queue {src(init)}",
                      f"three lines handed to sendLine with lineRate={rate} reach the wire as {sent!r}: the message parts must keep their order (and none may stay queued)")


def check(ctx):
    mod = ctx.mod(IRC)
    env = module_env(mod)
    cenv = module_consts(mod)
    low = []
    with sect(ctx, "low-level quoting"):
        low = _check_quoting(ctx, env, cenv, "low-level", "lowQuote", "lowDequote", "M_QUOTE", "mQuoteTable", "mDequoteTable", ("NUL", "NL", "CR"))
    with sect(ctx, "CTCP quoting"):
        _check_quoting(ctx, env, cenv, "ctcp", "ctcpQuote", "ctcpDequote", "X_QUOTE", "xQuoteTable", "xDequoteTable", ("X_DELIM",))
    with sect(ctx, "send path"):
        _check_send_path(ctx, env, low)
    with sect(ctx, "CTCP framing"):
        _check_ctcp_framing(ctx, env)
    with sect(ctx, "rate-limit queue"):
        _check_queue(ctx, env)


MUTANTS = [
    Mutant('shared-wrapper-keeps-long-words', IRC, '    return [chunk for line in str.split("\\n") for chunk in textwrap.wrap(line, length)]\n', '    wrapper = textwrap.TextWrapper(width=length, break_long_words=False)\n    return list(itertools.chain.from_iterable(map(wrapper.wrap, str.split("\\n"))))\n', expect_rule='split/wrap-arguments'),
    Mutant("lowquote-escape-unit-last", IRC, "    for c in (M_QUOTE, NUL, NL, CR):\n", "    for c in (NUL, NL, CR, M_QUOTE):\n", expect_rule="quote/escaper-order"),
    Mutant("lowquote-cr-row-not-applied", IRC, "    for c in (M_QUOTE, NUL, NL, CR):\n", "    for c in (M_QUOTE, NUL, NL):\n", expect_rule="quote/"),
    Mutant("ctcpquote-delim-before-escape", IRC, "    for c in (X_QUOTE, X_DELIM):\n", "    for c in (X_DELIM, X_QUOTE):\n", expect_rule="quote/escaper-order"),
    Mutant("mquote-tails-collide", IRC, '    CR: M_QUOTE + "r",\n', '    CR: M_QUOTE + "n",\n', expect_rule="quote/table"),
    Mutant("xquote-table-drops-escape-row", IRC, 'xQuoteTable = {X_DELIM: X_QUOTE + "a", X_QUOTE: X_QUOTE + X_QUOTE}\n', 'xQuoteTable = {X_DELIM: X_QUOTE + "a"}\n',
           expect_rule="quote/"),
    Mutant("dequote-table-keyed-by-first-char", IRC, "for k, v in xQuoteTable.items():\n    xDequoteTable[v[-1]] = k\n", "for k, v in xQuoteTable.items():\n    xDequoteTable[v[0]] = k\n",
           expect_rule="quote/dequote-table-inverse"),
    Mutant("dequote-regex-two-units", IRC, 'mEscape_re = re.compile(f"{re.escape(M_QUOTE)}.", re.DOTALL)\n', 'mEscape_re = re.compile(f"{re.escape(M_QUOTE)}..", re.DOTALL)\n',
           expect_rule="dequote/"),
    Mutant("dequote-uses-whole-match", IRC, "    def sub(matchobj, xDequoteTable=xDequoteTable):\n        s = matchobj.group()[1]\n", "    def sub(matchobj, xDequoteTable=xDequoteTable):\n        s = matchobj.group()[0]\n",
           expect_rule="dequote/undoes-quote"),
    Mutant("send-unquoted-line", IRC, "        quoteLine = lowQuote(line)\n", "        quoteLine = line\n", expect_rule="send/quoted-before-wire"),
    Mutant("terminator-not-counted", IRC, "        minimumLength = len(fmt) + 2\n", "        minimumLength = len(fmt)\n", expect_rule="split/budget"),
    Mutant("width-is-whole-length", IRC, "        for line in split(message, length - minimumLength):\n", "        for line in split(message, length):\n", expect_rule="split/budget"),
    Mutant("notice-drops-length", IRC, '        self._sendMessage("NOTICE", user, message, length)\n', '        self._sendMessage("NOTICE", user, message)\n',
           expect_rule="send/siblings-forward-length"),
    Mutant("long-words-unsplit", IRC, "textwrap.wrap(line, length)]", "textwrap.wrap(line, length, break_long_words=False)]", expect_rule="split/wrap-arguments"),
    Mutant("short-message-bypasses-splitter", IRC, "        for line in split(message, length - minimumLength):\n            self.sendLine(fmt + line)\n",
           "        room = length - minimumLength\n        if message and NL not in message and len(message) <= room:\n            chunks = [message]\n"
           "        else:\n            chunks = split(message, room)\n        for line in chunks:\n            self.sendLine(fmt + line)\n", expect_rule="limit/plain-text-within-budget"),
    Mutant("ctcpquote-iterates-table-order", IRC, "    for c in (X_QUOTE, X_DELIM):\n        s = s.replace(c, xQuoteTable[c])\n", "    for c, quoted in xQuoteTable.items():\n        s = s.replace(c, quoted)\n",
           expect_rule="quote/"),
    Mutant("wrapper-keeps-control-whitespace", IRC, "    return [chunk for line in str.split(\"\\n\") for chunk in textwrap.wrap(line, length)]\n",
           "    w = textwrap.TextWrapper(width=length, replace_whitespace=False)\n    return [chunk for line in str.split(\"\\n\") for chunk in w.wrap(line)]\n", expect_rule="limit/plain-text-within-budget"),
    Mutant("queue-drained-newest-first", IRC, "            self._reallySendLine(self._queue.pop(0))\n", "            self._reallySendLine(self._queue.pop())\n", expect_rule="queue/"),
    Mutant("queue-filled-at-the-head", IRC, "            self._queue.append(line)\n", "            self._queue.insert(0, line)\n", expect_rule="queue/"),
    Mutant("ctcp-dequote-before-framing", IRC, "    messages = message.split(X_DELIM)\n", "    messages = ctcpDequote(message).split(X_DELIM)\n", expect_rule="ctcp/"),
    Mutant("ctcp-extended-parts-not-dequoted", IRC, "    extended_messages[:] = list(map(ctcpDequote, extended_messages))\n", "", expect_rule="ctcp/extract-undoes-stringify"),
    Mutant("heartbeat-writes-raw", IRC, '        self.sendLine("PING " + self.hostname)\n', '        self.transport.write(("PING " + self.hostname).encode("utf-8") + b"\\r\\n")\n',
           expect_rule="send/single-wire-path"),
    Mutant('encoded-line-clipped-to-510-octets-before-CR', IRC, '        quoteLine += b"\\r"\n        return basic.LineReceiver.sendLine(self, quoteLine)\n', '        quoteLine = quoteLine[:510]\n        quoteLine += b"\\r"\n        return basic.LineReceiver.sendLine(self, quoteLine)\n', expect_rule='send-defuse/nothing-cut-on-the-way-to-the-wire'),
    Mutant('wire-call-gets-the-last-510-octets', IRC, '        quoteLine += b"\\r"\n        return basic.LineReceiver.sendLine(self, quoteLine)\n', '        quoteLine += b"\\r"\n        return basic.LineReceiver.sendLine(self, quoteLine[-511:])\n', expect_rule='send/wire-carries-whole-line'),
    Mutant('sendLine-clips-the-text-to-500-characters', IRC, '        if self.lineRate is None:\n            self._reallySendLine(line)\n', '        if self.lineRate is None:\n            self._reallySendLine(line[:500])\n', expect_rule='send/message-reaches-wire-whole'),
    Mutant('ctcp-tag-split-on-any-white-space', IRC, '        m = extended_messages[i].split(SPC, 1)\n', '        m = extended_messages[i].split(None, 1)\n', expect_rule='ctcp/extract-undoes-stringify'),
    Mutant('ctcp-tag-and-data-by-pattern-whose-dot-stops-at-LF', IRC, '        m = extended_messages[i].split(SPC, 1)\n        tag = m[0]\n        if len(m) > 1:\n            data = m[1]\n        else:\n            data = None\n\n        extended_messages[i] = (tag, data)\n', '        tag, data = _tagThenData.match(extended_messages[i]).group(1, 2)\n        extended_messages[i] = (tag, data)\n', more=[(IRC, 'def ctcpExtract(message):\n', '_tagThenData = re.compile("([^ ]*)(?: (.*))?")\n\n\ndef ctcpExtract(message):\n')], expect_rule='ctcp/reader-regex-any-matches-all'),
]
SILENT = [
    Silent('ctcp-tag-and-data-by-pattern-with-DOTALL', IRC, '        m = extended_messages[i].split(SPC, 1)\n        tag = m[0]\n        if len(m) > 1:\n            data = m[1]\n        else:\n            data = None\n\n        extended_messages[i] = (tag, data)\n', '        tag, data = _tagThenData.match(extended_messages[i]).group(1, 2)\n        extended_messages[i] = (tag, data)\n', more=[(IRC, 'def ctcpExtract(message):\n', '_tagThenData = re.compile("([^ ]*)(?: (.*))?", re.DOTALL)\n\n\ndef ctcpExtract(message):\n')]),
    Silent('ctcp-tag-and-data-by-partition', IRC, '        m = extended_messages[i].split(SPC, 1)\n        tag = m[0]\n        if len(m) > 1:\n            data = m[1]\n        else:\n            data = None\n\n        extended_messages[i] = (tag, data)\n', '        tag, sep, data = extended_messages[i].partition(SPC)\n        extended_messages[i] = (tag, data if sep else None)\n'),
    Silent('encoded-line-copied-whole-then-CR-joined', IRC, '        quoteLine += b"\\r"\n        return basic.LineReceiver.sendLine(self, quoteLine)\n', '        quoteLine = b"".join([quoteLine[:], b"\\r"])\n        return basic.LineReceiver.sendLine(self, quoteLine)\n'),
    Silent('low-dequote-pattern-with-inline-dotall-flag', IRC, 'mEscape_re = re.compile(f"{re.escape(M_QUOTE)}.", re.DOTALL)\n', 'mEscape_re = re.compile(f"(?s){re.escape(M_QUOTE)}.")\n'),
    Silent('one-wrapper-for-all-paragraphs', IRC, '    return [chunk for line in str.split("\\n") for chunk in textwrap.wrap(line, length)]\n', '    wrapper = textwrap.TextWrapper(width=length)\n    return list(itertools.chain.from_iterable(map(wrapper.wrap, str.split("\\n"))))\n'),
    Silent("lowquote-explicit-chain", IRC, "    for c in (M_QUOTE, NUL, NL, CR):\n        s = s.replace(c, mQuoteTable[c])\n    return s\n\n\ndef lowDequote",
           "    return s.replace(M_QUOTE, mQuoteTable[M_QUOTE]).replace(CR, mQuoteTable[CR]).replace(NUL, mQuoteTable[NUL]).replace(NL, mQuoteTable[NL])\n\n\ndef lowDequote"),
    Silent("ctcpquote-ordered-tuple-with-local", IRC, "    for c in (X_QUOTE, X_DELIM):\n        s = s.replace(c, xQuoteTable[c])\n",
           "    for c in (X_QUOTE, X_DELIM):\n        quoted = xQuoteTable[c]\n        s = s.replace(c, quoted)\n"),
    Silent("lowquote-sorted-items-escape-first", IRC, "    for c in (M_QUOTE, NUL, NL, CR):\n        s = s.replace(c, mQuoteTable[c])\n",
           "    for c, quoted in sorted(mQuoteTable.items(), key=lambda kv: kv[0] != M_QUOTE):\n        s = s.replace(c, quoted)\n"),
    Silent("fast-path-only-when-splitter-would-not-change-it", IRC, "        for line in split(message, length - minimumLength):\n            self.sendLine(fmt + line)\n",
           "        room = length - minimumLength\n        if message.isalnum() and len(message) <= room:\n            chunks = [message]\n"
           "        else:\n            chunks = split(message, room)\n        for line in chunks:\n            self.sendLine(fmt + line)\n"),
    Silent("dequote-table-as-comprehension", IRC, "mDequoteTable = {}\nfor k, v in mQuoteTable.items():\n    mDequoteTable[v[-1]] = k\ndel k, v\n",
           "mDequoteTable = {quoted[-1]: plain for plain, quoted in mQuoteTable.items()}\n"),
    Silent("dequote-without-regex", IRC, "    return xEscape_re.sub(sub, s)\n",
           "    out = []\n    i = 0\n    while i < len(s):\n        if s[i] == X_QUOTE and i + 1 < len(s):\n            out.append(xDequoteTable.get(s[i + 1], s[i + 1]))\n            i += 2\n"
           "        else:\n            out.append(s[i])\n            i += 1\n    return \"\".join(out)\n"),
    Silent("wrapper-object-default-options", IRC, "    return [chunk for line in str.split(\"\\n\") for chunk in textwrap.wrap(line, length)]\n",
           "    w = textwrap.TextWrapper(width=length, break_on_hyphens=True)\n    return [chunk for line in str.split(\"\\n\") for chunk in w.wrap(line)]\n"),
    Silent("queue-as-deque-popleft", IRC, "            self._reallySendLine(self._queue.pop(0))\n", "            self._reallySendLine(self._queue.popleft())\n",
           more=[(IRC, "        self.supported = ServerSupportedFeatures()\n        self._queue = []\n", "        self.supported = ServerSupportedFeatures()\n        self._queue = collections.deque()\n")]),
    Silent("quoters-share-a-helper", IRC, "def lowQuote(s):\n    for c in (M_QUOTE, NUL, NL, CR):\n        s = s.replace(c, mQuoteTable[c])\n    return s\n",
           "def _applyRows(s, table, order):\n    for c in order:\n        s = s.replace(c, table[c])\n    return s\n\n\ndef lowQuote(s):\n    return _applyRows(s, mQuoteTable, (M_QUOTE, NUL, NL, CR))\n"),
    Silent("ctcpquote-by-reduce", IRC, "    for c in (X_QUOTE, X_DELIM):\n        s = s.replace(c, xQuoteTable[c])\n    return s\n",
           "    return reduce(lambda acc, c: acc.replace(c, xQuoteTable[c]), (X_QUOTE, X_DELIM), s)\n"),
    Silent("really-send-line-temporaries", IRC, "        quoteLine = lowQuote(line)\n        if isinstance(quoteLine, str):\n            quoteLine = quoteLine.encode(\"utf-8\")\n        quoteLine += b\"\\r\"\n        return basic.LineReceiver.sendLine(self, quoteLine)\n",
           "        quoted = lowQuote(line)\n        octets = quoted.encode(\"utf-8\") if isinstance(quoted, str) else quoted\n        return basic.LineReceiver.sendLine(self, octets + b\"\\r\")\n"),
    Silent("payload-room-helper-method", IRC, "        minimumLength = len(fmt) + 2\n        if length <= minimumLength:\n            raise ValueError(\n                \"Maximum length must exceed %d for message \"\n                \"to %s\" % (minimumLength, user)\n            )\n        for line in split(message, length - minimumLength):\n",
           "        for line in split(message, self._room(fmt, user, length)):\n",
           more=[(IRC, "    def msg(self, user, message, length=None):\n", "    def _room(self, fmt, user, length):\n        overhead = len(fmt) + 2\n        if length <= overhead:\n            raise ValueError(\"Maximum length must exceed %d for message to %s\" % (overhead, user))\n        return length - overhead\n\n    def msg(self, user, message, length=None):\n")]),
    Silent("split-as-generator", IRC, "    return [chunk for line in str.split(\"\\n\") for chunk in textwrap.wrap(line, length)]\n",
           "    def pieces():\n        for paragraph in str.split(\"\\n\"):\n            yield from textwrap.wrap(paragraph, length)\n\n    return list(pieces())\n"),
    Silent("ctcp-dequote-by-comprehension", IRC, "    extended_messages[:] = list(map(ctcpDequote, extended_messages))\n", "    extended_messages[:] = [ctcpDequote(piece) for piece in extended_messages]\n"),
    Silent("budget-guard-rewritten", IRC, "        if length <= minimumLength:\n", "        if not length > minimumLength:\n"),
    Silent("dequote-table-comprehension-free", IRC, "for k, v in mQuoteTable.items():\n    mDequoteTable[v[-1]] = k\n", "for k, v in mQuoteTable.items():\n    mDequoteTable[v[1:]] = k\n"),
    Silent("notice-length-keyword", IRC, '        self._sendMessage("NOTICE", user, message, length)\n', '        self._sendMessage("NOTICE", user, message, length=length)\n'),
]
