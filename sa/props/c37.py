"""C37 - SSH wire primitives and keys round-trip (structural agreement of writers and readers)."""
from __future__ import annotations

import ast
import struct

from sa.astx import NotConst, call_attr, call_name, const_eval, dotted, src, statements
from sa.selftest import Mutant, Silent
from sa.source import AnalysisError, methods
from sa.props._lib_h import const_is

PROPERTY = "C37"
CM = "conch/ssh/common.py"
KY = "conch/ssh/keys.py"
QC = "twisted.conch.ssh.common."
QK = "twisted.conch.ssh.keys.Key."
TECHNIQUE = ("structural: writer / reader schema extraction and table agreement (struct formats, slice offsets by linear normal form, field order, key-type sets, "
             "container layout), provenance of the parsed bytes, fixed-width operands; finite-exhaustive: NS / MP evaluated over the value classes they can "
             "distinguish (domain argument checked on the code), sign-padding test over all 256 leading bytes, PEM writer guards over all key classes, format "
             "guessing over every tag / armour the writers emit; second layer (bounded): readers and Key round trips interpreted with stand-in cryptography")
RULE_KINDS = {
    "s/": "structural",
    "s/primitive/mp-sign-padding": "finite-exhaustive",
    "s/container/pem-kinds": "finite-exhaustive",
    "s/dispatch/guess-recognises-written": "finite-exhaustive",
    "primitive/NS": "finite-exhaustive",
    "primitive/MP": "finite-exhaustive",
    "primitive/getNS": "bounded",
    "primitive/getMP": "bounded",
    "primitive/round-trip": "bounded",
    "primitive-samples/": "bounded",
    "roundtrip/": "bounded",
    "keys/fixed-width-fields": "structural",
    "keys/components-as-read": "structural",
    "passphrase/": "structural",
    "input/binary-formats-unmodified": "structural",
}
EXPLANATION = (
    "Layers: s/... rules are STRUCTURAL (table agreement on the code, nothing evaluated) unless listed as finite-exhaustive; primitive/NS and primitive/MP are "
    "FINITE-EXHAUSTIVE; roundtrip/..., primitive/getNS, primitive/getMP, primitive/round-trip are BOUNDED (source interpreted on enumerated inputs). A structural "
    "group that cannot read the shape abstains with a note and leaves the clause to the evaluated layer. Per clause: "
    "[NS, MP writers] primitive/NS, primitive/MP: first it is checked on the code that the function looks at its argument only through type dispatch / comparison "
    "with 0 / the first byte of the minimal encoding / len() (only packed) / concatenation; then every class is evaluated against the RFC 4251 reference (all 255 "
    "leading bytes x lengths on both sides of the length field's byte boundaries x three fillings; bytes and str of every UTF-8 width) - finite-exhaustive; "
    "if the domain check fails the same inputs are reported as primitive-samples/ (bounded) with a note. Structural deciders of the same clauses: "
    "s/primitive/length-of-what-is-appended, length-format, mp-zero; s/primitive/mp-sign-padding evaluates the padding test for all 256 leading bytes. "
    "[getNS, getMP readers] s/primitive/format-agreement (reader's struct format == writer's), s/primitive/offsets (header at [c:c+4], body at [c+4:c+4+l], advance "
    "4+l as linear normal forms), s/primitive/rest-returned, s/primitive/mp-unsigned-big-endian - structural, for all inputs; primitive/getNS, getMP, round-trip are "
    "bounded witnesses (reference-encoded streams with tails and counts). When the readers are written through a helper the structural group abstains and only "
    "bounded evidence remains for them. "
    "[key blobs] s/keys/field-schema, field-order, every-written-type-is-readable, type-tags, data-components, writer-types, lsh: the ordered field schema (NS/MP, "
    "component) of every key-type branch of blob / privateBlob / _toString_AGENTV3 / _toString_LSH equals what the matching reader branch consumes; tags agree with "
    "sshType(); every data[...] component exists - structural table agreement (for all keys); keys/fixed-width-fields (no minimal-length integer unframed inside a "
    "concatenated NS payload; what was read as a length-prefixed field is cut further only by position - slices with content-independent bounds - never by "
    "strip / split / replace / find-based bounds on key material) - structural; keys/components-as-read (the _from*Components builders re-bind a component only when it "
    "was not given, hand each component on under its own name, and the binary parsers do not re-bind a number between getMP and the builder: no re-ordering or "
    "normalisation between the wire fields and the key, except in a format's own parser) - structural; bounded witnesses roundtrip/binary, roundtrip/lsh (pool: RSA keys "
    "with p < q and with p > q, Ed25519 seeds whose last / first byte value also occurs in the public key, encodings ending in whitespace, leading zero bytes). Known "
    "finding F37a (bounded, reproduced on the real code): an RSA key with p > q does not survive the private LSH round trip (writer exchanges the primes "
    "unconditionally, reader exchanges them back only if p > q); keys of that class are reported under their own construct so that the finding cannot hide other faults. "
    "[containers] s/container/v1-magic, v1-cipher (names, key size derived from the name, key/IV split by linear normal form), v1-kdf (name, rounds recorded == "
    "rounds used), v1-field-order (writer layout == reader's chain of getNS / unpack), v1-check-words - structural; s/container/pem-kinds: the PEM writer's guards "
    "evaluated for every key class vs. the kinds the reader accepts - finite-exhaustive; bounded witness roundtrip/openssh. "
    "[format guessing] s/dispatch/guess-names, format-has-parser, helper-exists - structural; s/dispatch/guess-recognises-written: _guessStringType's tests "
    "evaluated on every type tag / armour line / bracket the writers can emit (finite tables) - finite-exhaustive. "
    "[passphrase] passphrase/bytes-pass-through: the normaliser the Key methods send a passphrase through re-binds / rewrites it only on the isinstance(.., str) "
    "branch and returns the argument itself otherwise; no Key method applies a rewriting method to a passphrase parameter - structural (CFG paths avoiding the str "
    "edge); bounded witness: the v1 round trip with a non-UTF-8 bytes passphrase. "
    "[input provenance] input/binary-formats-unmodified: between fromString's parameter and a binary-format parser nothing trims / slices the data unless the "
    "format is known to be textual (CFG paths, parser classification) - structural. "
    "Bounded evidence only: value-level equality of the parsed key (type, components, public blob) after a round trip through the stand-in cryptography "
    "(roundtrip/...): the structural rules decide field kinds, order and framing, not that e.g. the SEC1 point or PEM body is reproduced bit for bit - that depends "
    "on the cryptography library, which is outside the repository. Not decided: the real cryptography (key validity, fingerprint hash functions, bcrypt, PEM as "
    "written by OpenSSL)."
)
ASSUMPTIONS = [
    "cryptography's int_to_bytes yields minimal big-endian bytes; load_pem_private_key / private_bytes are inverse (library contract)",
    "sexpy.pack / sexpy.parse are inverse on nested lists of bytes",
]

# how twisted's key class names map to SSH wire type tags (RFC 4253 6.6, RFC 5656, RFC 8709); EC is a family
WIRE = {"RSA": b"ssh-rsa", "DSA": b"ssh-dss", "Ed25519": b"ssh-ed25519", "EC": "<curve>"}
DATA_CLASS = {"RSAPublicKey": ("RSA", "public"), "RSAPrivateKey": ("RSA", "private"), "DSAPublicKey": ("DSA", "public"),
              "DSAPrivateKey": ("DSA", "private"), "EllipticCurvePublicKey": ("EC", "public"), "EllipticCurvePrivateKey": ("EC", "private"),
              "Ed25519PublicKey": ("Ed25519", "public"), "Ed25519PrivateKey": ("Ed25519", "private")}


def _c(node, env=None):
    try:
        return const_eval(node, env or {})
    except NotConst:
        return None




def _single_def(scope, e, depth=0):
    """a local bound exactly once (inside ``scope``, a list of statements or a function) stands for what it was bound to"""
    while isinstance(e, ast.Name) and depth < 4:
        root = scope if isinstance(scope, ast.AST) else ast.Module(body=list(scope), type_ignores=[])
        stores = [x for x in ast.walk(root) if isinstance(x, ast.Name) and x.id == e.id and isinstance(x.ctx, ast.Store)]
        vals = [st.value for st in ast.walk(root) if isinstance(st, ast.Assign) and len(st.targets) == 1 and isinstance(st.targets[0], ast.Name) and st.targets[0].id == e.id]
        if len(stores) != 1 or len(vals) != 1:
            break
        e = vals[0]
        depth += 1
    return e


def _concat_operands(scope, e):
    """operands of a byte concatenation written as a + b + c, b"".join([a, b, c]) or through a named temporary"""
    e = _single_def(scope, e)
    if isinstance(e, ast.Call) and call_attr(e) == "join" and len(e.args) == 1 and isinstance(e.func, ast.Attribute) and _c(e.func.value) == b"":
        lst = _single_def(scope, e.args[0])
        if isinstance(lst, (ast.List, ast.Tuple)):
            out = []
            for x in lst.elts:
                out += _concat_operands(scope, x)
            return out
    if isinstance(e, ast.BinOp) and isinstance(e.op, ast.Add):
        return _concat_operands(scope, e.left) + _concat_operands(scope, e.right)
    return [e]


def _ordered_calls(node, names):
    cs = [c for c in ast.walk(node) if isinstance(c, ast.Call) and (call_name(c) in names or call_attr(c) in names)]
    return sorted(cs, key=lambda c: (c.lineno, c.col_offset))


# ---- writer / reader schema extraction ------------------------------------------------------







def reader_schema(body, km=None, depth=0):
    """[(kind, name or None)] consumed by the getNS/getMP calls of a branch, in source order; calls of private helpers of the class
    (cls._x(rest) / self._x(rest)) contribute the fields their body consumes."""
    out = []
    wrapper = ast.Module(body=list(body), type_ignores=[])
    calls = [c for c in ast.walk(wrapper) if isinstance(c, ast.Call)]
    for c in sorted(calls, key=lambda c: (c.lineno, c.col_offset)):
        if call_attr(c) in ("getNS", "getMP"):
            kind = "NS" if call_attr(c) == "getNS" else "MP"
            n = _c(c.args[1]) if len(c.args) > 1 else 1
            if not isinstance(n, int):
                return None
            par = getattr(c, "_parent", None)
            names = [None] * n
            if isinstance(par, ast.Assign) and par.value is c and isinstance(par.targets[0], (ast.Tuple, ast.List)):
                tg = [src(e) for e in par.targets[0].elts]
                if len(tg) == n + 1:
                    names = tg[:-1]
            out += [(kind, nm) for nm in names]
        elif km is not None and depth < 2 and isinstance(c.func, ast.Attribute) and isinstance(c.func.value, ast.Name) and c.func.value.id in ("cls", "self") \
                and c.func.attr.startswith("_") and c.func.attr in km and not c.func.attr.startswith(("_from", "_to")):
            sub = reader_schema(km[c.func.attr].body, km, depth + 1)
            if sub is None:
                return None
            out += sub
    return out






def eval_startswith(test, data: bytes):
    """evaluate a test built from  data.startswith(CONST), and/or/not."""
    if isinstance(test, ast.BoolOp):
        vals = [eval_startswith(v, data) for v in test.values]
        return all(vals) if isinstance(test.op, ast.And) else any(vals)
    if isinstance(test, ast.UnaryOp) and isinstance(test.op, ast.Not):
        return not eval_startswith(test.operand, data)
    if isinstance(test, ast.Call) and isinstance(test.func, ast.Attribute) and test.func.attr == "startswith" and src(test.func.value) == "data" and len(test.args) == 1:
        p = _c(test.args[0])
        if isinstance(p, bytes):
            return data.startswith(p)
    raise AnalysisError(f"C37: _guessStringType test not recognised: {src(test)[:80]}")


def guess(func, data: bytes):
    for st in func.body:
        if isinstance(st, ast.Expr) and isinstance(st.value, ast.Constant):
            continue
        if isinstance(st, ast.If) and not st.orelse:
            if eval_startswith(st.test, data):
                first = st.body[0]
                if isinstance(first, ast.Return) and isinstance(first.value, ast.Constant):
                    return first.value.value
                if isinstance(first, ast.Raise):
                    return "<raise>"
                rets = {r.value.value for r in ast.walk(st) if isinstance(r, ast.Return) and isinstance(r.value, ast.Constant)}
                return "|".join(sorted(rets))
        else:
            raise AnalysisError(f"C37: _guessStringType statement not recognised: {src(st)[:60]}")
    return None


def check(ctx):
    from sa.props._lib_h_s37 import structural
    structural(ctx)
    with ctx.section('primitives/evaluated'):
        _primitives(ctx)
    with ctx.section('model/key-round-trips'):
        _key_roundtrips(ctx)
    with ctx.section('keys/fixed-width'):
        _fixed_width(ctx)
    with ctx.section('keys/components-as-read'):
        _components_as_read(ctx)
    with ctx.section('provenance/binary-input'):
        _provenance(ctx)
    from sa.props._lib_h import abstain
    with abstain(ctx, 'passphrase/bytes-pass-through', 'roundtrip/openssh (bounded: non-UTF-8 bytes passphrase)'):
        _passphrase_passthrough(ctx)

# ---- primitives: the four functions are evaluated (whitelisted interpreter) against RFC 4251 references -------------

def _ref_NS(x):
    b = x.encode("utf-8") if isinstance(x, str) else x
    return struct.pack(">L", len(b)) + b


def _ref_MP(n):
    if n == 0:
        return b"\0\0\0\0"
    b = n.to_bytes((n.bit_length() + 7) // 8, "big")
    if b[0] & 0x80:
        b = b"\0" + b
    return struct.pack(">L", len(b)) + b


def _primitives(ctx):
    cm = ctx.mod(CM)
    for n_ in ("NS", "getNS", "MP", "getMP"):
        ctx.func(CM, n_)

    from sa.props._lib_h_d import VMError
    from sa.props._lib_h import xvm
    vm = xvm(cm)
    vm.mod._g["int_to_bytes"] = lambda n, length=None: n.to_bytes(length or ((n.bit_length() + 7) // 8 or 1), "big")   # cryptography.utils contract

    def run(name, *args):
        try:
            return vm.call(vm.mod.globals_lookup(name), list(args), {})
        except VMError as e:
            raise AnalysisError(f"C37: {name}: construct outside the interpreter's subset: {e}")
        except Exception as e:
            return f"<raises {type(e).__name__}: {e}>"
    strings = [b"", b"a", b"\x00", b"ssh-rsa", b"x" * 300, bytes(range(256))]
    texts = ["", "abc", "h\u00e9llo \u20ac"]
    nums = [0, 1, 0x7F, 0x80, 0xFF, 0x100, 0x7FFF, 0x8000, 0xFFFF, 2 ** 31 - 1, 2 ** 31, 2 ** 32, 2 ** 63, 2 ** 64 - 1, 2 ** 255 - 19, 2 ** 256, 2 ** 521 - 1, 2 ** 1024 + 12345,
            2 ** 4096 - 1, 0x80 << 64, 0x7F << 64]

    # -- writers: finite-exhaustive over the value classes the code can distinguish, after checking on the code what it looks at
    _depth = [0]

    def _nested(callee):
        _depth[0] += 1
        try:
            return looks_only_through(callee, {"type"}) is None
        finally:
            _depth[0] -= 1

    def looks_only_through(fn, what):
        """None if every read of the argument (and of the locals derived from it) is one of the permitted looks, else the offending text"""
        tracked = {a.arg for a in fn.args.args} | {t.id for st in ast.walk(fn) if isinstance(st, ast.Assign) for t in st.targets if isinstance(t, ast.Name)}
        for n in ast.walk(fn):
            if not (isinstance(n, ast.Name) and isinstance(n.ctx, ast.Load) and n.id in tracked):
                continue
            par = n._parent
            ok = False
            if isinstance(par, ast.Call) and n in par.args:
                fnm = (ast.unparse(par.func))
                ok = fnm == "len" or (fnm == "isinstance" and par.args[0] is n and "type" in what) or (fnm.split(".")[-1] == "int_to_bytes" and "number" in what)
                if not ok and isinstance(par.func, ast.Name) and par.func.id != fn.name and len(par.args) == 1:
                    # handed on whole to another function of the module that itself looks at it only through permitted looks (MP delegating to NS)
                    callee = cm.find(par.func.id)
                    ok = isinstance(callee, ast.FunctionDef) and _depth[0] < 3 and _nested(callee)
                if fnm == "len":     # a length may only be packed
                    pp = par._parent
                    ok = isinstance(pp, ast.Call) and ast.unparse(pp.func).split(".")[-1] == "pack"
            elif isinstance(par, ast.Attribute) and par.attr == "encode" and "type" in what:
                ok = True
            elif isinstance(par, ast.BinOp) and isinstance(par.op, ast.Add):
                ok = True
            elif isinstance(par, (ast.Assign, ast.Return)) or isinstance(par, (ast.IfExp, ast.If)) or (isinstance(par, ast.UnaryOp) and isinstance(par.op, ast.Not)):
                ok = True       # handed on whole, or tested: a flag derived from permitted looks / the emptiness of the string (length class 0 is enumerated)
            elif isinstance(par, ast.Compare) and "number" in what:
                others = [par.left] + list(par.comparators)
                ok = all(o is n or (isinstance(o, ast.Constant) and o.value == 0) for o in others)
            elif isinstance(par, ast.Subscript) and par.value is n and "first-byte" in what:
                sl = par.slice
                first = (isinstance(sl, ast.Constant) and sl.value == 0) or (isinstance(sl, ast.Slice) and sl.step is None and (sl.lower is None or (isinstance(sl.lower, ast.Constant) and sl.lower.value == 0))
                                                                             and isinstance(sl.upper, ast.Constant) and sl.upper.value == 1)
                up = par._parent
                if isinstance(up, ast.Call) and ast.unparse(up.func) == "ord":
                    up = up._parent
                ok = first and ((isinstance(up, ast.BinOp) and isinstance(up.op, (ast.BitAnd, ast.RShift))) or
                                (isinstance(up, ast.Compare) and all(isinstance(o, ast.Constant) for o in [up.left] + list(up.comparators) if not any(x is par for x in ast.walk(o)))))
            if not ok:
                return ast.unparse(par)[:60]
        return None

    def decide(name, what, domain_text, inputs, ref, fails_text):
        off = looks_only_through(ctx.func(CM, name), what)
        rule = f"primitive/{name}" if off is None else f"primitive-samples/{name}"
        if off is not None:
            ctx.note(f"primitive/{name}: the domain argument does not hold ({name} also looks at its argument through `{off}`); the same inputs are reported as bounded samples")
        bad = [(x, run(name, x)) for x in inputs if run(name, x) != ref(x)]
        ctx.check(not bad, rule, QC + name, fails_text(bad[0]) if bad else "",
                  detail=f"{len(inputs)} inputs. " + (domain_text if off is None else "bounded samples only"))
    ns_inputs = [bytes([i & 0xFF]) * n for n in (0, 1, 2, 3, 4, 5, 255, 256, 257, 300, 65535, 65536, 65537) for i in (0, 0x41)] + strings \
        + ["", "a", "abc", "\u00e9", "h\u00e9llo \u20ac", "\U0001F600", "x" * 300, "\u20ac" * 100]
    decide("NS", {"type"}, "Domain argument (checked on the code): NS looks at its argument only through isinstance (type dispatch), .encode, len() (packed) and "
           "concatenation, so its behaviour depends on the type class (bytes / str with 1-, 2-, 3-, 4-byte UTF-8 characters) and is uniform in the content; every type "
           "class is enumerated with lengths on both sides of every byte boundary of the length field", ns_inputs, _ref_NS,
           lambda b_: f"NS({b_[0][:20]!r}) = {b_[1][:24] if not isinstance(b_[1], str) else b_[1]!r}; RFC 4251 string is {_ref_NS(b_[0])[:24]!r} (uint32 length of exactly the bytes that follow)")
    mp_inputs = [0] + nums
    for first in range(1, 256):                 # the minimal encoding never starts with a zero byte
        for length in (1, 2, 3, 4, 5, 8, 32, 33, 127, 128, 129, 255, 256, 257, 513):
            for fill in (0x00, 0xFF, 0xA5):
                mp_inputs.append(int.from_bytes(bytes([first]) + bytes([fill]) * (length - 1), "big"))
    mp_inputs = sorted(set(mp_inputs))
    decide("MP", {"number", "first-byte"}, "Domain argument (checked on the code): MP looks at the number only through comparisons with 0 and int_to_bytes (minimal big-endian, "
           "library contract), and at the encoding only through its first byte (masked), len() (packed) and concatenation, so its behaviour depends on: zero or not, the "
           "value of the first byte (all 255 enumerated), the length (both sides of the byte boundaries of the length field) and is uniform in the remaining bytes "
           "(three fillings)", mp_inputs, _ref_MP,
           lambda b_: f"MP({hex(b_[0])[:24]}) = {b_[1][:12] if not isinstance(b_[1], str) else b_[1]!r}; RFC 4251 mpint is {_ref_MP(b_[0])[:12]!r}... (minimal big-endian, one leading zero byte iff the top bit is set, zero = empty)")
    # readers on reference-encoded streams
    badr = None
    seqs = [[b""], [b"a"], [b"ssh-rsa", b"", b"\x00\x01"], [b"x" * 300, b"yz"], [bytes(range(256)), b"q"]]
    for sq in seqs:
        for rest in (b"", b"tail", b"\x00\x00\x00\x01z"):
            stream = b"".join(_ref_NS(x) for x in sq) + rest
            for count in sorted({1, len(sq)}):
                got = run("getNS", stream, count)
                want = tuple(sq[:count]) + (b"".join(_ref_NS(x) for x in sq[count:]) + rest,)
                if got != want and badr is None:
                    badr = (stream[:24], count, got, want)
    one = run("getNS", _ref_NS(b"only") + b"r")
    if one != (b"only", b"r") and badr is None:
        badr = (_ref_NS(b"only") + b"r", "default", one, (b"only", b"r"))
    ctx.check(badr is None, "primitive/getNS", QC + "getNS", f"getNS({badr[0] if badr else b''!r}..., {badr[1] if badr else 1}) = {str(badr[2])[:80] if badr else ''}; expected {str(badr[3])[:80] if badr else ''} "
              "(values in order followed by the unread rest)")
    badm = None
    for k in (1, 2, 5):
        for start in range(0, len(nums) - k + 1, 3):
            sq = nums[start:start + k]
            for rest in (b"", b"\x00\x00\x00\x01\x05"):
                stream = b"".join(_ref_MP(x) for x in sq) + rest
                got = run("getMP", stream, k)
                if got != tuple(sq) + (rest,) and badm is None:
                    badm = (sq, got)
    ctx.check(badm is None, "primitive/getMP", QC + "getMP", f"getMP of the mpints {[hex(x)[:20] for x in badm[0]] if badm else []} gives {str(badm[1])[:100] if badm else ''}")
    # writer -> reader composition on the code's own encodings
    comp = [x for x in nums if not isinstance(run("MP", x), str) and run("getMP", run("MP", x) + b"r") != (x, b"r")]
    ctx.check(not comp, "primitive/round-trip", QC + "MP ~ getMP", f"getMP(MP(n)) != n for n = {[hex(x)[:20] for x in comp[:3]]}")
    comp = [x for x in strings if not isinstance(run("NS", x), str) and run("getNS", run("NS", x) + b"r") != (x, b"r")]
    ctx.check(not comp, "primitive/round-trip", QC + "NS ~ getNS", f"getNS(NS(s)) != s for s = {comp[:2]!r}")


# ---- key round trips: the source of Key is evaluated (XVM) with stand-ins for the cryptography objects -----------------

SEXPY = "conch/ssh/sexpy.py"


def _key_pool():
    """(label, key type, stand-in private key object); numbers chosen to hit sign padding, leading zero bytes and
    encodings whose last byte is an ASCII whitespace value"""
    from sa.props import _lib_h_keys as K
    import hashlib
    pool = []
    e = 65537
    # both orders of the primes: generated keys have p > q, hand-made fixtures often p < q
    for label, p, q in (("rsa-a", 2 ** 89 - 1, 2 ** 127 - 1), ("rsa-b", 2 ** 107 - 1, 2 ** 127 - 1), ("rsa-c (p > q)", 2 ** 127 - 1, 2 ** 107 - 1)):
        d = pow(e, -1, (p - 1) * (q - 1))
        pool.append((label, "RSA", K.RSAPrivateKey(K.RSAPrivateNumbers(p, q, d, d % (p - 1), d % (q - 1), pow(q, -1, p), K.RSAPublicNumbers(e, p * q)))))
    # DSA: the stand-ins do not validate group arithmetic; y ends in 0x0a, x in 0x20 (binary encodings ending in whitespace)
    dp = (1 << 1023) | int.from_bytes(hashlib.sha512(b"dsa-p").digest() * 2, "big") | 1
    dq = (1 << 159) | int.from_bytes(hashlib.sha1(b"dsa-q").digest(), "big") | 1
    dg = int.from_bytes(hashlib.sha512(b"dsa-g").digest(), "big")
    for label, y, x in (("dsa-a", (int.from_bytes(hashlib.sha512(b"dsa-y").digest(), "big") << 8) | 0x0A, (0x7F << 152) | 0x20),
                        ("dsa-b", (0xF1 << 1016) | 0x41, 0xC3 << 152 | 0x09)):
        pool.append((label, "DSA", K.DSAPrivateKey(K.DSAPrivateNumbers(x, K.DSAPublicNumbers(y, K.DSAParameterNumbers(dp, dq, dg))))))
    for curve, labels in ((K.SECP256R1, ("small", "large")), (K.SECP384R1, ("large",)), (K.SECP521R1, ("small",))):
        for label in labels:
            priv = 5 if label == "small" else int.from_bytes(hashlib.sha256(b"ec" + curve.name.encode()).digest(), "big")
            pool.append((f"ec-{curve.key_size}-{label}", "EC", K.derive_private_key(priv, curve())))
    seeds = []
    i = 0
    while len(seeds) < 4:       # public key ending in an ASCII whitespace byte / not; seed whose last (first) byte value also occurs in the public key
        seed = hashlib.sha256(b"ed-seed%d" % i).digest()
        pub_ = K.ed_public_of(seed)
        last = pub_[-1]
        if (len(seeds) == 0 and last in (0x20, 0x09, 0x0A, 0x0B, 0x0C, 0x0D)) or (len(seeds) == 1 and last > 0x20) \
                or (len(seeds) == 2 and seed[-1] in pub_ and seed[-1] != pub_[-1]) or (len(seeds) == 3 and seed[0] in pub_ and seed[-1] not in pub_):
            seeds.append(seed)
        i += 1
    for n, seed in enumerate(seeds):
        pool.append((f"ed25519-{n}", "Ed25519", K.Ed25519PrivateKey(seed)))
    return pool


def _key_roundtrips(ctx):
    from sa.props import _lib_h_keys as K
    from sa.props._lib_h_d import VMError
    from sa.props._lib_h import xvm
    mod = ctx.mod(KY)
    vm = K.install(xvm(mod, budget=2 * 10 ** 8))
    vm.mod._g["common"] = vm.module(ctx.mod(CM))
    vm.mod._g["common"]._g["int_to_bytes"] = vm.mod._g["int_to_bytes"]
    vm.mod._g["sexpy"] = vm.module(ctx.mod(SEXPY))
    KeyC = vm.cls("Key")

    class Failed(Exception):
        pass

    def cm(o, name, *a, **kw):
        try:
            return vm.call(vm.getattr(o, name), list(a), kw)
        except VMError as e:
            raise AnalysisError(f"C37: Key.{name}: construct outside the interpreter's subset: {e}")
        except AnalysisError:
            raise
        except Exception as e:
            raise Failed(f"{name} raises {type(e).__name__}: {str(e)[:120]}")

    def facts(k):
        return (cm(k, "type"), bool(cm(k, "isPublic")), cm(k, "data"), cm(cm(k, "public"), "blob"))

    n_trips = 0
    seen_types = set()
    for label, ktype, privobj in _key_pool():
        priv = vm.new(KeyC, privobj)
        pub = cm(priv, "public")
        routes = []
        # public side
        routes += [("public blob (format guessed)", pub, lambda k: cm(k, "blob"), {}, {}),
                   ("public blob (type 'blob')", pub, lambda k: cm(k, "blob"), {"type": "blob"}, {}),
                   ("public OpenSSH line", pub, lambda k: cm(k, "toString", "openssh"), {}, {}),
                   ("public OpenSSH line with comment", pub, lambda k: cm(k, "toString", "openssh", comment=b"user@host"), {}, {})]
        if ktype in ("RSA", "DSA"):
            routes += [("public LSH", pub, lambda k: cm(k, "toString", "lsh"), {}, {}),
                       ("private LSH", priv, lambda k: cm(k, "toString", "lsh"), {}, {}),
                       ("agent v3", priv, lambda k: cm(k, "toString", "agentv3"), {}, {})]
        routes += [("private blob", priv, lambda k: cm(k, "privateBlob"), {"type": "private_blob"}, {}),
                   ("private OpenSSH (default subtype)", priv, lambda k: cm(k, "toString", "openssh"), {}, {}),
                   ("private OpenSSH v1", priv, lambda k: cm(k, "toString", "openssh", subtype="v1"), {}, {}),
                   ("private OpenSSH v1 with comment", priv, lambda k: cm(k, "toString", "openssh", subtype="v1", comment=b"me"), {}, {}),
                   ("private OpenSSH v1 with passphrase", priv, lambda k: cm(k, "toString", "openssh", subtype="v1", passphrase=b"secret"), {"passphrase": b"secret"}, {}),
                   ("private OpenSSH v1 with str passphrase", priv, lambda k: cm(k, "toString", "openssh", subtype="v1", passphrase="sécret"), {"passphrase": "sécret"}, {}),
                   # a bytes passphrase is an opaque secret: not necessarily text in any encoding
                   ("private OpenSSH v1 with non-UTF-8 bytes passphrase", priv, lambda k: cm(k, "toString", "openssh", subtype="v1", passphrase=b"\xfc\xff"), {"passphrase": b"\xfc\xff"}, {})]
        if ktype != "Ed25519":
            routes += [("private OpenSSH PEM", priv, lambda k: cm(k, "toString", "openssh", subtype="PEM"), {}, {}),
                       ("private OpenSSH PEM with passphrase", priv, lambda k: cm(k, "toString", "openssh", subtype="PEM", passphrase=b"secret"), {"passphrase": b"secret"}, {})]
        first_of_type = ktype not in seen_types
        seen_types.add(ktype)
        for route, key, ser, parse_kw, _ in routes:
            if ctx.tier != "thorough" and not first_of_type and any(w in route for w in ("with comment", "str passphrase", "non-UTF-8", "(type 'blob')", "PEM with passphrase")):
                continue        # quick tier: the option variants are run for the first key of each type only
            n_trips += 1
            # keys of a class with its own known behaviour are reported under their own construct, so that a finding about them cannot hide a new fault of the others
            construct = f"{QK[:-1]} | {ktype}{' (p > q)' if '(p > q)' in label else ''} {'public' if key is pub else 'private'} key via {route}"
            try:
                want = facts(key)
                text = ser(key)
                if not isinstance(text, bytes) or not text:
                    raise Failed(f"serialises to {text!r}")
                back = cm(KeyC, "fromString", text, parse_kw.get("type"), parse_kw.get("passphrase"))
                got = facts(back)
                if got != want:
                    diff = "type" if got[0] != want[0] else "public/private" if got[1] != want[1] else \
                        "components " + ", ".join(sorted(k_ for k_ in set(got[2]) | set(want[2]) if got[2].get(k_) != want[2].get(k_))) if got[2] != want[2] else "public blob (fingerprint)"
                    raise Failed(f"parses back to a different key ({diff} differ)")
                problem = None
            except Failed as e:
                problem = str(e)
            ctx.check(problem is None, "roundtrip/" + ("binary" if "blob" in route or "agent" in route else "lsh" if "LSH" in route else "openssh"), construct,
                      f"key {label}: {problem}")
    ctx.floor("roundtrip/openssh", n_trips, 100, "round trips")
    ctx.extra["key_round_trips"] = n_trips


# ---- fixed-width fields ------------------------------------------------------------------------------------

def _conv_kind(e, al):
    """how an operand of a byte concatenation is sized: ('const', n) / ('fixed', width text) / ('minimal',) / ('opaque',)"""
    from sa.props._lib_h import csrc
    if isinstance(e, ast.Constant) and isinstance(e.value, bytes):
        return ("const", len(e.value))
    if isinstance(e, ast.Call):
        nm = call_attr(e)
        if nm == "int_to_bytes":
            if len(e.args) == 2 and not const_is(e.args[1], None):
                return ("fixed", csrc(e.args[1], al))
            kw = [k for k in e.keywords if k.arg == "length"]
            if kw and not const_is(kw[0].value, None):
                return ("fixed", csrc(kw[0].value, al))
            return ("minimal",)
        if nm == "to_bytes" and e.args:
            w = e.args[0]
            if any(isinstance(x, ast.Attribute) and x.attr == "bit_length" for x in ast.walk(w)):
                return ("minimal",)
            order = e.args[1] if len(e.args) > 1 else next((k.value for k in e.keywords if k.arg == "byteorder"), None)
            if order is not None and not const_is(order, "big"):
                return ("opaque",)
            return ("fixed", csrc(w, al))
        if nm in ("rjust", "zfill") and e.args:
            return ("fixed", csrc(e.args[0], al))
    if isinstance(e, ast.Subscript) and isinstance(e.value, ast.Call) and call_attr(e.value) == "MP":
        return ("minimal",)
    return ("opaque",)




def _fixed_width(ctx):
    from sa.props._lib_h import local_aliases, pure_expr
    kcls = ctx.cls(KY, "Key")
    km = methods(kcls)
    n_cat = 0
    # (1) general: inside an NS(...) payload built by concatenation no operand may be a minimal-length integer encoding
    for name, fn in km.items():
        al = local_aliases(fn, allow=pure_expr)
        for c in ast.walk(fn):
            if isinstance(c, ast.Call) and call_attr(c) == "NS" and len(c.args) == 1:
                ops = _concat_operands(fn, c.args[0])
                if len(ops) < 2:
                    continue
                n_cat += 1
                kinds = [_conv_kind(o, al) for o in ops]
                bad = [src(o)[:50] for o, k in zip(ops, kinds) if k == ("minimal",)]
                ctx.check(not bad, "keys/fixed-width-fields", f"{QK}{name} | {src(c)[:80]}",
                          f"a variable-length integer encoding ({bad}) is concatenated without its own length prefix: values with leading zero bytes give a "
                          "shorter string, the reader cannot find the field boundaries (fromString(toString()) fails / fingerprint differs)")
    ctx.floor("keys/fixed-width-fields", n_cat, 2, "concatenated NS payloads")
    # (2) general: what was read as a length-prefixed field (getNS / getMP) is cut further only by position: slices whose bounds do not depend on the
    #     content; content-dependent trimming (strip / split / replace / find-based bounds ...) of key material moves the field boundary with the key's value
    n_fields = 0
    for name, fn in km.items():
        fields = set()
        for st in ast.walk(fn):
            if isinstance(st, ast.Assign) and any(isinstance(c, ast.Call) and call_attr(c) in ("getNS", "getMP") for c in ast.walk(st.value)):
                fields |= {x.id for t in st.targets for x in ast.walk(t) if isinstance(x, ast.Name)}
        changed = True
        while changed:
            changed = False
            for st in ast.walk(fn):
                if isinstance(st, ast.Assign) and len(st.targets) == 1 and isinstance(st.targets[0], ast.Name) and st.targets[0].id not in fields \
                        and isinstance(st.value, (ast.Subscript, ast.Name)) and any(isinstance(x, ast.Name) and x.id in fields for x in ast.walk(st.value)):
                    fields.add(st.targets[0].id)
                    changed = True
        if not fields:
            continue

        def on_field(e):
            """e is a field or a positional cut of one"""
            while isinstance(e, ast.Subscript):
                e = e.value
            return isinstance(e, ast.Name) and e.id in fields
        for x in ast.walk(fn):
            if isinstance(x, ast.Call) and isinstance(x.func, ast.Attribute) and on_field(x.func.value):
                n_fields += 1
                if x.func.attr in _MODIFIERS - {"decode", "join"} or x.func.attr in ("find", "rfind", "index", "rindex"):
                    ctx.check(False, "keys/fixed-width-fields", f"{QK}{name} | {src(x)[:60]}",
                              f"a field read from a length-prefixed string is cut by its content ({src(x)[:60]}): where the cut falls depends on the key's value "
                              "(e.g. bytes.rstrip(x) removes every trailing byte whose value occurs in x), so some keys come back truncated / do not parse")
                else:
                    ctx.ok("keys/fixed-width-fields", f"{QK}{name} | {src(x)[:60]}")
            if isinstance(x, ast.Subscript) and isinstance(x.slice, ast.Slice) and on_field(x.value):
                n_fields += 1
                bounds = [b_ for b_ in (x.slice.lower, x.slice.upper) if b_ is not None]
                dep = [b_ for b_ in bounds if any(isinstance(c, ast.Call) and not (isinstance(c.func, ast.Name) and c.func.id in ("len", "int")) for c in ast.walk(b_))]
                ctx.check(not dep, "keys/fixed-width-fields", f"{QK}{name} | {src(x)[:60]}",
                          f"a field is cut at a position computed from its content ({src(dep[0])[:40] if dep else ''})")
    ctx.floor("keys/fixed-width-fields", n_fields, 5, "cuts of length-prefixed fields")


def _passphrase_passthrough(ctx):
    """A passphrase supplied as bytes reaches the KDF / cipher byte for byte: only the str branch of the normaliser may rewrite (normalise + encode) it."""
    from sa.props._lib_h import assigned_pairs, def_nodes, edge_path, stmts as cfg_stmts
    mod = ctx.mod(KY)
    kcls = ctx.cls(KY, "Key")
    # the functions a passphrase parameter is sent through: `passphrase = f(passphrase)` in a method of Key
    norms = set()
    n_sites = 0
    for name, fn in methods(kcls).items():
        pnames = {a.arg for a in fn.args.args if "passphrase" in a.arg.lower()}
        for st in statements(fn):
            if isinstance(st, ast.Assign) and isinstance(st.value, ast.Call) and isinstance(st.value.func, ast.Name) and len(st.value.args) == 1 \
                    and isinstance(st.value.args[0], ast.Name) and st.value.args[0].id in pnames:
                h = mod.find(st.value.func.id)
                if isinstance(h, ast.FunctionDef) and getattr(h, "_parent", None) is mod.tree:
                    norms.add(h.name)
        # outside those functions nothing rewrites the passphrase
        for c in ast.walk(fn):
            if isinstance(c, ast.Call) and isinstance(c.func, ast.Attribute) and isinstance(c.func.value, ast.Name) and c.func.value.id in pnames \
                    and c.func.attr in (_MODIFIERS | {"encode"}) - {"join"}:
                n_sites += 1
                ctx.check(False, "passphrase/bytes-pass-through", f"{QK}{name} | {src(c)[:50]}", f"{name} rewrites the passphrase ({src(c)[:50]}) on its way to the key derivation")
    ctx.need(norms, "the passphrase normaliser called as `passphrase = f(passphrase)`")
    for hname in sorted(norms):
        h = mod.find(hname)
        ctx.functions.add(f"{KY}:{hname}")
        p = h.args.args[0].arg
        g = ctx.cfg(h)
        q = f"twisted.conch.ssh.keys.{hname}"
        str_T = []
        for t in g.ids(lambda n: n.kind == "test"):
            e = g.node(t).ast
            neg = isinstance(e, ast.UnaryOp) and isinstance(e.op, ast.Not)
            e2 = e.operand if neg else e
            if isinstance(e2, ast.Call) and dotted(e2.func) == "isinstance" and len(e2.args) == 2 and src(e2.args[0]) == p and src(e2.args[1]) == "str":
                str_T.append((t, "F" if neg else "T"))
        ctx.need(str_T, f"{hname}: isinstance({p}, str) test")
        rets = cfg_stmts(g, lambda st: isinstance(st, ast.Return))
        for d in def_nodes(g, p):
            n_sites += 1
            on_bytes_path = edge_path(g, [g.entry], [d], avoid_edges=str_T) is not None and edge_path(g, [d], rets + [g.exit], avoid_edges=str_T) is not None
            ctx.check(not on_bytes_path, "passphrase/bytes-pass-through", ctx.construct(q, g.node(d).ast),
                      f"{hname} re-binds a passphrase that is not a str ({g.node(d).text()[:50]}): a bytes passphrase is an opaque secret and must reach the key derivation "
                      "byte for byte - decoding / normalising it makes keys protected with non-UTF-8 passphrases unreadable and unwritable")
        for r in rets:
            if edge_path(g, [g.entry], [r], avoid_edges=str_T) is None:
                continue
            n_sites += 1
            v = g.node(r).ast.value
            ctx.check(v is not None and src(v) in (p, f"bytes({p})"), "passphrase/bytes-pass-through", ctx.construct(q, g.node(r).ast),
                      f"for a passphrase that is not a str {hname} returns {src(v)[:40] if v is not None else None} instead of the passphrase itself")
    ctx.floor("passphrase/bytes-pass-through", n_sites, 1, "returns on the non-str path")


def _components_as_read(ctx):
    """The key constructed is made of the components that were read: no re-ordering / normalisation between the wire fields and the numbers objects,
    except where a format defines one in its own parser."""
    kcls = ctx.cls(KY, "Key")
    km = methods(kcls)
    n = 0
    for name, fn in km.items():
        if not (name.startswith("_from") and name.endswith("Components")):
            continue
        params = [a.arg for a in fn.args.args[1:]]
        g = ctx.cfg(fn)
        for st in statements(fn):
            tg = st.targets if isinstance(st, ast.Assign) else [st.target] if isinstance(st, (ast.AugAssign, ast.AnnAssign)) else []
            for x in [y for t in tg for y in ast.walk(t) if isinstance(y, ast.Name) and y.id in params]:
                n += 1
                ids = g.ids_of(st)
                filled = bool(ids) and any(isinstance(g.node(t_).ast, ast.Compare) and src(g.node(t_).ast) == f"{x.id} is None" and lab == "T" for t_, lab in g.edge_guards(ids[0]))
                ctx.check(filled, "keys/components-as-read", f"{QK}{name} | {src(st)[:60]}",
                          f"{name} re-binds its component `{x.id}` ({src(st)[:60]}) although a value was given: every parser that builds keys through it returns "
                          "components different from the ones it read (parsed key != serialised key; only a missing component may be derived)")
        for c in ast.walk(fn):
            if isinstance(c, ast.Call):
                for kw in c.keywords:
                    if kw.arg in params and isinstance(kw.value, ast.Name) and kw.value.id in params:
                        n += 1
                        ctx.check(kw.arg == kw.value.id, "keys/components-as-read", f"{QK}{name} | {src(c.func)}({kw.arg}=...)",
                                  f"component `{kw.value.id}` is handed to {src(c.func)} as `{kw.arg}`")
    # in the binary parsers a name bound from getMP / getNS is not bound again before it reaches the constructor
    for name, fn in km.items():
        if not name.startswith("_fromString_"):
            continue
        g = ctx.cfg(fn)
        for st in statements(fn):
            if isinstance(st, ast.Assign) and isinstance(st.value, ast.Call) and call_attr(st.value) == "getMP" and isinstance(st.targets[0], (ast.Tuple, ast.List)):
                for e in st.targets[0].elts[:-1]:
                    if not isinstance(e, ast.Name) or e.id == "_":
                        continue
                    n += 1
                    here = g.ids_of(st)
                    from sa.props._lib_h import def_nodes, edge_path
                    again = [d for d in def_nodes(g, e.id) if here and d != here[0] and edge_path(g, here, [d], strict=True) is not None
                             and not (isinstance(g.node(d).ast, ast.Assign) and isinstance(g.node(d).ast.value, ast.Call) and call_attr(g.node(d).ast.value) in ("getMP", "getNS"))]
                    ctx.check(not again, "keys/components-as-read", f"{QK}{name} | {e.id}",
                              f"the number read as `{e.id}` is re-bound ({g.node(again[0]).text()[:50] if again else ''}) before the key is built")
    ctx.floor("keys/components-as-read", n, 10, "component bindings")


# ---- provenance: the byte string handed to a binary parser is the caller's byte string ---------------------

_MODIFIERS = {"strip", "lstrip", "rstrip", "replace", "translate", "split", "rsplit", "splitlines", "decode", "lower", "upper", "expandtabs",
              "partition", "rpartition", "removeprefix", "removesuffix", "center", "ljust", "rjust", "zfill", "join"}


def _modifications(expr, name):
    """kinds of value-changing operations applied (directly or nested) to local ``name`` inside expr."""
    out = []
    for n in ast.walk(expr):
        if isinstance(n, ast.Call) and isinstance(n.func, ast.Attribute) and n.func.attr in _MODIFIERS \
                and any(isinstance(x, ast.Name) and x.id == name for x in ast.walk(n.func.value)):
            out.append("." + n.func.attr + "()")
        if isinstance(n, ast.Subscript) and any(isinstance(x, ast.Name) and x.id == name for x in ast.walk(n.value)) \
                and not any(isinstance(c, ast.Call) and call_attr(c) in ("getNS", "getMP") for c in ast.walk(n.value)):
            out.append("[" + src(n.slice) + "]")
    return out


def _parser_kind(fn):
    """'binary' when the parser feeds its data parameter straight into the length-prefixed readers (getNS / getMP / struct.unpack),
    'text' when it first goes through an armour / line / s-expression decoder; None when it does neither."""
    if len(fn.args.args) < 2:
        return None
    p = fn.args.args[1].arg
    raw = decoded = False
    for c in ast.walk(fn):
        if not isinstance(c, ast.Call) or not c.args:
            continue
        a0 = c.args[0]
        direct = isinstance(a0, ast.Name) and a0.id == p
        inside = any(isinstance(x, ast.Name) and x.id == p for x in ast.walk(a0))
        nm = call_attr(c)
        if nm in ("getNS", "getMP", "unpack") and direct:
            raw = True
        if nm in ("decodebytes", "b64decode", "parse", "load_pem_private_key", "load_ssh_public_key", "_fromPrivateOpenSSH_v1", "_fromPrivateOpenSSH_PEM") and inside:
            decoded = True
    for n in ast.walk(fn):
        if isinstance(n, ast.Call) and isinstance(n.func, ast.Attribute) and n.func.attr in ("splitlines", "split", "startswith") \
                and any(isinstance(x, ast.Name) and x.id == p for x in ast.walk(n.func.value)):
            decoded = True
    if raw and not decoded:
        return "binary"
    if decoded:
        return "text"
    return None


def _provenance(ctx):
    from sa.props._lib_h import edge_path, stmts as cfg_stmts, assigned_pairs
    kcls = ctx.cls(KY, "Key")
    km = methods(kcls)
    kinds = {n[len("_fromString_"):]: _parser_kind(fn) for n, fn in km.items() if n.startswith("_fromString_")}
    binary = sorted(k for k, v in kinds.items() if v == "binary")
    text = sorted(k for k, v in kinds.items() if v == "text")
    ctx.note(f"parser classes: binary={binary} text={text}")
    ctx.need(len(binary) >= 3 and len(text) >= 3 and None not in kinds.values(), f"classification of _fromString_* parsers ({kinds})")
    # (1) inside Key.fromString: every rebinding of the data parameter that can reach the dispatch
    f = ctx.func(KY, "Key.fromString")
    g = ctx.cfg(f)
    q = QK + "fromString"
    dp, tp = f.args.args[1].arg, f.args.args[2].arg
    mvars = {t.id for st in statements(f) if isinstance(st, ast.Assign) and isinstance(st.value, ast.Call) and dotted(st.value.func) == "getattr"
             and any("_fromString_" in src(_single_def(f, a)) for a in st.value.args) for t in st.targets if isinstance(t, ast.Name)}
    ctx.need(mvars, "fromString: method = getattr(cls, f'_fromString_{type.upper()}')")
    disp = g.find(lambda x: isinstance(x, ast.Call) and isinstance(x.func, ast.Name) and x.func.id in mvars)
    ctx.need(disp, "fromString: method(data ...) dispatch")

    def text_only_edges():
        """test edges on which the format is known to be a text format"""
        out = []
        for t in g.ids(lambda n: n.kind == "test"):
            e = g.node(t).ast
            if not (isinstance(e, ast.Compare) and len(e.ops) == 1 and src(e.left) in (tp, f"{tp}.lower()", f"{tp}.upper()")):
                continue
            r = e.comparators[0]
            vals = [r.value] if isinstance(r, ast.Constant) else [x.value for x in r.elts] if isinstance(r, (ast.Tuple, ast.List, ast.Set)) and all(isinstance(x, ast.Constant) for x in r.elts) else None
            if vals is None or not all(isinstance(v, str) for v in vals):
                continue
            up = {v.upper() for v in vals}
            if isinstance(e.ops[0], (ast.In, ast.Eq)) and up <= set(text):
                out.append((t, "T"))
            if isinstance(e.ops[0], (ast.NotIn, ast.NotEq)) and set(binary) <= up:
                out.append((t, "T"))
            if isinstance(e.ops[0], (ast.In, ast.Eq)) and set(binary) <= up:
                out.append((t, "F"))
        return out
    tedges = text_only_edges()
    n_sites = 0
    for n in cfg_stmts(g, lambda st: isinstance(st, (ast.Assign, ast.AugAssign, ast.AnnAssign))):
        st = g.node(n).ast
        pairs_ = assigned_pairs(st) if isinstance(st, (ast.Assign, ast.AnnAssign)) else [(st.target, st.value)]
        for t, v in pairs_:
            if not (isinstance(t, ast.Name) and t.id == dp):
                continue
            n_sites += 1
            if edge_path(g, [n], disp, strict=True) is None:
                continue
            mods = _modifications(v, dp) if v is not None else ["<unpacking>"]
            conv = isinstance(v, ast.Call) and call_attr(v) == "encode" and src(v.func.value) == dp
            if isinstance(st, ast.AugAssign):
                mods = mods or ["augmented assignment"]
            if conv:
                guarded = any(isinstance(g.node(t_).ast, ast.Call) and dotted(g.node(t_).ast.func) == "isinstance" and lab == "T" for t_, lab in g.edge_guards(n))
                ctx.check(guarded, "input/binary-formats-unmodified", ctx.construct(q, st), "the input is re-encoded without being known to be a str")
                continue
            if not mods and v is not None and src(v) in (dp, f"bytes({dp})"):
                ctx.ok("input/binary-formats-unmodified", ctx.construct(q, st))
                continue
            only_text = bool(tedges) and edge_path(g, [g.entry], [n], avoid_edges=tedges) is None
            ctx.check(only_text, "input/binary-formats-unmodified", ctx.construct(q, st),
                      f"fromString rewrites the key data ({', '.join(mods) or src(v)[:40]}) before dispatching to the parsers, also for the binary formats "
                      f"{binary}: a blob whose last byte happens to be 0x20 / 0x09-0x0d (or whatever the operation removes) loses it - the key fails to parse or "
                      "silently parses to a different key")
    for d in disp:
        for c in [x for x in ast.walk(g.node(d).ast) if isinstance(x, ast.Call) and isinstance(x.func, ast.Name) and x.func.id in mvars]:
            n_sites += 1
            a0 = c.args[0] if c.args else None
            if isinstance(a0, ast.Starred) and isinstance(a0.value, ast.Name):
                # the argument list is assembled in a local first: its first element is what the parser is handed, provided the list is only appended to
                lname = a0.value.id
                ldefs = [st for st in statements(f) if isinstance(st, ast.Assign) and any(isinstance(t, ast.Name) and t.id == lname for t in st.targets)]
                others = [x for x in ast.walk(f) if isinstance(x, ast.Name) and x.id == lname and isinstance(x.ctx, ast.Load) and x is not a0.value
                          and not (isinstance(x._parent, ast.Attribute) and x._parent.attr == "append" and isinstance(x._parent._parent, ast.Call))]
                if ldefs and all(isinstance(d_.value, (ast.List, ast.Tuple)) and d_.value.elts and not any(isinstance(e, ast.Starred) for e in d_.value.elts)
                                 for d_ in ldefs) and not others:
                    # every definition of the list puts the data first: judge each of them (the first that is not the plain parameter decides)
                    firsts = [d_.value.elts[0] for d_ in ldefs]
                    a0 = next((e for e in firsts if not (isinstance(e, ast.Name) and e.id == dp)), firsts[0])
                else:
                    ctx.note(f"input/binary-formats-unmodified: argument list {lname} of the parser call not recognised; clause left to roundtrip/ (bounded)")
                    continue
            mods = _modifications(a0, dp) if a0 is not None else ["<no data argument>"]
            ok = isinstance(a0, ast.Name) and a0.id == dp
            only_text = bool(tedges) and edge_path(g, [g.entry], [d], avoid_edges=tedges) is None
            ctx.check(ok or only_text, "input/binary-formats-unmodified", ctx.construct(q, c),
                      f"the parser is not handed the caller's byte string but {src(a0)[:50] if a0 is not None else '?'} ({', '.join(mods)}): binary formats {binary} lose bytes")
    ctx.floor("input/binary-formats-unmodified", n_sites, 2, "data rebinding / dispatch sites in fromString")
    # fromFile passes the file content on unchanged
    ff = ctx.func(KY, "Key.fromFile")
    for c in ast.walk(ff):
        if isinstance(c, ast.Call) and call_attr(c) == "fromString" and c.args:
            bad = [n.func.attr for n in ast.walk(c.args[0]) if isinstance(n, ast.Call) and isinstance(n.func, ast.Attribute) and n.func.attr in _MODIFIERS]
            ctx.check(not bad and not any(isinstance(n, ast.Subscript) for n in ast.walk(c.args[0])), "input/binary-formats-unmodified", ctx.construct(QK + "fromFile", c),
                      f"fromFile modifies the file content ({bad}) before parsing: binary key files lose bytes")
    # (2) at the head of each binary parser: the parameter reaches getNS / getMP unmodified
    for k in binary:
        fn = km["_fromString_" + k]
        ctx.functions.add(f"{KY}:Key._fromString_{k}")
        p = fn.args.args[1].arg
        qn = QK + "_fromString_" + k
        firsts = _ordered_calls(fn, ("getNS", "getMP"))
        ctx.need(firsts, f"_fromString_{k}: getNS/getMP")
        first = firsts[0]
        ok = isinstance(first.args[0], ast.Name) and first.args[0].id == p
        ctx.check(ok, "input/binary-formats-unmodified", f"{qn} | first field", f"the first length-prefixed field is read from {src(first.args[0])[:50]}, not from the raw parameter {p}")
        for st in ast.walk(fn):
            if isinstance(st, ast.Assign) and (st.lineno, st.col_offset) < (first.lineno, first.col_offset) and st.value is not first \
                    and not any(c is first for c in ast.walk(st.value)):
                mods = _modifications(st.value, p)
                if mods:
                    ctx.check(False, "input/binary-formats-unmodified", ctx.construct(qn, st),
                              f"the binary {k} parser trims / rewrites its input ({', '.join(mods)}) before reading the length-prefixed fields")


MUTANTS = [
    Mutant("ec-point-minimal-coordinates", KY, "                    + utils.int_to_bytes(data[\"x\"], byteLength)\n                    + utils.int_to_bytes(data[\"y\"], byteLength)\n",
           "                    + data[\"x\"].to_bytes((data[\"x\"].bit_length() + 7) // 8, \"big\")\n                    + data[\"y\"].to_bytes((data[\"y\"].bit_length() + 7) // 8, \"big\")\n",
           expect_rule="keys/fixed-width-fields"),
    Mutant("ec-point-y-width-dropped", KY, "                    + utils.int_to_bytes(data[\"y\"], byteLength)\n", "                    + utils.int_to_bytes(data[\"y\"])\n", expect_rule="keys/fixed-width-fields"),
    Mutant("ec-width-floor-instead-of-ceil", KY, "            byteLength = (self._keyObject.curve.key_size + 7) // 8\n", "            byteLength = self._keyObject.curve.key_size // 8\n", expect_rule="roundtrip/binary"),
    Mutant("dispatch-trims-trailing-whitespace", KY, "            if passphrase:\n                raise BadKeyError(\"key not encrypted\")\n            return method(data)\n",
           "            if passphrase:\n                raise BadKeyError(\"key not encrypted\")\n            return method(data.rstrip())\n", expect_rule="input/binary-formats-unmodified"),
    Mutant("hoisted-strip-for-all-formats", KY, "        passphrase = _normalizePassphrase(passphrase)\n        if type is None:\n            type = cls._guessStringType(data)\n",
           "        passphrase = _normalizePassphrase(passphrase)\n        data = data.strip(b\" \\t\\r\\n\")\n        if type is None:\n            type = cls._guessStringType(data)\n",
           expect_rule="input/binary-formats-unmodified"),
    Mutant("blob-parser-tolerates-trailing-newline", KY, "        keyType, rest = common.getNS(blob)\n        if keyType == b\"ssh-rsa\":\n            e, n, rest = common.getMP(rest, 2)",
           "        blob = blob.rstrip(b\"\\n\")\n        keyType, rest = common.getNS(blob)\n        if keyType == b\"ssh-rsa\":\n            e, n, rest = common.getMP(rest, 2)", expect_rule="input/binary-formats-unmodified"),
    Mutant("getNS-cursor-skips-prefix-only", CM, "        ns.append(s[c + 4 : 4 + l + c])\n        c += 4 + l\n", "        ns.append(s[c + 4 : 4 + l + c])\n        c += l\n", expect_rule="primitive/getNS"),
    Mutant("mp-sign-test-wrong-mask", CM, "    if ord(bn[0:1]) & 128:", "    if ord(bn[0:1]) > 128:", expect_rule="primitive/MP"),
    Mutant("ns-length-before-encoding", CM, "    if isinstance(t, str):\n        t = t.encode(\"utf-8\")\n    return struct.pack(\"!L\", len(t)) + t",
           "    n = len(t)\n    if isinstance(t, str):\n        t = t.encode(\"utf-8\")\n    return struct.pack(\"!L\", n) + t", expect_rule="primitive"),
    Mutant("getMP-little-endian", CM, "        mp.append(int.from_bytes(data[c + 4 : c + 4 + length], \"big\"))", "        mp.append(int.from_bytes(data[c + 4 : c + 4 + length], \"little\"))",
           expect_rule="primitive/getMP"),
    Mutant("private-blob-drops-ed25519", KY, "        elif type == \"Ed25519\":\n            return (\n                common.NS(b\"ssh-ed25519\")\n                + common.NS(data[\"a\"])\n                + common.NS(data[\"k\"] + data[\"a\"])\n            )\n        else:",
           "        elif type == \"Ed25519\":\n            return (\n                common.NS(b\"ssh-ed25519\")\n                + common.NS(data[\"k\"] + data[\"a\"])\n            )\n        else:", expect_rule="roundtrip/"),
    Mutant("reader-loses-dsa-branch", KY, "        elif keyType == b\"ssh-dss\":\n            p, q, g, y, x, rest = common.getMP(rest, 5)\n            return cls._fromDSAComponents(y=y, g=g, p=p, q=q, x=x)\n", "",
           expect_rule="roundtrip/"),
    Mutant("rsa-blob-components-swapped", KY, "            e, n, rest = common.getMP(rest, 2)", "            n, e, rest = common.getMP(rest, 2)", expect_rule="roundtrip/"),
    Mutant("agent-rsa-order", KY, "                    data[\"e\"],\n                    data[\"d\"],\n                    data[\"n\"],\n", "                    data[\"e\"],\n                    data[\"n\"],\n                    data[\"d\"],\n",
           expect_rule="roundtrip/binary"),
    Mutant("lsh-private-type-renamed", KY, "        elif sexp[1][0] == b\"rsa-pkcs1\":", "        elif sexp[1][0] == b\"rsa-pkcs1-sha1\":", expect_rule="roundtrip/lsh"),
    Mutant("v1-cipher-not-accepted", KY, "            cipherName = b\"aes256-ctr\"", "            cipherName = b\"aes256-cbc\"", expect_rule="roundtrip/openssh"),
    Mutant("v1-check-offset", KY, "        return cls._fromString_PRIVATE_BLOB(privKeyList[8:])", "        return cls._fromString_PRIVATE_BLOB(privKeyList[4:])", expect_rule="roundtrip/openssh"),
    Mutant("guess-misses-ed25519-blob", KY, "            or data.startswith(b\"\\x00\\x00\\x00\\x0bssh-ed25519\")\n", "", expect_rule="roundtrip/binary"),
    Mutant("curve-table-name", KY, "    b\"secp384r1\": b\"nistp384\",", "    b\"secp384r1\": b\"nistp-384\",", expect_rule="roundtrip/"),
    Mutant("blob-typo-component", KY, "            return common.NS(b\"ssh-rsa\") + common.MP(data[\"e\"]) + common.MP(data[\"n\"])", "            return common.NS(b\"ssh-rsa\") + common.MP(data[\"e\"]) + common.MP(data[\"N\"])",
           expect_rule="roundtrip/"),
    # the same faults must be caught by the structural / finite-exhaustive layer alone
    Mutant('s-getNS-cursor-skips-prefix-only', CM, '        ns.append(s[c + 4 : 4 + l + c])\n        c += 4 + l\n',
           '        ns.append(s[c + 4 : 4 + l + c])\n        c += l\n', expect_rule='s/primitive/offsets'),
    Mutant('s-reader-loses-dsa-branch', KY, '        elif keyType == b"ssh-dss":\n            p, q, g, y, x, rest = common.getMP(rest, 5)\n            return cls._fromDSAComponents(y=y, g=g, p=p, q=q, x=x)\n',
           '', expect_rule='s/keys/every-written-type-is-readable'),
    Mutant('s-rsa-blob-components-swapped', KY, '            e, n, rest = common.getMP(rest, 2)',
           '            n, e, rest = common.getMP(rest, 2)', expect_rule='s/keys/field-order'),
    Mutant('s-v1-cipher-not-accepted', KY, '            cipherName = b"aes256-ctr"',
           '            cipherName = b"aes256-cbc"', expect_rule='s/container/v1-cipher'),
    Mutant('s-v1-check-offset', KY, '        return cls._fromString_PRIVATE_BLOB(privKeyList[8:])',
           '        return cls._fromString_PRIVATE_BLOB(privKeyList[4:])', expect_rule='s/container/v1-check-words'),
    Mutant('s-guess-misses-ed25519-blob', KY, '            or data.startswith(b"\\x00\\x00\\x00\\x0bssh-ed25519")\n',
           '', expect_rule='s/dispatch/guess-recognises-written'),
    Mutant('s-curve-table-name', KY, '    b"secp384r1": b"nistp384",',
           '    b"secp384r1": b"nistp-384",', expect_rule='s/keys/type-tags'),
    # key material cut by content instead of by position; components normalised in the shared builder
    Mutant("ed25519-seed-cut-at-the-public-key", KY, "            k = combined[:32]\n", "            k = combined.split(a)[0]\n", expect_rule="keys/fixed-width-fields"),
    Mutant("ed25519-seed-cut-at-the-public-key-bounded", KY, "            k = combined[:32]\n", "            k = combined.rstrip(a)\n", expect_rule="roundtrip/"),
    Mutant("ed25519-seed-cut-at-found-offset", KY, "            k = combined[:32]\n", "            k = combined[: combined.rfind(a)]\n", expect_rule="keys/fixed-width-fields"),
    Mutant("rsa-builder-orders-the-primes", KY, "        publicNumbers = rsa.RSAPublicNumbers(e=e, n=n)\n", "        publicNumbers = rsa.RSAPublicNumbers(e=e, n=n)\n        if d is not None:\n            p, q = min(p, q), max(p, q)\n",
           expect_rule="keys/components-as-read"),
    Mutant("rsa-builder-orders-the-primes-bounded", KY, "        publicNumbers = rsa.RSAPublicNumbers(e=e, n=n)\n", "        publicNumbers = rsa.RSAPublicNumbers(e=e, n=n)\n        if d is not None:\n            p, q = min(p, q), max(p, q)\n",
           expect_rule="roundtrip/"),
    Mutant("getNS-named-offsets-skip-a-byte", CM, "        ns.append(s[c + 4 : 4 + l + c])\n        c += 4 + l\n", "        start = c + 4\n        end = start + l\n        ns.append(s[start:end])\n        c = end + 1\n",
           expect_rule="s/primitive/offsets"),
    Mutant("parser-arguments-collected-in-a-list-stripped", KY, '            return method(data)\n        else:\n            return method(data, passphrase)\n',
           '            arguments = [data.strip()]\n        else:\n            arguments = [data.strip(), passphrase]\n        return method(*arguments)\n', expect_rule="input/binary-formats-unmodified"),
    # a bytes passphrase is an opaque secret
    Mutant("bytes-passphrase-trimmed-by-the-normaliser", KY, '    else:\n        return passphrase\n\n\n', '    else:\n        return passphrase.strip() if passphrase else passphrase\n\n\n', expect_rule="passphrase/bytes-pass-through"),
    Mutant("bytes-passphrase-decoded-by-the-normaliser", KY, "    if isinstance(passphrase, str):\n        # The Normalization Process", "    if isinstance(passphrase, bytes):\n        passphrase = passphrase.decode(\"ascii\")\n    if isinstance(passphrase, str):\n        # The Normalization Process",
           expect_rule="roundtrip/openssh"),
]
SILENT = [
    Silent("ec-point-to_bytes-fixed-width", KY, "                    + utils.int_to_bytes(data[\"x\"], byteLength)\n                    + utils.int_to_bytes(data[\"y\"], byteLength)\n",
           "                    + data[\"x\"].to_bytes(byteLength, \"big\")\n                    + data[\"y\"].to_bytes(byteLength, \"big\")\n"),
    Silent("ec-width-inlined", KY, "            byteLength = (self._keyObject.curve.key_size + 7) // 8\n", "            fieldBits = self._keyObject.curve.key_size\n            byteLength = (fieldBits + 7) // 8\n"),
    Silent("strip-hoisted-for-text-formats-only", KY, "        if type is None:\n            raise BadKeyError(f\"cannot guess the type of {data!r}\")\n",
           "        if type is None:\n            raise BadKeyError(f\"cannot guess the type of {data!r}\")\n        if type.lower() in (\"public_openssh\", \"private_openssh\"):\n            data = data.strip()\n"),
    Silent("text-parser-strips-itself", KY, "        blob = decodebytes(data.split()[1])\n        return cls._fromString_BLOB(blob)", "        data = data.strip()\n        blob = decodebytes(data.split()[1])\n        return cls._fromString_BLOB(blob)"),
    Silent("getNS-slices-rewritten", CM, "        (l,) = struct.unpack(\"!L\", s[c : c + 4])\n        ns.append(s[c + 4 : 4 + l + c])\n        c += 4 + l\n",
           "        (l,) = struct.unpack(\">L\", s[c : 4 + c])\n        ns.append(s[4 + c : c + l + 4])\n        c += l + 4\n"),
    Silent("mp-mask-hex", CM, "    if ord(bn[0:1]) & 128:", "    if bn[0] >= 0x80:"),
    Silent("reader-elif-to-if-chain", KY, "        if keyType == b\"ssh-rsa\":\n            n, e, d, u, p, q, rest = common.getMP(rest, 6)\n            return cls._fromRSAComponents(n=n, e=e, d=d, p=p, q=q)\n        elif keyType == b\"ssh-dss\":",
           "        if b\"ssh-rsa\" == keyType:\n            n, e, d, u, p, q, rest = common.getMP(rest, 6)\n            return cls._fromRSAComponents(n=n, e=e, d=d, p=p, q=q)\n        if keyType == b\"ssh-dss\":"),
    Silent("ed25519-seed-width-named", KY, "            k = combined[:32]\n", "            seedLength = 32\n            k = combined[:seedLength]\n"),
    Silent("ed25519-strings-cut-positionally", KY, "            a, combined, rest = common.getNS(rest, 2)\n            k = combined[:32]\n", "            a, combined = common.getNS(rest, 2)[:2]\n            k = combined[0:32]\n"),
    Silent("getNS-named-offsets", CM, "        ns.append(s[c + 4 : 4 + l + c])\n        c += 4 + l\n", "        start = c + 4\n        end = start + l\n        ns.append(s[start:end])\n        c = end\n"),
    Silent("parser-arguments-collected-in-a-list", KY, '            return method(data)\n        else:\n            return method(data, passphrase)\n',
           '            arguments = [data]\n        else:\n            arguments = [data, passphrase]\n        return method(*arguments)\n'),
    Silent("normaliser-with-the-str-test-inverted", KY, "    if isinstance(passphrase, str):\n        # The Normalization Process", "    if not isinstance(passphrase, str):\n        return passphrase\n    if True:\n        # The Normalization Process"),
]
