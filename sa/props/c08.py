"""C08 - Reactor timed calls run once, on time, in time order (ReactorBase / DelayedCall)."""
from __future__ import annotations

import ast
import heapq
import itertools

from sa.astx import call_name, dotted, src, walk_local
from sa.effects import accesses, class_accesses
from sa.selftest import Mutant, Silent
from sa.source import methods
from sa.props._lib_b import (Normaliser, check_equality_is_identity, equality_locator_sites, MiniBudget, MiniEval, MiniRaise, Unsupported, check_delayed_call, intra_class_calls, public_api_effects, lin_cmp, lin_cmp_text, lin_eq, linform,
                              model_class, resolve_locals, swallowing_predicate, lin_text)

PROPERTY = "C08"
BASE = "internet/base.py"
MODNAME = "twisted.internet.base"
R = MODNAME + ".ReactorBase"
DC = MODNAME + ".DelayedCall"
HEAP, NEW, CANC = "_pendingTimedCalls", "_newTimedCalls", "_cancellations"
TECHNIQUE = "who-may-write closure, CFG dominance/must-pass, symbolic linear paths; model heaps as second layer"
RULE_KINDS = {
    "*": "structural",
    # whole finite domain of the inspected quantity, with the domain argument checked on the code (see the obligation detail)
    "heap/compaction-keeps-live-calls": "finite-exhaustive", "timeout/clamp-form": "finite-exhaustive",
    # source interpreted on enumerated but bounded model inputs
    "model/": "bounded", "heap/resetter-restores-order": "bounded", "timeout/bounded-by-earliest-call": "bounded",
    "getDelayedCalls/exactly-pending": "bounded",
}
EXPLANATION = (
    "Structural deciders (for-all): heap ownership - who-may-write by operation kind closed over the intra-class call graph "
    "(only heappush/heappop/heapify/plain sort, a re-bind always followed by heapify, subscript stores only in the resetter); "
    "who-may-mutate through the public API (no public method nor the canceller/resetter reachable from user code moves staged "
    "calls into the heap); DelayedCall key discipline by symbolic linear evaluation of EVERY path of reset/delay/activate_delay "
    "(effective-time equations, the key `time` changes only under a guard proving a decrease and is followed by resetter(self), "
    "delayed_time >= 0 otherwise), __lt__/__le__/getTime as linear normal forms, cancel() marks and notifies on every live path; "
    "callLater wiring (def-use); runUntilCurrent and _insertNewDelayedCalls by CFG dominance / must-pass with exception edges "
    "(exact boundary head.time <= now as a normal form, not-cancelled and not-delayed dominate the call-out, popped and marked "
    "before the call, isolated by a log-and-continue context, every popped live call run or re-pushed with its delay folded in, "
    "loop re-examined after each call, new calls inserted before the loop only, staging list drained and cleared, _cancellations "
    "coupled, compaction followed by heapify); timeout() inserts first and reads only the head's key.  Finite-exhaustive: the "
    "compaction filter over the whole domain of `cancelled` (element-wise shape checked); timeout()'s clamp as a max/min selection "
    "over d = head.time - seconds() evaluated on every order class of d against its constants (0 <= result <= max(0, d)).  "
    "Bounded evidence only: 'the resetter restores heap order' (sift-up evaluated on every valid heap of up to 7 calls x position "
    "x decreased key - a for-all proof needs a loop invariant over unbounded heaps, out of reach of these rule kinds; the "
    "structural part is that only the resetter may store by subscript); second layers on model reactors for timeout() with "
    "postponed heads and getDelayedCalls() (whose structural part is only 'consults both lists and the cancelled flag').  "
    "Not decided: wall-clock timeliness, float rounding, reactor-specific doIteration loops."
)
ASSUMPTIONS = [
    "heapq implements a binary min-heap over __lt__ (stdlib)",
    "delays passed to callLater are non-negative (property quantifier)",
    "DelayedCall objects are only created by callLater / Clock.callLater with the argument order of DelayedCall.__init__",
]


def _self_attr(node, name):
    return isinstance(node, ast.Attribute) and node.attr == name and isinstance(node.value, ast.Name) and node.value.id == "self"


def _is_call(x, name):
    return isinstance(x, ast.Call) and (dotted(x.func) or "").split(".")[-1] == name


NORM = None


def _heap_aliases(f):
    """Locals bound to the timer heap (`heap = self._pendingTimedCalls`)."""
    names = set()
    for st in ast.walk(f):
        if isinstance(st, ast.Assign) and len(st.targets) == 1 and isinstance(st.targets[0], ast.Name) and _self_attr(st.value, HEAP):
            names.add(st.targets[0].id)
    return names


def _alias_guard(g, names):
    """A local alias of the heap is stale after the heap attribute is re-bound: refuse to reason about such uses."""
    if not names:
        return
    rebinds = g.ids(lambda n: n.kind == "stmt" and isinstance(n.ast, ast.Assign) and any(_self_attr(t, HEAP) for t in n.ast.targets))
    if not rebinds:
        return
    uses = g.find(lambda x: isinstance(x, ast.Name) and x.id in names and isinstance(x.ctx, ast.Load))
    for u in uses:
        if g.path(rebinds, [u], strict=True) is not None:
            raise Unsupported(f"{g.name}: a local alias of the timer heap is used after the heap attribute was re-bound")


def _is_heap(x, aliases):
    return _self_attr(x, HEAP) or (isinstance(x, ast.Name) and x.id in aliases)


# =============================================================================== heap ownership
def _check_ownership(ctx, mod, cls):
    acc = class_accesses(mod, cls, {HEAP, NEW, CANC}, receivers={"self"})
    ms = methods(cls)
    cl = ms.get("callLater")
    ctx.need(cl is not None, "ReactorBase.callLater")
    # functions reachable from callLater through self-calls must not touch the heap
    reach, todo = set(), ["callLater"]
    while todo:
        n = todo.pop()
        if n in reach or n not in ms:
            continue
        reach.add(n)
        for c in ast.walk(ms[n]):
            if isinstance(c, ast.Call) and (call_name(c) or "").startswith("self.") and call_name(c).count(".") == 1:
                todo.append(call_name(c)[5:])
    sift = set()
    for a in acc:
        fn = a.func.split(".", 1)[1]
        top = fn.split(".")[0]
        c = ctx.construct(f"{MODNAME}.{a.func}", a.node)
        if a.attr == HEAP:
            if top in reach:
                ctx.violation("heap/callLater-stages-only", c, "callLater (or a helper it calls) modifies the timer heap directly: a call "
                              "scheduled from inside a running call could run in the same iteration")
                continue
            if top == "__init__":
                ctx.check(a.kind in ("assign", "rebind-empty"), "heap/ownership", c, f"unexpected {a.kind} of the heap in __init__")
            elif a.kind in ("heappush", "heappop", "heapify") or (a.kind == "sort" and isinstance(a.node, ast.Call) and not a.node.args and not a.node.keywords):
                ctx.ok("heap/ownership", c, "a list sorted ascending by __lt__ is a valid heap" if a.kind == "sort" else "")
            elif a.kind == "assign":
                ctx.ok("heap/ownership", c, "re-bind: must be followed by heapify (rule heap/compaction)")
            elif a.kind == "setitem":
                sift.add(top)
                ctx.ok("heap/ownership", c, "subscript store: validated by model evaluation of the resetter")
            else:
                ctx.violation("heap/ownership", c, f"operation of kind '{a.kind}' on the timer heap breaks the heap invariant "
                              "(only heappush / heappop / heapify / the resetter's sift-up may modify it)")
        elif a.attr == NEW:
            if top == "__init__":
                ctx.check(a.kind in ("assign", "rebind-empty"), "staging/ownership", c, "unexpected operation in __init__")
            elif a.kind == "append":
                ctx.ok("staging/ownership", c)
            elif a.kind in ("rebind-empty", "clear", "assign"):
                ctx.check(top == "_insertNewDelayedCalls", "staging/ownership", c,
                          "the staging list of new calls is reset outside _insertNewDelayedCalls: calls scheduled but not yet inserted are lost")
            else:
                ctx.violation("staging/ownership", c, f"operation of kind '{a.kind}' on the staging list of new calls")
    ctx.floor("heap/ownership", len([a for a in acc if a.attr == HEAP]), 6)
    return acc, sift


def _helper_pushes(ctx, cls, name):
    """Does ReactorBase.<name>(x) push x on the timer heap on every path, and fold the delay into the key first?
    -> None | {"activate": bool}"""
    ms = methods(cls)
    f = ms.get(name)
    if f is None:
        return None
    ps = [a.arg for a in f.args.args][1:]
    if len(ps) != 1:
        return None
    g = ctx.cfg(f)
    al = _heap_aliases(f)
    pushes = g.find(lambda x: _is_call(x, "heappush") and len(x.args) == 2 and _is_heap(x.args[0], al) and src(x.args[1]) == ps[0])
    if not pushes or g.must_pass([g.entry], pushes, exc=False) is not None:
        return None
    acts = g.find(lambda x: isinstance(x, ast.Call) and isinstance(x.func, ast.Attribute) and x.func.attr == "activate_delay" and src(x.func.value) == ps[0])
    return {"activate": bool(acts) and g.path([g.entry], pushes, avoid=acts) is None and g.path(pushes, acts, strict=True) is None}


def _push_sites(ctx, cls, g, al, var):
    """CFG nodes that put `var` (back) on the heap: heappush(heap, var) or self.<helper>(var)."""
    direct = g.find(lambda x: _is_call(x, "heappush") and len(x.args) == 2 and _is_heap(x.args[0], al) and src(x.args[1]) == var)
    via = {}
    for n in g.find(lambda x: isinstance(x, ast.Call) and (call_name(x) or "").startswith("self.") and call_name(x).count(".") == 1
                    and len(x.args) == 1 and not x.keywords and src(x.args[0]) == var):
        for x in walk_local(g.node(n).ast):
            if isinstance(x, ast.Call) and (call_name(x) or "").startswith("self.") and len(x.args) == 1 and src(x.args[0]) == var:
                h = _helper_pushes(ctx, cls, call_name(x)[5:])
                if h is not None:
                    via[n] = h
    return direct, via


def _inserters(cls):
    """Names of the methods whose call moves staged calls into the heap: _insertNewDelayedCalls and the private helpers
    that (transitively) call it."""
    graph = intra_class_calls(cls)
    names = {"_insertNewDelayedCalls"} & set(graph)
    changed = True
    while changed:
        changed = False
        for m, tg in graph.items():
            if m not in names and m.startswith("_") and not m.startswith("__") and tg & names:
                names.add(m)
                changed = True
    return names


def _is_insert_call(x, names):
    return isinstance(x, ast.Call) and (call_name(x) or "").startswith("self.") and call_name(x)[5:] in names


def _heap_ok(h):
    return all(not (h[i] < h[(i - 1) // 2]) for i in range(1, len(h)))


def _check_resetter(ctx, mod, cls, Elem, name):
    """Finite model evaluation of the sift-up: every heap of up to 7 calls, every position, every decreased key."""
    f = ctx.func(BASE, f"ReactorBase.{name}")
    q = f"{R}.{name}"
    params = [a.arg for a in f.args.args][1:]
    ctx.need(len(params) == 1, f"{q}(self, delayedCall)")
    Reactor = model_class(cls, "ReactorModel")
    MiniEval.GLOBALS = {"heappush": heapq.heappush, "heappop": heapq.heappop, "heapify": heapq.heapify, "ValueError": ValueError}
    bad = None
    runs = 0
    shapes = []
    for n in range(1, 8):
        keys = [2 * i + 2 for i in range(n)]
        for perm in itertools.permutations(keys):
            if all(perm[(i - 1) // 2] <= perm[i] for i in range(1, n)):
                shapes.append(list(perm))
        shapes.append([2 * (i // 2) + 2 for i in range(n)])
        shapes.append([2 * ((i + 1) // 2) + 2 for i in range(n)])
    try:
        for times in shapes:
            for pos in range(len(times)):
                for new in sorted({0, times[pos] - 1, times[pos], times[(pos - 1) // 2] if pos else times[0]} | set(times)):
                    if new > times[pos]:
                        continue
                    heap = [Elem(time=t, delayed_time=0.0) for t in times]
                    before = list(heap)
                    heap[pos].time = new
                    r = Reactor(**{HEAP: heap})
                    MiniEval.budget = 0
                    MiniEval.call(f, (r, before[pos]), {})
                    runs += 1
                    h = getattr(r, HEAP)
                    if sorted(map(id, h)) != sorted(map(id, before)):
                        bad = f"heap contents changed: times {times}, element {pos} moved to key {new}"
                    elif not _heap_ok(h):
                        bad = (f"heap property broken: times {times}, element {pos} moved to key {new} gives "
                               f"{[e.time for e in h]}")
                    if bad:
                        break
                if bad:
                    break
            if bad:
                break
        if not bad:
            # a call that is not (yet) in the heap: nothing to do, must not raise
            heap = [Elem(time=t, delayed_time=0.0) for t in (1, 2, 3)]
            r = Reactor(**{HEAP: heap})
            MiniEval.budget = 0
            MiniEval.call(f, (r, Elem(time=0, delayed_time=0.0)), {})
            if [e.time for e in getattr(r, HEAP)] != [1, 2, 3]:
                bad = "a call still in the staging list disturbs the heap"
    except MiniBudget:
        bad = "the sift-up does not terminate on a model heap"
    except (MiniRaise, ValueError, IndexError, TypeError, AttributeError) as e:
        bad = f"the resetter raises {type(e).__name__}: {e}"
    ctx.check(bad is None, "heap/resetter-restores-order", q, f"after a call's key decreased the resetter does not restore the heap: {bad}",
              detail=f"{runs} model heaps")
    ctx.extra["resetter_model_runs"] = runs


# =============================================================================== callLater
def _check_call_later(ctx, mod, cls, sift):
    f0 = ctx.func(BASE, "ReactorBase.callLater")
    f, understood, vnotes = NORM.view(f0)
    for n_ in vnotes:
        ctx.note("callLater: " + n_)
    q = R + ".callLater"
    g = ctx.cfg(f)
    ctors = [c for c in ast.walk(f) if _is_call(c, "DelayedCall")]
    ctx.check(len(ctors) == 1, "callLater/creates-one-call", q, f"callLater constructs {len(ctors)} DelayedCall objects")
    if len(ctors) != 1:
        return None, None
    c = ctors[0]
    ctx.need(not any(isinstance(a, ast.Starred) for a in c.args) and all(k.arg for k in c.keywords), "DelayedCall(...) with explicit arguments")
    init = ctx.func(BASE, "DelayedCall.__init__")
    names = [a.arg for a in init.args.args][1:]
    bound = {}
    for i, a in enumerate(c.args):
        if i < len(names):
            bound[names[i]] = a
    for k in c.keywords:
        if k.arg:
            bound[k.arg] = k.value
    bound = {k: resolve_locals(f, v) for k, v in bound.items()}    # named temporaries
    prm = [a.arg for a in f.args.args][1:]
    ctx.need(len(prm) >= 2 and f.args.vararg and f.args.kwarg, "callLater(self, delay, callable, *args, **kw)")
    t = linform(bound.get("time")) if bound.get("time") is not None else None
    ctx.check(t is not None and lin_eq(t, ({"self.seconds()": 1, prm[0]: 1}, 0)), "callLater/time", ctx.construct(q, bound.get("time")),
              f"the call is scheduled for `{src(bound.get('time'))}` instead of self.seconds() + {prm[0]}")
    want = {"func": prm[1], "args": f.args.vararg.arg, "kw": f.args.kwarg.arg, "seconds": "self.seconds"}
    for k, v in want.items():
        ctx.check(k in bound and src(bound[k]) == v, "callLater/wiring", f"{q} | {k}",
                  f"DelayedCall is created with {k}={src(bound.get(k)) or '<default>'} instead of {v}"
                  + (" (reset() would read a different clock than the reactor's)" if k == "seconds" else ""))
    canc = dotted(bound.get("cancel")) if bound.get("cancel") is not None else None
    rst = dotted(bound.get("reset")) if bound.get("reset") is not None else None
    ms = methods(cls)
    ok = bool(canc) and canc.startswith("self.") and canc[5:] in ms
    ctx.check(ok, "callLater/wiring", q + " | cancel", f"the canceller passed to DelayedCall is `{canc}`, not a ReactorBase method")
    ok2 = bool(rst) and rst.startswith("self.") and rst[5:] in ms
    ctx.check(ok2, "callLater/wiring", q + " | reset", f"the resetter passed to DelayedCall is `{rst}`, not a ReactorBase method")
    # the new call is staged and returned on every path
    local = None
    for st in ast.walk(f):
        if isinstance(st, ast.Assign) and st.value is c and isinstance(st.targets[0], ast.Name):
            local = st.targets[0].id
    apps = g.find(lambda x: isinstance(x, ast.Call) and isinstance(x.func, ast.Attribute) and x.func.attr == "append" and _self_attr(x.func.value, NEW)
                  and len(x.args) == 1 and ((local and src(x.args[0]) == local) or x.args[0] is c))
    wit = g.must_pass(g.ids_of(c), apps, exc=False)
    if not apps and not understood:
        ctx.need(False, "the append to the staging list in callLater (a private helper it calls could not be read as inlined)")
    ctx.check(bool(apps) and wit is None, "callLater/staged", q, "the new call is not appended to the staging list on every path: it never runs",
              witness=g.describe(wit))
    rets = [s for s in ast.walk(f) if isinstance(s, ast.Return)]
    ctx.check(bool(rets) and all(s.value is not None and (src(s.value) == local or s.value is c) for s in rets), "callLater/returns-call", q,
              "callLater does not return the DelayedCall it scheduled")
    return (canc[5:] if ok else None), (rst[5:] if ok2 else None)


# =============================================================================== _insertNewDelayedCalls
def _cancelled_guard(g, n, var):
    """Polarity of the dominating test `<var>.cancelled` for node n, or None."""
    for t, lab in g.edge_guards(n):
        if src(g.node(t).ast) == f"{var}.cancelled":
            return lab == "T"
    return None


def _dec_sites(g):
    return g.ids(lambda n: n.kind == "stmt" and isinstance(n.ast, ast.AugAssign) and _self_attr(n.ast.target, CANC))


def _insert_model(ctx, cls, f, q):
    """Bounded twin of the insert/* rules: _insertNewDelayedCalls evaluated on model reactors."""
    dcls = ctx.cls(BASE, "DelayedCall")
    Elem = model_class(dcls, "DelayedCallModel")
    Reactor = model_class(cls, "ReactorModel")
    bad = None
    n = 0
    try:
        for old_times in ([], [1], [1, 3, 2]):
            for news in ([], [(5, 0, 0)], [(0, 0, 1)], [(2, 0, 0), (0, 0, 1), (4, 1.5, 0), (1, 0, 1), (0, 0, 0)]):
                heap = [Elem(time=t, delayed_time=0.0, cancelled=0, called=0) for t in old_times]
                staged = [Elem(time=t, delayed_time=float(d), cancelled=cn, called=0) for t, d, cn in news]
                ncanc = sum(1 for e in staged if e.cancelled)
                r = Reactor(**{HEAP: heap, NEW: list(staged), CANC: ncanc + 2})
                keep = list(heap)
                MiniEval.budget = 0
                MiniEval.call(f, (r,), {})
                n += 1
                h = getattr(r, HEAP)
                want = sorted(map(id, keep + [e for e in staged if not e.cancelled]))
                if sorted(map(id, h)) != want:
                    bad = f"staged calls (time, delay, cancelled) {news}: the heap afterwards holds {len(h)} calls instead of {len(want)}"
                elif not all(not (h[i].time < h[(i - 1) // 2].time) for i in range(1, len(h))):
                    bad = f"staged calls {news}: the heap property is broken afterwards"
                elif len(getattr(r, NEW)) != 0:
                    bad = f"staged calls {news}: the staging list is not empty afterwards (the calls are inserted again next time)"
                elif getattr(r, CANC) != 2:
                    bad = f"staged calls {news}: _cancellations changed by {getattr(r, CANC) - ncanc - 2} instead of -{ncanc}"
                if bad:
                    break
            if bad:
                break
    except MiniBudget:
        bad = "does not terminate on a model reactor"
    except MiniRaise as e:
        bad = f"raises {e}"
    except (AttributeError, TypeError, NameError, ValueError, IndexError) as e:
        raise Unsupported(f"{q}: model evaluation failed ({type(e).__name__}: {e})")
    ctx.check(bad is None, "model/insert-moves-live-calls", q,
              f"_insertNewDelayedCalls does not move exactly the uncancelled staged calls into the heap: {bad}", detail=f"{n} model reactors")


def _check_insert(ctx, mod, cls):
    f0 = ctx.func(BASE, "ReactorBase._insertNewDelayedCalls")
    f, understood, vnotes = NORM.view(f0)
    for n_ in vnotes:
        ctx.note("_insertNewDelayedCalls: " + n_)
    q = R + "._insertNewDelayedCalls"
    g = ctx.cfg(f)
    loops = g.ids(lambda n: n.kind == "for")
    heads = []
    pre_alias = {}
    for st in ast.walk(f):
        if isinstance(st, ast.Assign):
            tg, vl = st.targets[0], st.value
            if isinstance(tg, ast.Tuple) and isinstance(vl, ast.Tuple) and len(tg.elts) == len(vl.elts):
                for a, b in zip(tg.elts, vl.elts):
                    if isinstance(a, ast.Name) and _self_attr(b, NEW):
                        pre_alias[a.id] = st
            elif isinstance(tg, ast.Name) and _self_attr(vl, NEW):
                pre_alias[tg.id] = st
    for l in loops:
        it = g.node(l).ast.iter
        if _self_attr(it, NEW) or (isinstance(it, ast.Name) and it.id in pre_alias):
            heads.append(l)
        elif isinstance(it, ast.Call) and dotted(it.func) in ("list", "tuple") and len(it.args) == 1 and _self_attr(it.args[0], NEW):
            heads.append(l)
        elif isinstance(it, ast.Subscript) and _self_attr(it.value, NEW) and isinstance(it.slice, ast.Slice) and not (it.slice.lower or it.slice.upper or it.slice.step):
            heads.append(l)
    _insert_model(ctx, cls, f0, q)
    if not heads and (loops or g.find(lambda x: _is_call(x, "heappush"))):
        ctx.note("insert/*: loop over the staging list not recognised (e.g. a filtered copy is iterated), clauses left to model/insert-moves-live-calls")
        return
    ctx.check(len(heads) == 1, "insert/drains-staging-list", q, "no single loop over every call of the staging list")
    if len(heads) != 1:
        return
    head = heads[0]
    loop = g.node(head).ast
    ctx.need(isinstance(loop.target, ast.Name), "loop variable of the staging loop")
    var = loop.target.id
    body_start = [d for d, l in g.succ[head] if l == "iter"]
    al = _heap_aliases(f)
    _alias_guard(g, al)
    direct, via = _push_sites(ctx, cls, g, al, var)
    pushes = sorted(set(direct) | set(via))
    decs = [d for d in _dec_sites(g) if isinstance(g.node(d).ast.op, ast.Sub) and src(g.node(d).ast.value) == "1"]
    for p in pushes:
        ctx.check(_cancelled_guard(g, p, var) is False, "insert/skips-cancelled", ctx.construct(q, g.node(p).ast),
                  "a call cancelled before insertion is pushed on the heap although its cancellation was (or will not be) counted")
    for d in decs:
        ctx.check(_cancelled_guard(g, d, var) is True, "cancellations/coupled", ctx.construct(q, g.node(d).ast),
                  "_cancellations is decremented for a call that is not a dropped cancelled call")
    dropped = [d for d in decs if _cancelled_guard(g, d, var) is True]
    wit = g.path(body_start, [head, g.exit], avoid=set(pushes) | set(dropped), edge_ok=lambda a, b, l: l != "exc")
    ctx.check(wit is None, "insert/every-call-pushed", q + " | <loop body>",
              "a staged call can pass through the loop without being pushed on the heap (it never runs) or, if cancelled, without "
              "its cancellation being un-counted", witness=g.describe(wit))
    # break out of the loop would leave calls behind *and* clear them
    brk = g.path(body_start, [g.exit], avoid=[head], edge_ok=lambda a, b, l: l != "exc")
    ctx.check(brk is None, "insert/drains-staging-list", q + " | <early exit from the loop>", "the loop can stop before all staged calls are inserted",
              witness=g.describe(brk))
    # the staging list is cleared once the calls are in the heap (else they are inserted twice and run twice)
    acc = accesses(f, "ReactorBase._insertNewDelayedCalls", {NEW}, {"self"})
    resets = [n for a in acc if a.kind in ("rebind-empty", "clear") or (a.kind == "assign" and a.node in pre_alias.values())
              for n in g.ids_of(a.node)]

    def nonempty_edge(a, b, l):
        if l == "exc":
            return False
        n = g.node(a)
        if n.kind == "test" and l == "F" and (src(n.ast) in (f"self.{NEW}", f"len(self.{NEW})") or (
                isinstance(n.ast, ast.Name) and n.ast.id in pre_alias) or (
                isinstance(n.ast, ast.Call) and dotted(n.ast.func) == "len" and n.ast.args and isinstance(n.ast.args[0], ast.Name)
                and n.ast.args[0].id in pre_alias)):
            return False
        return True
    wit = g.path([g.entry], [g.exit], avoid=resets, edge_ok=nonempty_edge)
    ctx.check(bool(resets) and wit is None, "insert/clears-staging-list", q,
              "the staging list is not cleared after its calls were pushed: they are pushed again next time and run twice",
              witness=g.describe(wit))
    for r in resets:
        if isinstance(loop.iter, ast.Name):
            # iterating a captured alias: clearing is fine once the alias holds the list, but not inside the loop
            al = [n for n in g.ids_of(pre_alias[loop.iter.id])]
            inside = g.path([r], [head], strict=True) is not None and g.path([head], [r], strict=True) is not None   # on the loop's cycle
            before = g.path([g.entry], [r], avoid=al) is not None and r not in al
        else:
            inside = g.path([r], [head], strict=True) is not None
            before = False
        ctx.check(not inside and not before, "insert/clears-staging-list", ctx.construct(q, g.node(r).ast),
                  "the staging list is cleared before/while it is iterated: staged calls are lost")
    # activate_delay only on calls that are outside the heap (here: the loop variable, before the push)
    for a in g.find(lambda x: isinstance(x, ast.Call) and isinstance(x.func, ast.Attribute) and x.func.attr == "activate_delay"):
        call = next(x for x in walk_local(g.node(a).ast) if isinstance(x, ast.Call) and isinstance(x.func, ast.Attribute) and x.func.attr == "activate_delay")
        ok = src(call.func.value) == var and g.path([p for p in pushes], [a], avoid=[head], strict=True) is None
        ctx.check(ok, "key/activate-outside-heap", ctx.construct(q, call), "activate_delay() changes the key of a call that is already in the heap")


# =============================================================================== runUntilCurrent
def _check_run(ctx, mod, cls, Elem):
    f0 = ctx.func(BASE, "ReactorBase.runUntilCurrent")
    f, understood, vnotes = NORM.view(f0)
    for n_ in vnotes:
        ctx.note("runUntilCurrent: " + n_)
    q = R + ".runUntilCurrent"
    g = ctx.cfg(f, swallowing=swallowing_predicate(mod, f, cls))
    al = _heap_aliases(f)
    _alias_guard(g, al)
    pops = g.find(lambda x: _is_call(x, "heappop") and x.args and _is_heap(x.args[0], al))
    if not pops and not understood:
        ctx.need(False, "the heappop of runUntilCurrent (a private helper it calls could not be read as inlined)")
    ctx.check(len(pops) == 1, "run/pops-head", q, f"{len(pops)} heappop sites on the timer heap (exactly one expected)")
    if len(pops) != 1:
        return
    pop = pops[0]
    pst = g.node(pop).ast
    ctx.need(isinstance(pst, ast.Assign) and isinstance(pst.targets[0], ast.Name), "`call = heappop(...)`")
    var = pst.targets[0].id
    # ---- new calls are inserted before, never during, the run loop
    inames = _inserters(cls)
    ins = g.find(lambda x: _is_insert_call(x, inames))
    ctx.check(bool(ins) and all(g.dominates(i, pop) for i in ins[:1]) and g.must_precede(ins, [pop]) is None, "run/inserts-new-calls-first", q,
              "pending calls are run without first inserting the newly scheduled ones (a due call is skipped this iteration)")
    for i in ins:
        ctx.check(g.path([pop], [i]) is None, "run/no-insert-during-loop", ctx.construct(q, g.node(i).ast),
                  "new calls are inserted while due calls are being run: a call scheduled by a running call runs in the same iteration")
    # ---- loop boundary: head.time <= now, heap non-empty
    now_alias = {}
    for st in ast.walk(f):
        if isinstance(st, ast.Assign) and isinstance(st.targets[0], ast.Name) and src(st.value) == "self.seconds()":
            now_alias[st.targets[0].id] = ({"self.seconds()": 1}, 0)
    guards = g.edge_guards(pop)
    nonempty = any(_is_heap(g.node(t).ast, al) and lab == "T" for t, lab in guards)
    for a in al:
        now_alias[f"{a}[0].time"] = ({f"self.{HEAP}[0].time": 1}, 0)
    ctx.check(nonempty, "run/loop-boundary", q + " | <heap non-empty>", "heappop is not guarded by a non-empty heap")
    want = (frozenset({("self.seconds()", 1), (f"self.{HEAP}[0].time", -1)}), 0, False)
    nfs = []
    for t, lab in guards:
        nf = lin_cmp(g.node(t).ast, now_alias, negate=(lab == "F"))
        if nf is not None:
            nfs.append((nf, t))
    hit = [t for nf, t in nfs if nf == want]
    near = [(nf, t) for nf, t in nfs if nf != want]
    ctx.check(bool(hit), "run/loop-boundary", ctx.construct(q, g.node(near[0][1]).ast) if near and not hit else q + " | <head.time <= now>",
              "a call is popped under the condition `" + (lin_cmp_text(near[0][0]) if near else "<none>") + "` instead of "
              "`now - head.time >= 0`: a call due exactly now is postponed, or calls are taken in an order that is not the heap key's")
    # ---- the call-out
    outs = g.find(lambda x: isinstance(x, ast.Call) and isinstance(x.func, ast.Attribute) and x.func.attr == "func")
    if not outs and g.find(lambda x: isinstance(x, ast.Call) and (call_name(x) or "").startswith("self.") and any(src(a) == var for a in x.args)):
        ctx.need(False, "the call-out `call.func(*call.args, **call.kw)` inside runUntilCurrent (it seems to live in a helper: not followed)")
    ctx.check(len(outs) == 1, "run/calls-once", q, f"{len(outs)} call-outs `X.func(...)` in runUntilCurrent (exactly one expected)")
    dec_ok = [d for d in _dec_sites(g) if isinstance(g.node(d).ast.op, ast.Sub) and src(g.node(d).ast.value) == "1"
              and _cancelled_guard(g, d, var) is True and g.dominates(pop, d)]
    direct, via = _push_sites(ctx, cls, g, al, var)
    pushes = sorted(set(direct) | set(via))
    for o in outs:
        call = next(x for x in walk_local(g.node(o).ast) if isinstance(x, ast.Call) and isinstance(x.func, ast.Attribute) and x.func.attr == "func")
        c = ctx.construct(q, call)
        ctx.check(src(call.func.value) == var and g.dominates(pop, o), "run/pop-before-call", c,
                  "the function that is run does not belong to the call just popped from the heap (a running call must be out of the heap)")
        ctx.check(_cancelled_guard(g, o, var) is False, "run/skips-cancelled", c, "a cancelled call can be run")
        dg = []
        for t, lab in g.edge_guards(o):
            nf = lin_cmp(g.node(t).ast, negate=(lab == "F"))
            if nf is not None and dict(nf[0]).keys() == {f"{var}.delayed_time"}:
                dg.append(nf)
        ok = any(nf == (frozenset({(f"{var}.delayed_time", -1)}), 0, False) for nf in dg)
        ctx.check(ok, "run/not-before-scheduled-time", c,
                  "the call is run although delayed_time may still be positive (reset()/delay() moved it later): it runs before its "
                  "currently scheduled time" + (f" [guard found: {lin_cmp_text(dg[0])}]" if dg else ""))
        star = [src(a.value) for a in call.args if isinstance(a, ast.Starred)]
        dstar = [src(k.value) for k in call.keywords if k.arg is None]
        ctx.check(star == [f"{var}.args"] and dstar == [f"{var}.kw"] and len(call.args) == 1, "run/arguments", c,
                  "the function is not called with the call's own args / kw")
        marks = g.ids(lambda n: n.kind == "stmt" and isinstance(n.ast, ast.Assign) and any(src(t) == f"{var}.called" for t in n.ast.targets)
                      and isinstance(n.ast.value, ast.Constant) and bool(n.ast.value.value))
        wit = g.path([pop], [o], avoid=marks)
        ctx.check(bool(marks) and wit is None, "run/called-before-call", c,
                  "the function runs before `called` is set: cancel()/reset() from inside it do not raise AlreadyCalled and corrupt the "
                  "cancellation count / heap", witness=g.describe(wit))
        excs = [(d, l) for d, l in g.succ[o] if l == "exc"]
        ctx.check(bool(excs) and all(g.node(d).kind == "with_exit" for d, _ in excs), "run/isolated", c,
                  "an exception from one timed call escapes runUntilCurrent: the remaining due calls do not run in this iteration")
        for d, _ in excs:
            if g.node(d).kind == "with_exit":
                wit = g.path([d], [g.exit, g.raise_exit], avoid=[t for t, _ in guards], edge_ok=lambda a, b, l: l != "exc")
                ctx.check(wit is None, "run/isolated", c + " | <continues>", "after a failing call the loop is left instead of continued",
                          witness=g.describe(wit))
    for o in outs:
        wit = g.path([o], [g.exit], avoid=[t for t, _ in guards], strict=True, edge_ok=lambda a, b, l: l != "exc")
        ctx.check(wit is None, "run/all-due-calls-run", q + " | <after the call>",
                  "after running one call runUntilCurrent can finish without re-examining the heap: other calls that are due do not run in "
                  "this iteration", witness=g.describe(wit))
    # ---- every popped call is run, re-pushed, or a counted cancellation
    loop_tests = [t for t, _ in guards]
    def live_edge(a, b, l):
        n = g.node(a)
        return l != "exc" and not (n.kind == "test" and src(n.ast) == f"{var}.cancelled" and l == "T")
    wit = g.path([pop], loop_tests + [g.exit], avoid=set(outs) | set(pushes), strict=True, edge_ok=live_edge)
    ctx.check(wit is None, "run/popped-call-accounted", q + " | <after heappop>",
              "a popped, uncancelled call can be dropped: it is neither run nor pushed back on the heap", witness=g.describe(wit))
    ctests = g.ids(lambda n: n.kind == "test" and src(n.ast) == f"{var}.cancelled" and g.dominates(pop, n.id))
    tsucc = [d for t in ctests for d, l in g.succ[t] if l == "T"]
    wit = g.path(ctests, loop_tests + [g.exit], avoid=dec_ok, strict=True,
                 edge_ok=lambda a, b, l: l != "exc" and not (a in ctests and l == "F")) if tsucc else None
    ctx.check(bool(tsucc) and wit is None, "cancellations/coupled", q + " | <cancelled call popped>",
              "a cancelled call leaves the heap without being un-counted: _cancellations drifts away from the number of cancelled "
              "calls in the heap and compaction is triggered wrongly", witness=g.describe(wit))
    for p in pushes:
        c = ctx.construct(q, g.node(p).ast)
        ctx.check(_cancelled_guard(g, p, var) is False, "run/skips-cancelled", c, "a cancelled call is pushed back on the heap")
        acts = g.find(lambda x: isinstance(x, ast.Call) and isinstance(x.func, ast.Attribute) and x.func.attr == "activate_delay" and src(x.func.value) == var)
        wit = g.path([pop], [p], avoid=acts)
        if p in via and via[p]["activate"]:
            acts, wit = [p], None
        ctx.check(bool(acts) and wit is None, "run/repush-with-new-key", c,
                  "a delayed call is pushed back without folding delayed_time into its key: it is popped again at once, for ever",
                  witness=g.describe(wit))
    for a in g.find(lambda x: isinstance(x, ast.Call) and isinstance(x.func, ast.Attribute) and x.func.attr == "activate_delay"):
        call = next(x for x in walk_local(g.node(a).ast) if isinstance(x, ast.Call) and isinstance(x.func, ast.Attribute) and x.func.attr == "activate_delay")
        ok = src(call.func.value) == var and g.dominates(pop, a) and g.path(pushes, [a], avoid=[pop], strict=True) is None
        ctx.check(ok, "key/activate-outside-heap", ctx.construct(q, call), "activate_delay() changes the key of a call that is in the heap")
    for d in _dec_sites(g):
        ctx.check(d in dec_ok, "cancellations/coupled", ctx.construct(q, g.node(d).ast),
                  "_cancellations is changed here although no cancelled call leaves the heap at this point")
    # ---- compaction
    with ctx.section("compaction"):
        acc = [a for a in accesses(f, "ReactorBase.runUntilCurrent", {HEAP}, {"self"}) if a.kind == "assign"]
        heapifies = g.find(lambda x: (_is_call(x, "heapify") and x.args and _self_attr(x.args[0], HEAP)) or (
            isinstance(x, ast.Call) and isinstance(x.func, ast.Attribute) and x.func.attr == "sort" and _self_attr(x.func.value, HEAP) and not x.args and not x.keywords))
        zeros = g.ids(lambda n: n.kind == "stmt" and isinstance(n.ast, ast.Assign) and any(_self_attr(t, CANC) for t in n.ast.targets))
        Reactor = model_class(cls, "ReactorModel")
        for a in acc:
            c = ctx.construct(q, a.node)
            nodes = g.ids_of(a.node)
            hs = list(heapifies)
            if isinstance(a.node.value, ast.Name):
                nm = a.node.value.id
                hs += g.find(lambda x: (_is_call(x, "heapify") and x.args and isinstance(x.args[0], ast.Name) and x.args[0].id == nm) or (
                    isinstance(x, ast.Call) and isinstance(x.func, ast.Attribute) and x.func.attr == "sort" and isinstance(x.func.value, ast.Name)
                    and x.func.value.id == nm and not x.args and not x.keywords))
            wit = g.path(nodes, [g.exit] + pops + loop_tests, avoid=hs, strict=True, edge_ok=lambda x, y, l: l != "exc")
            if wit is not None and isinstance(a.node.value, ast.Name):
                # ... or the new list was heapified before it became the heap: between its construction and the re-bind
                binds = g.ids(lambda n: n.kind == "stmt" and isinstance(n.ast, (ast.Assign, ast.AnnAssign)) and any(
                    isinstance(t, ast.Name) and t.id == nm for t in (n.ast.targets if isinstance(n.ast, ast.Assign) else [n.ast.target])))
                if binds and hs and g.path(binds, nodes, avoid=hs, strict=True) is None:
                    wit = None
            ctx.check(bool(hs) and wit is None, "heap/compaction", c,
                      "the filtered list is not heapified before it is used as a heap again: calls run out of time order", witness=g.describe(wit))
            live = [Elem(time=t, delayed_time=0.0, cancelled=cn) for t, cn in ((1, 0), (2, 1), (3, 1), (4, 0), (5, 1), (6, 0))]
            r = Reactor(**{HEAP: list(live), CANC: 3})
            bad = None
            try:
                MiniEval.budget = 0
                if isinstance(a.node.value, ast.Name):
                    # the filtered list is built by the statements before the re-bind: evaluate that block on the model reactor
                    blk = next((b for x in ast.walk(f) for fld in ("body", "orelse", "finalbody") for b in [getattr(x, fld, None)]
                                if isinstance(b, list) and a.node in b), None)
                    if blk is None:
                        raise Unsupported("compaction: enclosing block not found")
                    ev = MiniEval({"self": r}, {"heapify": heapq.heapify, "heappush": heapq.heappush, "heappop": heapq.heappop})
                    ev.body(blk[: blk.index(a.node) + 1])
                    got = getattr(r, HEAP)
                else:
                    got = MiniEval({"self": r}, {}).expr(a.node.value)
                if sorted(map(id, got)) != sorted(id(e) for e in live if not e.cancelled):
                    bad = f"from calls with cancelled flags {[e.cancelled for e in live]} it keeps those with flags {[e.cancelled for e in got]}"
            except (MiniRaise, MiniBudget, TypeError, AttributeError, ValueError) as e:
                bad = f"the filter does not evaluate ({type(e).__name__}: {e})"
            v = a.node.value
            elementwise = (isinstance(v, ast.ListComp) and len(v.generators) == 1 and isinstance(v.generators[0].target, ast.Name)
                           and isinstance(v.elt, ast.Name) and v.elt.id == v.generators[0].target.id and _self_attr(v.generators[0].iter, HEAP)
                           and all(isinstance(x, ast.Attribute) and x.attr == "cancelled" and isinstance(x.value, ast.Name) and x.value.id == v.elt.id
                                   for cond in v.generators[0].ifs for x in ast.walk(cond) if isinstance(x, (ast.Attribute, ast.Name)) and not (
                                       isinstance(x, ast.Name)) ) and not any(isinstance(x, ast.Call) for cond in v.generators[0].ifs for x in ast.walk(cond)))
            if elementwise:
                ctx.check(bad is None, "heap/compaction-keeps-live-calls", c, f"compaction does not keep exactly the uncancelled calls: {bad}",
                          detail="element-wise filter `[x for x in heap if P(x.cancelled)]` (shape checked): P evaluated for cancelled in {0, 1}, "
                                 "the whole domain of the flag, on calls in every position")
            else:
                ctx.note("heap/compaction-keeps-live-calls: filter shape not recognised, clause left to model/compaction-keeps-live-calls")
                ctx.check(bad is None, "model/compaction-keeps-live-calls", c, f"compaction does not keep exactly the uncancelled calls: {bad}")
            z = [n for n in zeros if isinstance(g.node(n).ast.value, ast.Constant) and g.node(n).ast.value.value == 0]
            coupled = bool(z) and all(any(g.dominates(x, n) for x in z) or g.must_pass([n], z, exc=False) is None for n in nodes)
            ctx.check(coupled, "cancellations/coupled", c + " | <count reset>", "cancelled calls are removed from the heap without resetting _cancellations")
        for n in zeros:
            nodes = [x for a in acc for x in g.ids_of(a.node)]
            ok = isinstance(g.node(n).ast.value, ast.Constant) and g.node(n).ast.value.value == 0 and bool(nodes) and (
                any(g.dominates(x, n) for x in nodes) or g.must_pass([n], nodes, exc=False) is None)
            ctx.check(ok, "cancellations/coupled", ctx.construct(q, g.node(n).ast),
                      "_cancellations is reset although the cancelled calls stay in the heap (they will be un-counted again when popped)")


def _timeout_clamp_form(ctx, f, q, al):
    """timeout() returns a max/min selection over {d, constants} with d = head.time - seconds(): such a function is
    continuous, piecewise either `d` or a constant with breakpoints only at the constants, so checking 0 <= f(d) <= max(0, d)
    at every constant and inside every interval between them (and beyond the extremes) decides it for every d."""
    rets = [r for r in ast.walk(f) if isinstance(r, ast.Return) and r.value is not None and not (isinstance(r.value, ast.Constant) and r.value.value is None)]
    if len(rets) != 1:
        ctx.note("timeout/clamp-form: not a single value-returning return, clause left to timeout/bounded-by-earliest-call")
        return
    e = resolve_locals(f, rets[0].value)
    want = ({f"self.{HEAP}[0].time": 1, "self.seconds()": -1}, 0)
    consts = set()
    dterms = []

    def shape(x):
        if isinstance(x, ast.Call) and dotted(x.func) in ("max", "min") and x.args and not x.keywords:
            subs = [shape(a) for a in x.args]
            return None if any(sub is None for sub in subs) else (dotted(x.func), subs)
        if isinstance(x, ast.Constant) and isinstance(x.value, (int, float)) and not isinstance(x.value, bool):
            consts.add(x.value)
            return ("c", x.value)
        lf = linform(x)
        if lf is not None and lf[0]:
            dterms.append((lf, x))
            return ("d",)
        return None
    sh = shape(e)
    if sh is not None and any(not (t.startswith(f"self.{HEAP}[0].") or t == "self.seconds()") for lf, _ in dterms for t in lf[0]):
        sh = None   # the clamped quantity is not derived from the heap head in a way this rule reads (e.g. an exact minimum over all calls)
    if sh is None or not dterms:
        ctx.note("timeout/clamp-form: return expression is not a max/min selection, clause left to timeout/bounded-by-earliest-call")
        return
    for lf, x in dterms:
        ctx.check(lin_eq(lf, want), "timeout/clamp-form", ctx.construct(q, x),
                  f"the sleep time is derived from `{lin_text(lf)}`, not from `head.time - seconds()`: only the heap key of the head lower-bounds "
                  "every pending call", detail="linear form of the clamped quantity")

    def ev(t, d):
        if t[0] == "c":
            return t[1]
        if t[0] == "d":
            return d
        vals = [ev(u, d) for u in t[1]]
        return max(vals) if t[0] == "max" else min(vals)
    cs = sorted(consts | {0})
    reps = [cs[0] - 1] + [x for i, c in enumerate(cs) for x in ([c] + ([(c + cs[i + 1]) / 2] if i + 1 < len(cs) else []))] + [cs[-1] + 1, cs[-1] * 2 + 10]
    bad = next((d for d in reps if not (0 <= ev(sh, d) <= max(0, d))), None)
    ctx.check(bad is None, "timeout/clamp-form", q + " | <0 <= timeout <= max(0, head.time - seconds())>",
              f"with head.time - seconds() = {bad} timeout() returns {ev(sh, bad) if bad is not None else ''}: the reactor may sleep past the earliest call "
              "(or gets a negative timeout)",
              detail=f"max/min selection over d and the constants {cs}: evaluated at every constant, inside every interval and beyond both ends "
                     f"({len(reps)} representatives) - piecewise (d | constant) with breakpoints only there, hence for every d")


# =============================================================================== timeout / getDelayedCalls
def _check_timeout(ctx, mod, cls, Elem):
    f0 = ctx.func(BASE, "ReactorBase.timeout")
    f, understood, vnotes = NORM.view(f0)
    for n_ in vnotes:
        ctx.note("timeout: " + n_)
    q = R + ".timeout"
    g = ctx.cfg(f)
    inames = _inserters(cls)
    ins = g.find(lambda x: _is_insert_call(x, inames))
    reads = g.find(lambda x: _self_attr(x, HEAP))
    wit = g.must_precede(ins, reads)
    ctx.check(bool(ins) and bool(reads) and wit is None, "timeout/inserts-new-calls-first", q,
              "timeout() looks at the heap before inserting newly scheduled calls: the reactor may sleep past a new call", witness=g.describe(wit))
    al = _heap_aliases(f)
    for node in ast.walk(f):
        if isinstance(node, ast.Attribute) and isinstance(node.value, ast.Subscript) and _is_heap(node.value.value, al) \
                and isinstance(node.value.slice, ast.Constant) and node.value.slice.value == 0:
            ctx.check(node.attr not in ("getTime", "delayed_time"), "timeout/uses-heap-key", ctx.construct(q, node),
                      f"timeout() reads `{node.attr}` of the heap head: the heap is ordered by `time` only, so the head's scheduled time "
                      "(time + delayed_time) says nothing about the other pending calls - one of them may be due earlier and the reactor oversleeps")
    _timeout_clamp_form(ctx, f, q, al)
    Reactor = model_class(cls, "ReactorModel")
    bad = None
    n = 0
    try:
        for now in (0.0, 10.0):
            for dt in (-5, 0, 0.25, 3, 10 ** 7, 10 ** 12):
                times = [now + dt, now + dt + 5, now + dt + 7]
                heap = [Elem(time=t, delayed_time=0.0, cancelled=0) for t in times]
                r = Reactor(**{HEAP: heap, NEW: [], CANC: 0, "seconds": (lambda now=now: now), "_insertNewDelayedCalls": (lambda: None)})
                MiniEval.budget = 0
                got = MiniEval.call(f, (r,), {})
                n += 1
                if got is None or not (0 <= got <= max(0, dt)):
                    bad = f"earliest call due in {dt}s, timeout() returns {got!r}"
                    break
            if bad:
                break
        if not bad:
            # the heap is ordered by the key `time`; a postponement lives in delayed_time until the call is popped.  So the head may be
            # postponed past other pending calls: the bound is the earliest *scheduled* time of any pending call, which the head's key
            # (never its scheduled time) lower-bounds
            shapes = [
                [(1, 2), (2, 0), (4, 0)],            # head postponed past the second call
                [(1, 5), (3, 0), (2, 0)],            # ... past both children
                [(1, 0.5), (2, 0), (3, 0)],          # postponed, still the earliest
                [(1, 3), (2, 4), (6, 0)],            # head and a child postponed
                [(0, 10), (0, 0), (7, 0)],           # equal keys, only one postponed
            ]
            for now in (0.0, 0.5):
                for shape in shapes:
                    heap = [Elem(time=now + t, delayed_time=float(d), cancelled=0) for t, d in shape]
                    r = Reactor(**{HEAP: heap, NEW: [], CANC: 0, "seconds": (lambda now=now: now), "_insertNewDelayedCalls": (lambda: None)})
                    MiniEval.budget = 0
                    got = MiniEval.call(f, (r,), {})
                    n += 1
                    bound = max(0, min(t + d for t, d in shape))
                    if got is None or not (0 <= got <= bound):
                        bad = (f"pending calls (key time, delayed_time) = {shape} relative to now: the earliest is due in {bound}s but timeout() "
                               f"returns {got!r} - it is computed from the head's scheduled time, although only its heap key `time` "
                               "lower-bounds the other calls")
                        break
                if bad:
                    break
        if not bad:
            r = Reactor(**{HEAP: [], NEW: [], CANC: 0, "seconds": (lambda: 0.0), "_insertNewDelayedCalls": (lambda: None)})
            MiniEval.budget = 0
            got = MiniEval.call(f, (r,), {})
            n += 1
            if got is not None:
                bad = f"with no pending call timeout() returns {got!r} instead of None"
    except (MiniRaise, MiniBudget, TypeError, AttributeError, ValueError, IndexError) as e:
        bad = f"timeout() does not evaluate on the model reactor ({type(e).__name__}: {e})"
    ctx.check(bad is None, "timeout/bounded-by-earliest-call", q, f"the sleep timeout is not within [0, time until the earliest pending call]: {bad}",
              detail=f"{n} model evaluations")


def _check_get_delayed_calls(ctx, mod, cls, Elem):
    f = ctx.func(BASE, "ReactorBase.getDelayedCalls")
    q = R + ".getDelayedCalls"
    # structural: both lists and the cancelled flag are consulted (directly or in a private helper called from here)
    bodies = [f] + [methods(cls)[call_name(c)[5:]] for c in ast.walk(f) if isinstance(c, ast.Call) and (call_name(c) or "").startswith("self.")
                    and call_name(c)[5:] in methods(cls) and call_name(c)[5:].startswith("_")]
    seen = {x.attr for b in bodies for x in ast.walk(b) if isinstance(x, ast.Attribute)}
    for need, why in ((HEAP, "calls already in the heap are not listed"), (NEW, "calls scheduled but not yet inserted are not listed"),
                      ("cancelled", "cancelled calls are listed as pending")):
        ctx.check(need in seen, "getDelayedCalls/consults-both-lists", f"{q} | {need}", f"getDelayedCalls() never looks at `{need}`: {why}")
    Reactor = model_class(cls, "ReactorModel")
    a, b, c, d, e = (Elem(time=t, delayed_time=0.0, cancelled=cn, called=0) for t, cn in ((1, 0), (2, 1), (3, 1), (4, 0), (5, 0)))
    r = Reactor(**{HEAP: [a, b, e], NEW: [c, d], CANC: 2})
    bad = None
    try:
        MiniEval.budget = 0
        got = list(MiniEval.call(f, (r,), {}))
        if sorted(map(id, got)) != sorted(map(id, (a, d, e))):
            bad = (f"heap flags {[x.cancelled for x in (a, b, e)]}, staged flags {[x.cancelled for x in (c, d)]}: returned "
                   f"{len(got)} calls with flags {[x.cancelled for x in got]}")
    except (MiniRaise, MiniBudget, TypeError, AttributeError, ValueError) as ex:
        bad = f"does not evaluate on the model reactor ({type(ex).__name__}: {ex})"
    ctx.check(bad is None, "getDelayedCalls/exactly-pending", q, f"getDelayedCalls() does not return exactly the uncancelled calls of heap and staging list: {bad}")


# =============================================================================== who may mutate through the public API
INTERNAL_DRIVERS = {"runUntilCurrent", "timeout"}   # reactor-internal: called by the reactor's own iteration, before/after the run loop


def _check_public_api(ctx, mod, cls, canc, rst):
    """User code runs *inside* runUntilCurrent's loop (the timed call itself).  Whatever it can invoke there - every public
    method of the reactor, and the canceller / resetter reached through DelayedCall.cancel/reset/delay - must leave the split
    between the staging list and the heap alone: it may stage a call (append), sift a call up (the resetter) and count a
    cancellation, nothing else.  In particular it must not move staged calls into the heap: a call scheduled during the
    iteration would then run in the same iteration."""
    ms = methods(cls)
    roots = sorted(n for n in ms if not n.startswith("_") and n not in INTERNAL_DRIVERS)
    for extra in (canc, rst):
        if extra and extra in ms and extra not in roots:
            roots.append(extra)
    effects = public_api_effects(mod, cls, {HEAP, NEW}, roots, INTERNAL_DRIVERS)
    seen = set()
    n = 0
    for root, chain, a in effects:
        fn = a.func.split(".")[1]
        key = (root, a.func, src(a.node))
        if key in seen:
            continue
        seen.add(key)
        n += 1
        allowed = (a.attr == NEW and a.kind == "append") or (a.attr == HEAP and a.kind == "setitem" and fn == rst) \
            or (a.attr == HEAP and a.kind in ("heapify", "sort") and fn == rst)
        via = " -> ".join(chain)
        c = ctx.construct(f"{R}.{root}", f"{via}: {src(a.node)[:90]}")
        if a.attr == HEAP:
            msg = (f"{root}() can be called by user code from inside a running timed call and reaches `{src(a.node)[:70]}` ({via}): the timer "
                   "heap changes under runUntilCurrent's loop - a call scheduled during this iteration is moved into the heap and runs in the "
                   "same iteration (or a pending call is taken out of it)")
        else:
            msg = (f"{root}() can be called by user code from inside a running timed call and reaches `{src(a.node)[:70]}` ({via}): calls "
                   "scheduled during this iteration leave the staging list early or are lost")
        ctx.check(allowed, "api/no-heap-motion-from-user-callable", c, msg)
    ctx.floor("api/no-heap-motion-from-user-callable", n, 1, "reachable mutations")
    # the drivers themselves are not reachable from the other public methods except as whole iterations
    for d in sorted(INTERNAL_DRIVERS):
        ctx.need(d in ms, f"ReactorBase.{d}")
    # no other module of the package reaches into the staging machinery
    offenders = []
    scanned = 0
    for rel in ctx.tree.all_modules():
        if rel == BASE:
            continue
        text = ctx.tree.text(rel)
        if "_insertNewDelayedCalls" not in text and NEW not in text and HEAP not in text:
            continue
        scanned += 1
        m = ctx.mod(rel)
        for node in ast.walk(m.tree):
            if isinstance(node, ast.Attribute) and node.attr in ("_insertNewDelayedCalls", NEW, HEAP):
                offenders.append((rel, node))
    for rel, node in offenders:
        ctx.violation("api/no-heap-motion-from-user-callable", f"twisted/{rel} | {src(node)}",
                      "code outside ReactorBase touches the timer heap / staging list directly: the staging discipline of base.py no longer "
                      "decides when a newly scheduled call becomes runnable")
    if not offenders:
        ctx.ok("api/no-heap-motion-from-user-callable", "twisted/* | <no use of the staging machinery outside internet/base.py>", f"{scanned} candidate modules parsed")


def check(ctx):
    global NORM
    mod = ctx.mod(BASE)
    cls = ctx.cls(BASE, "ReactorBase")
    NORM = Normaliser(mod, cls, keep=_inserters(cls) | {"_cancelCallLater", "_moveCallLaterSooner"})
    MiniEval.GLOBALS = {"heappush": heapq.heappush, "heappop": heapq.heappop, "heapify": heapq.heapify, "ValueError": ValueError}
    Elem = check_delayed_call(ctx, mod, heap_rules=True)
    ms = methods(cls)
    acc, sift = [], set()
    with ctx.section("heap ownership"):
        acc, sift = _check_ownership(ctx, mod, cls)
    # defaults found syntactically, so that an unreadable callLater cannot hide the resetter / canceller rules
    canc = "_cancelCallLater" if "_cancelCallLater" in ms else None
    rst = "_moveCallLaterSooner" if "_moveCallLaterSooner" in ms else None
    with ctx.section("callLater"):
        c2, r2 = _check_call_later(ctx, mod, cls, sift)
        canc, rst = c2 or canc, r2 or rst
    if rst:
        with ctx.section("resetter"):
            _check_resetter(ctx, mod, cls, Elem, rst)
    with ctx.section("cancellation count"):
        for s in sorted(sift - {rst}):
            ctx.violation("heap/ownership", f"{R}.{s}", "a function other than the resetter stores into the heap by subscript")
        # _cancellations: incremented exactly by the canceller handed to DelayedCall
        incs = [a for a in acc if a.attr == CANC and a.kind == "augassign" and isinstance(a.node.op, ast.Add)]
        if canc:
            f = ctx.func(BASE, f"ReactorBase.{canc}")
            own = [a for a in incs if a.func == f"ReactorBase.{canc}"]
            g = ctx.cfg(f)
            nodes = [n for a in own for n in g.ids_of(a.node)]
            wit = g.must_pass([g.entry], nodes, exc=False)
            ctx.check(len(own) == 1 and src(own[0].node.value) == "1" and wit is None, "cancellations/counted", f"{R}.{canc}",
                      "a cancellation is not counted exactly once: compaction and the un-counting at pop time go out of step", witness=g.describe(wit))
        for a in incs:
            ctx.check(canc is not None and a.func == f"ReactorBase.{canc}", "cancellations/counted", ctx.construct(f"{MODNAME}.{a.func}", a.node),
                      "_cancellations is incremented outside the canceller")
    with ctx.section("calls located by identity"):
        # heap.index(call) in the resetter (and any remove / `in` on the heap or staging list) finds a DelayedCall with ==
        sites = equality_locator_sites(cls, {HEAP, NEW})
        ctx.floor("identity/located-by-equality", len(sites), 1, "equality-based look-ups in ReactorBase")
        check_equality_is_identity(ctx, mod, ctx.cls(BASE, "DelayedCall"), R, sites)
    with ctx.section("public API"):
        _check_public_api(ctx, mod, cls, canc, rst)
    with ctx.section("_insertNewDelayedCalls"):
        _check_insert(ctx, mod, cls)
    with ctx.section("runUntilCurrent"):
        _check_run(ctx, mod, cls, Elem)
    with ctx.section("timeout"):
        _check_timeout(ctx, mod, cls, Elem)
    with ctx.section("getDelayedCalls"):
        _check_get_delayed_calls(ctx, mod, cls, Elem)


_DELAYED_BRANCH = ('            if call.delayed_time > 0.0:\n                call.activate_delay()\n'
                   '                heappush(self._pendingTimedCalls, call)\n                continue\n\n')
_RESET = ('            if newTime < self.time:\n                self.delayed_time = 0.0\n                self.time = newTime\n'
          '                self.resetter(self)\n            else:\n                self.delayed_time = newTime - self.time\n')
_DELAY = ('            self.delayed_time += secondsLater\n            if self.delayed_time < 0.0:\n                self.activate_delay()\n'
          '                self.resetter(self)\n')
_INSERT_LOOP = ('        for call in self._newTimedCalls:\n            if call.cancelled:\n                self._cancellations -= 1\n            else:\n'
                '                call.activate_delay()\n                heappush(self._pendingTimedCalls, call)\n        self._newTimedCalls = []\n')
_SIFT = ('            while pos != 0:\n                parent = (pos - 1) // 2\n                if heap[parent] <= elt:\n                    break\n')
_WITH = '            with logHandler:\n                call.called = 1\n                call.func(*call.args, **call.kw)\n'

MUTANTS = [
    Mutant("one-timed-call-per-iteration", BASE, "                call.called = 1\n                call.func(*call.args, **call.kw)\n\n        if (",
           "                call.called = 1\n                call.func(*call.args, **call.kw)\n            break\n\n        if (", expect_rule="run/all-due-calls-run"),
    Mutant("staged-call-appended-to-heap", BASE, "                heappush(self._pendingTimedCalls, call)\n        self._newTimedCalls = []",
           "                self._pendingTimedCalls.append(call)\n        self._newTimedCalls = []", expect_rule="heap/ownership"),
    Mutant("reset-earlier-without-resetter", BASE, _RESET, _RESET.replace("                self.resetter(self)\n", ""), expect_rule="key/resetter-after-decrease"),
    Mutant("run-ignores-delayed-time", BASE, _DELAYED_BRANCH, "", expect_rule="run/not-before-scheduled-time"),
    Mutant("compaction-without-heapify", BASE, "            heapify(self._pendingTimedCalls)\n", "", expect_rule="heap/compaction"),
    Mutant("due-now-postponed", BASE, "(self._pendingTimedCalls[0].time <= now)", "(self._pendingTimedCalls[0].time < now)", expect_rule="run/loop-boundary"),
    Mutant("called-set-after-the-call", BASE, _WITH, "            with logHandler:\n                call.func(*call.args, **call.kw)\n                call.called = 1\n",
           expect_rule="run/called-before-call"),
    Mutant("delay-earlier-without-resetter", BASE, _DELAY, _DELAY.replace("                self.resetter(self)\n", ""), expect_rule="key/resetter-after-decrease"),
    Mutant("reset-keeps-old-delay", BASE, _RESET, _RESET.replace("                self.delayed_time = 0.0\n", ""), expect_rule="reset/effective-time"),
    Mutant("staging-list-not-cleared", BASE, _INSERT_LOOP, _INSERT_LOOP.replace("        self._newTimedCalls = []\n", ""), expect_rule="insert/clears-staging-list"),
    Mutant("compaction-keeps-cancelled", BASE, "x for x in self._pendingTimedCalls if not x.cancelled", "x for x in self._pendingTimedCalls if x.cancelled",
           expect_rule="heap/compaction-keeps-live-calls"),
    Mutant("call-later-default-clock", BASE, "            self._moveCallLaterSooner,\n            seconds=self.seconds,\n", "            self._moveCallLaterSooner,\n",
           expect_rule="callLater/wiring"),
    Mutant("timeout-looks-at-last-call", BASE, "delay = self._pendingTimedCalls[0].time - self.seconds()", "delay = self._pendingTimedCalls[-1].time - self.seconds()",
           expect_rule="timeout/bounded-by-earliest-call"),
    Mutant("get-delayed-calls-misses-new", BASE, "for x in (self._pendingTimedCalls + self._newTimedCalls)", "for x in self._pendingTimedCalls",
           expect_rule="getDelayedCalls/exactly-pending"),
    Mutant("sift-up-wrong-parent", BASE, "parent = (pos - 1) // 2", "parent = pos // 2", expect_rule="heap/resetter-restores-order"),
    Mutant("sift-up-wrong-direction", BASE, _SIFT, _SIFT.replace("heap[parent] <= elt", "heap[parent] >= elt"), expect_rule="heap/resetter-restores-order"),
    Mutant("heap-ordered-by-effective-time", BASE, "        return self.time < other.time", "        return self.getTime() < other.getTime()", expect_rule="key/compares-time"),
    Mutant("insert-during-run-loop", BASE, "            call = heappop(self._pendingTimedCalls)\n", "            call = heappop(self._pendingTimedCalls)\n            self._insertNewDelayedCalls()\n",
           expect_rule="run/no-insert-during-loop"),
    Mutant("timed-call-not-isolated", BASE, _WITH, "            if logHandler:\n                call.called = 1\n                call.func(*call.args, **call.kw)\n", expect_rule="run/isolated"),
    Mutant("cancel-does-not-mark", BASE, "            self.canceller(self)\n            self.cancelled = 1\n", "            self.canceller(self)\n", expect_rule="cancel/marks-and-notifies"),
    Mutant("delay-negative-not-activated", BASE, _DELAY, _DELAY.replace("                self.activate_delay()\n", ""), expect_rule="key/delay-nonnegative"),
    Mutant("reset-comparison-inverted", BASE, "            if newTime < self.time:\n", "            if newTime > self.time:\n", expect_rule="key/only-decreases"),
    Mutant("delayed-call-not-pushed-back", BASE, _DELAYED_BRANCH, _DELAYED_BRANCH.replace("                heappush(self._pendingTimedCalls, call)\n", ""),
           expect_rule="run/popped-call-accounted"),
    Mutant("call-later-pushes-on-heap", BASE, "        self._newTimedCalls.append(delayedCall)\n", "        heappush(self._pendingTimedCalls, delayedCall)\n",
           expect_rule="heap/callLater-stages-only"),
    Mutant("cancelled-staged-call-pushed", BASE, _INSERT_LOOP, _INSERT_LOOP.replace("            else:\n                call.activate_delay()\n                heappush", "            if True:\n                call.activate_delay()\n                heappush"),
           expect_rule="insert/skips-cancelled"),
    Mutant("run-loop-skips-cancelled-check", BASE, "            if call.cancelled:\n                self._cancellations -= 1\n                continue\n\n            if call.delayed_time", "            if call.delayed_time",
           expect_rule="run/skips-cancelled"),
    Mutant("timeout-before-insert", BASE, "        self._insertNewDelayedCalls()\n\n        if not self._pendingTimedCalls:\n            return None\n",
           "        if not self._pendingTimedCalls:\n            return None\n        self._insertNewDelayedCalls()\n", expect_rule="timeout/inserts-new-calls-first"),
]
SILENT = [
    Silent("loop-test-swapped", BASE, "(self._pendingTimedCalls[0].time <= now)", "(now >= self._pendingTimedCalls[0].time)"),
    Silent("loop-test-negated", BASE, "(self._pendingTimedCalls[0].time <= now)", "(not self._pendingTimedCalls[0].time > now)"),
    Silent("swap-then-iterate", BASE, _INSERT_LOOP,
           '        new, self._newTimedCalls = self._newTimedCalls, []\n        for call in new:\n            if call.cancelled:\n                self._cancellations -= 1\n'
           '                continue\n            call.activate_delay()\n            heappush(self._pendingTimedCalls, call)\n'),
    Silent("parent-by-shift", BASE, "parent = (pos - 1) // 2", "parent = (pos - 1) >> 1"),
    Silent("timeout-clamp-order", BASE, "return max(0, min(longest, delay))", "return min(longest, max(0, delay))"),
    Silent("get-delayed-calls-two-lists", BASE, "            for x in (self._pendingTimedCalls + self._newTimedCalls)\n            if not x.cancelled\n        ]",
           "            for x in self._pendingTimedCalls\n            if not x.cancelled\n        ] + [y for y in self._newTimedCalls if not y.cancelled]"),
    Silent("reset-branches-inverted", BASE, _RESET,
           '            if newTime >= self.time:\n                self.delayed_time = newTime - self.time\n            else:\n                self.time = newTime\n'
           '                self.delayed_time = 0.0\n                self.resetter(self)\n'),
    Silent("compaction-filter-rewritten", BASE, "x for x in self._pendingTimedCalls if not x.cancelled", "c for c in self._pendingTimedCalls if c.cancelled == 0"),
    Silent("called-set-before-with", BASE, _WITH, "            call.called = 1\n            with logHandler:\n                call.func(*call.args, **call.kw)\n"),
    Silent("resetter-heapifies", BASE, "            pos = heap.index(delayedCall)\n", "            pos = heap.index(delayedCall)\n            heapify(heap)\n            return\n"),
    Silent("delay-activates-at-zero", BASE, "            if self.delayed_time < 0.0:\n                self.activate_delay()", "            if self.delayed_time <= 0.0:\n                self.activate_delay()"),
]

_LOOP_HEAD = '        while self._pendingTimedCalls and (self._pendingTimedCalls[0].time <= now):\n            call = heappop(self._pendingTimedCalls)\n'
MUTANTS += [
    # a violation in runUntilCurrent must be reported although _insertNewDelayedCalls has a shape the rules cannot read
    Mutant("boundary-strict-behind-unreadable-insert", BASE, "(self._pendingTimedCalls[0].time <= now)", "(self._pendingTimedCalls[0].time < now)",
           expect_rule="run/loop-boundary",
           more=[(BASE, "        for call in self._newTimedCalls:\n            if call.cancelled:", "        for call in list(self._newTimedCalls) + []:\n            if call.cancelled:")]),
    Mutant("delay-without-resetter-behind-unreadable-reset", BASE, "                self.activate_delay()\n                self.resetter(self)\n", "                self.activate_delay()\n",
           expect_rule="key/resetter-after-decrease",
           more=[(BASE, "            newTime = self.seconds() + secondsFromNow\n", "            newTime = self.seconds() + secondsFromNow\n            for _ in ():\n                pass\n")]),
]
SILENT += [
    Silent("run-loop-while-true-break", BASE, _LOOP_HEAD,
           "        while True:\n            if not self._pendingTimedCalls or self._pendingTimedCalls[0].time > now:\n                break\n            call = heappop(self._pendingTimedCalls)\n"),
    Silent("insert-loop-continue-style", BASE, _INSERT_LOOP,
           "        for call in self._newTimedCalls:\n            if call.cancelled:\n                self._cancellations -= 1\n                continue\n"
           "            call.activate_delay()\n            heappush(self._pendingTimedCalls, call)\n        self._newTimedCalls = []\n"),
    Silent("requeue-helper-extracted", BASE, _DELAYED_BRANCH, "            if call.delayed_time > 0.0:\n                self._requeue(call)\n                continue\n\n",
           more=[(BASE, "    def _cancelCallLater(self, delayedCall: DelayedCall) -> None:",
                  "    def _requeue(self, call):\n        call.activate_delay()\n        heappush(self._pendingTimedCalls, call)\n\n    def _cancelCallLater(self, delayedCall: DelayedCall) -> None:")]),
]

_GDC = ("        return [\n            x\n            for x in (self._pendingTimedCalls + self._newTimedCalls)\n            if not x.cancelled\n        ]\n")
MUTANTS += [
    # getDelayedCalls() is callable from inside a running timed call: flushing the staging list there lets a call scheduled during
    # this iteration run in the same iteration
    Mutant("accessor-flushes-staging-list", BASE, _GDC, "        self._insertNewDelayedCalls()\n        return [c for c in self._pendingTimedCalls if not c.cancelled]\n",
           expect_rule="api/no-heap-motion-from-user-callable"),
    # same through a helper and from callLater ("insert eagerly when idle")
    Mutant("call-later-flushes-through-helper", BASE, "        self._newTimedCalls.append(delayedCall)\n        return delayedCall\n",
           "        self._newTimedCalls.append(delayedCall)\n        self._flushNew()\n        return delayedCall\n\n    def _flushNew(self):\n        self._insertNewDelayedCalls()\n",
           expect_rule="api/no-heap-motion-from-user-callable"),
    # the resetter (reached from DelayedCall.reset/delay inside a running call) re-heapifies by draining the staging list first
    Mutant("resetter-flushes-staging-list", BASE, "        heap = self._pendingTimedCalls\n        try:\n", "        self._insertNewDelayedCalls()\n        heap = self._pendingTimedCalls\n        try:\n",
           expect_rule="api/no-heap-motion-from-user-callable"),
]
SILENT += [
    Silent("accessor-through-helper", BASE, _GDC, "        return self._liveCalls()\n\n    def _liveCalls(self):\n        return [c for c in self._pendingTimedCalls + self._newTimedCalls if not c.cancelled]\n"),
    Silent("iterate-calls-drivers", BASE, "        self._insertNewDelayedCalls()\n\n        if not self._pendingTimedCalls:\n            return None\n",
           "        self._stage()\n\n        if not self._pendingTimedCalls:\n            return None\n",
           more=[(BASE, "    def _cancelCallLater(self, delayedCall: DelayedCall) -> None:", "    def _stage(self):\n        self._insertNewDelayedCalls()\n\n    def _cancelCallLater(self, delayedCall: DelayedCall) -> None:")]),
]

MUTANTS += [
    # "do not wake up early for a postponed call": the sleep time is taken from the head's scheduled time instead of its heap key
    Mutant("timeout-from-scheduled-time-of-head", BASE, "delay = self._pendingTimedCalls[0].time - self.seconds()",
           "delay = self._pendingTimedCalls[0].getTime() - self.seconds()", expect_rule="timeout/bounded-by-earliest-call"),
    Mutant("timeout-adds-delay-of-head", BASE, "delay = self._pendingTimedCalls[0].time - self.seconds()",
           "head = self._pendingTimedCalls[0]\n        delay = head.time + head.delayed_time - self.seconds()", expect_rule="timeout/bounded-by-earliest-call"),
]
SILENT += [
    Silent("timeout-exact-minimum", BASE, "delay = self._pendingTimedCalls[0].time - self.seconds()",
           "delay = min(c.getTime() for c in self._pendingTimedCalls) - self.seconds()"),
    Silent("timeout-head-in-local", BASE, "delay = self._pendingTimedCalls[0].time - self.seconds()",
           "head = self._pendingTimedCalls[0]\n        delay = head.time - self.seconds()"),
]

_DC_RESET_ELSE = ('        else:\n            newTime = self.seconds() + secondsFromNow\n            if newTime < self.time:\n                self.delayed_time = 0.0\n'
                  '                self.time = newTime\n                self.resetter(self)\n            else:\n                self.delayed_time = newTime - self.time\n')
SILENT += [
    # guard clauses and a boolean temporary in DelayedCall.reset
    Silent("reset-boolean-temporary", BASE, _DC_RESET_ELSE,
           "        else:\n            newTime = self.seconds() + secondsFromNow\n            movesSooner = newTime < self.time\n            if not movesSooner:\n"
           "                self.delayed_time = newTime - self.time\n                return\n            self.delayed_time = 0.0\n            self.time = newTime\n            self.resetter(self)\n"),
    # the sift-up loop in a private static helper
    Silent("sift-up-in-static-helper", BASE,
           "            elt = heap[pos]\n            while pos != 0:\n                parent = (pos - 1) // 2\n                if heap[parent] <= elt:\n                    break\n"
           "                # move parent down\n                heap[pos] = heap[parent]\n                pos = parent\n            heap[pos] = elt\n",
           "            self._siftUp(heap, pos)\n",
           more=[(BASE, "    def _cancelCallLater(self, delayedCall: DelayedCall) -> None:",
                  "    @staticmethod\n    def _siftUp(calls, index):\n        moving = calls[index]\n        while index > 0:\n            up = (index - 1) // 2\n"
                  "            if calls[up] <= moving:\n                break\n            calls[index] = calls[up]\n            index = up\n        calls[index] = moving\n\n"
                  "    def _cancelCallLater(self, delayedCall: DelayedCall) -> None:")]),
    # inverted fast path with a local alias of the staging list
    Silent("insert-inverted-fast-path", BASE,
           "        if not self._newTimedCalls:\n            return\n\n" + _INSERT_LOOP,
           "        fresh = self._newTimedCalls\n        if fresh:\n            for item in fresh:\n                if not item.cancelled:\n                    item.activate_delay()\n"
           "                    heappush(self._pendingTimedCalls, item)\n                else:\n                    self._cancellations -= 1\n            self._newTimedCalls = []\n"),
    # log-handler selection moved into a module-level helper
    Silent("log-handler-from-helper", BASE, "            with logHandler:\n", "            with _pickHandler(logHandler):\n",
           more=[(BASE, "@implementer(IDelayedCall)\nclass DelayedCall:", "def _pickHandler(h):\n    if h is None:\n        return _DEFAULT_DELAYED_CALL_LOGGING_HANDLER\n"
                  "    return _log.failuresHandled(\"while handling timed call\")\n\n\n@implementer(IDelayedCall)\nclass DelayedCall:")]),
]

_DC_LT = '    def __lt__(self, other: "DelayedCall") -> bool:\n'
MUTANTS += [
    # value equality on DelayedCall: heap.index(call) in the resetter finds the first call with the same key, not the call that was reset
    Mutant("delayed-call-value-equality", BASE, _DC_LT,
           "    def __eq__(self, other: object) -> bool:\n        if not isinstance(other, DelayedCall):\n            return NotImplemented\n"
           "        return self.time == other.time\n\n    __hash__ = object.__hash__\n\n" + _DC_LT, expect_rule="identity/located-by-equality"),
    Mutant("delayed-call-value-equality-witness", BASE, _DC_LT,
           "    def __eq__(self, other):\n        return self.time == other.time\n\n    __hash__ = object.__hash__\n\n" + _DC_LT,
           expect_rule="heap/resetter-restores-order"),
]
SILENT += [
    Silent("delayed-call-identity-equality-spelled-out", BASE, _DC_LT,
           "    def __eq__(self, other: object) -> bool:\n        return self is other\n\n    __hash__ = object.__hash__\n\n" + _DC_LT),
]

_RUN_LOOP = ('        while self._pendingTimedCalls and (self._pendingTimedCalls[0].time <= now):\n            call = heappop(self._pendingTimedCalls)\n'
             '            if call.cancelled:\n                self._cancellations -= 1\n                continue\n\n' + _DELAYED_BRANCH)
_SELECTOR = ('    def _nextDue(self, now):\n        while self._pendingTimedCalls and (self._pendingTimedCalls[0].time <= now):\n            picked = heappop(self._pendingTimedCalls)\n'
             '            if picked.cancelled:\n                self._cancellations -= 1\n                continue\n            if picked.delayed_time > 0.0:\n'
             '                picked.activate_delay()\n                heappush(self._pendingTimedCalls, picked)\n                continue\n            return picked\n        return None\n\n')
_CANCEL_DEF = "    def _cancelCallLater(self, delayedCall: DelayedCall) -> None:"
_COMPACT = ('        if (\n            self._cancellations > 50\n            and self._cancellations > len(self._pendingTimedCalls) >> 1\n        ):\n            self._cancellations = 0\n'
            '            self._pendingTimedCalls = [\n                x for x in self._pendingTimedCalls if not x.cancelled\n            ]\n            heapify(self._pendingTimedCalls)\n')
SILENT += [
    # selection of the next due call in a private helper that returns it (or None), consumed through a walrus loop
    Silent("selector-helper-with-walrus-loop", BASE, _RUN_LOOP, "        while (call := self._nextDue(now)) is not None:\n",
           more=[(BASE, _CANCEL_DEF, _SELECTOR + _CANCEL_DEF)]),
    # compaction in a private helper, the new list built by an append loop and heapified through its local name
    Silent("compaction-helper-with-append-loop", BASE, _COMPACT, "        self._dropCancelled()\n",
           more=[(BASE, _CANCEL_DEF, "    def _dropCancelled(self):\n        if 50 < self._cancellations and len(self._pendingTimedCalls) // 2 < self._cancellations:\n"
                  "            self._cancellations = 0\n            alive = []\n            for c in self._pendingTimedCalls:\n                if not c.cancelled:\n"
                  "                    alive.append(c)\n            self._pendingTimedCalls = alive\n            heapify(alive)\n\n" + _CANCEL_DEF)]),
    # staged calls partitioned by a comprehension, the cancellation count adjusted once
    Silent("insert-partition-by-comprehension", BASE, "        if not self._newTimedCalls:\n            return\n\n" + _INSERT_LOOP,
           "        if not self._newTimedCalls:\n            return\n\n        staged = self._newTimedCalls\n        alive = [c for c in staged if not c.cancelled]\n"
           "        self._cancellations -= len(staged) - len(alive)\n        for c in alive:\n            c.activate_delay()\n            heappush(self._pendingTimedCalls, c)\n"
           "        self._newTimedCalls = []\n"),
    Silent("get-delayed-calls-chain", BASE, "for x in (self._pendingTimedCalls + self._newTimedCalls)", "for x in chain(self._pendingTimedCalls, self._newTimedCalls)",
           more=[(BASE, "from heapq import heapify, heappop, heappush\n", "from heapq import heapify, heappop, heappush\nfrom itertools import chain\n")]),
]
MUTANTS += [
    # the same violations must be seen THROUGH the helpers
    Mutant("selector-helper-strict-boundary", BASE, _RUN_LOOP, "        while (call := self._nextDue(now)) is not None:\n", expect_rule="run/loop-boundary",
           more=[(BASE, _CANCEL_DEF, _SELECTOR.replace("[0].time <= now", "[0].time < now") + _CANCEL_DEF)]),
    Mutant("selector-helper-ignores-delay", BASE, _RUN_LOOP, "        while (call := self._nextDue(now)) is not None:\n", expect_rule="run/not-before-scheduled-time",
           more=[(BASE, _CANCEL_DEF, _SELECTOR.replace("            if picked.delayed_time > 0.0:\n                picked.activate_delay()\n                heappush(self._pendingTimedCalls, picked)\n                continue\n", "") + _CANCEL_DEF)]),
    Mutant("insert-partition-keeps-cancelled", BASE, "        if not self._newTimedCalls:\n            return\n\n" + _INSERT_LOOP,
           "        if not self._newTimedCalls:\n            return\n\n        staged = self._newTimedCalls\n        alive = [c for c in staged if c.cancelled]\n"
           "        self._cancellations -= len(staged) - len(alive)\n        for c in alive:\n            c.activate_delay()\n            heappush(self._pendingTimedCalls, c)\n"
           "        self._newTimedCalls = []\n", expect_rule="model/insert-moves-live-calls"),
]

_GEN_DUE = ('    def _dueNow(self, now):\n        while self._pendingTimedCalls and (self._pendingTimedCalls[0].time <= now):\n            item = heappop(self._pendingTimedCalls)\n'
            '            if item.cancelled:\n                self._cancellations -= 1\n                continue\n            if item.delayed_time > 0.0:\n'
            '                item.activate_delay()\n                heappush(self._pendingTimedCalls, item)\n                continue\n            yield item\n\n')
_COMPACT_BEFORE = ('        if self._cancellations > max(50, len(self._pendingTimedCalls) >> 1):\n            self._cancellations = 0\n'
                   '            kept = [x for x in self._pendingTimedCalls if not x.cancelled]\n            heapify(kept)\n            self._pendingTimedCalls = kept\n')
SILENT += [
    # the run loop consumes a private generator of due calls; compaction heapifies the new list before it becomes the heap
    Silent("generator-of-due-timed-calls", BASE, "        now = self.seconds()\n" + _RUN_LOOP, "        for call in self._dueNow(self.seconds()):\n",
           more=[(BASE, _CANCEL_DEF, _GEN_DUE + _CANCEL_DEF), (BASE, _COMPACT, _COMPACT_BEFORE)]),
]
MUTANTS += [
    Mutant("generator-yields-cancelled-calls", BASE, "        now = self.seconds()\n" + _RUN_LOOP, "        for call in self._dueNow(self.seconds()):\n", expect_rule="run/skips-cancelled",
           more=[(BASE, _CANCEL_DEF, _GEN_DUE.replace("            if item.cancelled:\n                self._cancellations -= 1\n                continue\n", "") + _CANCEL_DEF)]),
    Mutant("new-heap-never-heapified", BASE, _COMPACT, _COMPACT_BEFORE.replace("            heapify(kept)\n", ""), expect_rule="heap/compaction"),
]

_PHASE = ('    def _runDue(self):\n        now = self.seconds()\n        while self._pendingTimedCalls:\n            if not self._pendingTimedCalls[0].time <= now:\n                return\n'
          '            call = heappop(self._pendingTimedCalls)\n            if call.cancelled:\n                self._cancellations -= 1\n            elif call.delayed_time > 0.0:\n'
          '                call.activate_delay()\n                heappush(self._pendingTimedCalls, call)\n            else:\n                self._runOne(call)\n\n'
          '    def _runOne(self, call):\n        with _DEFAULT_DELAYED_CALL_LOGGING_HANDLER:\n            call.called = 1\n            call.func(*call.args, **call.kw)\n\n')
_RUN_BODY = "        now = self.seconds()\n" + _RUN_LOOP
SILENT += [
    # runUntilCurrent as a driver of private phase methods; the due-test as an inner guard that returns from inside the loop
    Silent("phase-methods-with-return-inside-loop", BASE, _RUN_BODY, "        self._runDue()\n        if False:\n",
           more=[(BASE, _CANCEL_DEF, _PHASE + _CANCEL_DEF)]),
]
MUTANTS += [
    Mutant("phase-method-strict-due-test", BASE, _RUN_BODY, "        self._runDue()\n        if False:\n", expect_rule="run/loop-boundary",
           more=[(BASE, _CANCEL_DEF, _PHASE.replace("[0].time <= now", "[0].time < now") + _CANCEL_DEF)]),
    Mutant("phase-method-marks-after-calling", BASE, _RUN_BODY, "        self._runDue()\n        if False:\n", expect_rule="run/called-before-call",
           more=[(BASE, _CANCEL_DEF, _PHASE.replace("            call.called = 1\n            call.func(*call.args, **call.kw)\n", "            call.func(*call.args, **call.kw)\n            call.called = 1\n") + _CANCEL_DEF)]),
]

SILENT += [
    # the log-and-continue manager picked by a private static method with a guard-clause return
    Silent("log-handler-from-static-method", BASE, "            with logHandler:\n", "            with self._failureLogger(call):\n",
           more=[(BASE, _CANCEL_DEF, "    @staticmethod\n    def _failureLogger(call):\n        if not call.creator:\n            return _DEFAULT_DELAYED_CALL_LOGGING_HANDLER\n"
                  "        return _log.failuresHandled(\"while handling timed call\")\n\n" + _CANCEL_DEF)]),
]
MUTANTS += [
    # ... and one arm of that method handing out a manager that does not swallow is still seen
    Mutant("static-handler-method-not-swallowing", BASE, "            with logHandler:\n", "            with self._failureLogger(call):\n", expect_rule="run/isolated",
           more=[(BASE, _CANCEL_DEF, "    @staticmethod\n    def _failureLogger(call):\n        if not call.creator:\n            return contextlib.nullcontext()\n"
                  "        return _log.failuresHandled(\"while handling timed call\")\n\n" + _CANCEL_DEF)]),
]
