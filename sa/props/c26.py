"""C26 - static files and FilePath never escape their directory."""
from __future__ import annotations

import ast
import itertools
import posixpath
from urllib.parse import unquote_to_bytes

from sa.selftest import Mutant, Silent
from sa.source import AnalysisError
from sa.astx import call_attr, call_name, src, walk_local
from sa.source import methods
from sa.props._lib_f import (Abstain, InterpError, ModelRaised, NullLogger, RepoObject, World, enclosing_try_handlers, from_here, handler_names, norm_function,
                             norm_method, param_names, param_uses, structural)

PROPERTY = "C26"
FP = "python/filepath.py"
ST = "web/static.py"
SV = "web/server.py"
RS = "web/resource.py"
TECHNIQUE = "taint/provenance + dominance on the normalised getChild; child()/preauthChild() exhaustively over normpath classes; bounded model-file-system histories"
EXPLANATION = (
    "STRUCTURAL (for every path, on the normalised view with private helpers inlined): in static.File.getChild the request segment reaches the file system only as the "
    "argument of a containment-checked constructor (child / preauthChild / descendant) whose InsecurePath ends in childNotFound; every other use is inert; the other path "
    "builders take configuration only; the upward-looking extension search is confined to `not <path>.exists()` (so never the root); File/Resource do not override "
    "child(); Request.process splits at '/' before unquoting each piece and getChildForRequest passes each popped segment on unchanged.  FINITE-EXHAUSTIVE: child / "
    "preauthChild / descendant over every normpath class x parent class x str/bytes (domain argument checked on the code).  BOUNDED second layer: "
    "FilePath, static.File, server.Request.process (up to the point where postpath is set) and resource.getChildForRequest are instantiated as model objects whose "
    "methods are the repository's own functions, interpreted over the AST (os.path modelled by posixpath, the codecs delegated to CPython, a small model file system "
    "stands for the disk; nothing of twisted is imported or run), so the verdict does not depend on how the code is spelled or which private helpers it uses: (a) "
    "child / preauthChild / descendant on every name built from up to three segments of a hostile alphabet ('', '.', '..', a, root, root-evil, rootx, ..a) plus absolute, "
    "NUL, backslash, doubled-separator and '..'-normalising forms, str and bytes, including parents whose name is not valid UTF-8 in mixed mode: the result is "
    "InsecurePath, the parent itself, a direct child (child) / a path inside the subtree (preauthChild, descendant; F26 fixed), compared byte-wise so a lossy "
    "str/bytes coercion shows, and ordinary names are accepted; (b) static.File.getChild as a whole over hostile segments against a file system with a same-prefix "
    "sibling file and directory and ignoredExts=('.bak',): every resource returned lies inside the root, refusals are childNotFound, nothing raises; (c) "
    "Request.process turns '/a%2Fb/%2e%2e/c' into the segments [a/b, .., c] (split before unquote) and getChildForRequest hands each segment on whole and in "
    "order. Not decided: symbolic links (excluded by the statement), Windows path rules."
)
RULE_KINDS = {
    "static/segment-only-through-child": "structural", "static/insecure-path-handled": "structural", "static/path-builders": "structural",
    "static/upward-footprint-guarded": "structural", "static/child-not-overridden": "structural", "static/undecodable-notfound": "structural",
    "server/split-before-unquote": "structural", "server/segment-passed-whole": "structural",
    "containment/": "finite-exhaustive",
    "static/evaluated-containment": "bounded", "server/evaluated": "bounded",
}
ASSUMPTIONS = ["posixpath.normpath/join/abspath model os.path on the analysed platform (POSIX)",
               "File.indexNames / ignoredExts are administrator configuration, not request data"]

ROOTS = ["/t/root", "/"]
SEGS = ["", ".", "..", "a", "root", "root-evil", "rootx", "..a"]
SPECIAL = ["/etc/passwd", "//etc", "a\x00b", "..\\x", "\\", "a//b", "a/./b", "../root/../root-evil/x", "../../t/root-evil", "../root", "../root/",
           "../root/a", "../rootx", "/t/root-evil/x", "/t/root/a", "/t/root", "a/..", "a/../..", "%2e%2e", "%2e%2e/x", "...", "a/", "/",
           # names that normalise to '..' / to the parent without being literally '..'
           "../", "./..", "x/../..", "..//", "a/../../b", "./../", ".//..", "../.", "x/../../", "x/y/../../..", "../rootsibling/secret.txt", "../root-evil"]


def _names():
    out = []
    for n, alphabet in ((1, SEGS), (2, SEGS), (3, ["", ".", "..", "a", "root-evil"])):
        for combo in itertools.product(alphabet, repeat=n):
            out.append("/".join(combo))
    return sorted(set(out + SPECIAL))



# model file system: a web root, a same-prefix sibling *file* and *directory* next to it, ordinary content
FS = {"/": "dir", "/t": "dir", "/t/www": "dir", "/t/www.bak": "file", "/t/www-evil": "dir", "/t/www-evil/x": "file", "/t/secret": "file",
      "/t/www/a": "file", "/t/www/page.bak": "file", "/t/www/sub": "dir", "/t/www/sub/b": "file", "/t/root": "dir"}


def _b(p):
    return p.encode("utf-8", "surrogateescape") if isinstance(p, str) else p


def _text(p):
    return p.decode("utf-8", "surrogateescape") if isinstance(p, bytes) else p


def _inside(root, p, direct):
    """byte-wise containment (str paths are compared through the lossless surrogateescape encoding, so a lossy coercion shows)"""
    root = _b(root)
    p = posixpath.normpath(_b(p))
    if p == root:
        return True
    base = root.rstrip(b"/") + b"/"
    if not p.startswith(base):
        return False
    rest = p[len(base):]
    return (b"/" not in rest) if direct else True


def _kind(obj):
    return FS.get(posixpath.normpath(_text(obj.path)))


def _fp_world(ctx):
    for fn in ("FilePath.child", "FilePath.preauthChild", "AbstractFilePath.descendant", "FilePath._getPathAsSameTypeAs", "_asFilesystemText", "_asFilesystemBytes",
               "_coerceToFilesystemEncoding"):
        ctx.func(FP, fn)
    ext = {"platform.isWindows": lambda: False, "sys.getfilesystemencoding": lambda: "utf-8",
           "exists": lambda p: posixpath.normpath(_text(p)) in FS,
           "listdir": lambda p: sorted((posixpath.basename(k) if isinstance(p, str) else posixpath.basename(k).encode()) for k in FS
                                       if posixpath.dirname(k) == posixpath.normpath(_text(p)) and k != "/"),
           "comparable": lambda c: c, "implementer": lambda *a: (lambda c: c), "Logger": lambda *a, **k: NullLogger()}
    w = World(ctx.mod(FP), externals=ext)
    # the methods that ask the operating system are answered from the model file system
    w.override("exists", lambda o: _kind(o) is not None)
    w.override("isdir", lambda o: _kind(o) == "dir")
    w.override("isfile", lambda o: _kind(o) == "file")
    w.override("restat", lambda o, *a, **k: None)
    w.override("changed", lambda o: None)
    return w


def _path_of(v):
    return v.path if isinstance(v, RepoObject) else None


def _try(f, *a):
    try:
        return f(*a), None
    except ModelRaised as e:
        return None, e.name


# (parent path, type of the names tried against it, subset of names?)  - the last ones are the mixed-mode cases with a parent name that is not valid UTF-8
PARENTS = [("/t/root", str, False), ("/t/root", bytes, False), ("/", str, True), ("/", bytes, True), (b"/t/root", str, True), (b"/t/root", bytes, True),
           (b"/t/r\xffot", str, True), (b"/t/r\xffot", bytes, True), ("/t/r\udcffot", bytes, True)]


def _semantics(ctx, meth, direct, rule):
    w = _fp_world(ctx)
    q = "twisted.python.filepath.FilePath." + meth
    bad, accepted, n = [], 0, 0
    names = _names()
    short_names = [x for x in names if x.count("/") <= 1][:110]
    for root, mode, subset in PARENTS:
        fp = w.new("FilePath", root)
        if _b(fp.path) != _b(root):
            bad.append((root, "<construction>", f"FilePath({root!r}).path is {fp.path!r}"))
            continue
        for name0 in (short_names if subset else names):
            name = name0.encode("utf-8") if mode is bytes else name0
            n += 1
            val, exc = _try(getattr(fp, meth), name)
            if exc == "InsecurePath":
                continue
            if exc is not None:
                bad.append((root, name, f"raises {exc}"))
            elif _path_of(val) is None or not isinstance(val.path, mode):
                bad.append((root, name, f"returns {getattr(val, 'path', val)!r}"))
            elif not _inside(root, val.path, direct):
                bad.append((root, name, f"returns {val.path!r}"))
            else:
                accepted += 1
        rb = _b(root).rstrip(b"/")
        for name0, want in (("a", rb + b"/a"), ("..a", rb + b"/..a")) + ((("a/root", rb + b"/a/root"),) if not direct else ()):
            name = name0.encode("utf-8") if mode is bytes else name0
            val, exc = _try(getattr(fp, meth), name)
            got = _b(val.path) if _path_of(val) is not None else f"raises {exc}"
            if got != want:
                bad.append((root, name, f"gives {got!r} instead of {want!r}"))
    msg = ""
    if bad:
        r, nm, what = bad[0]
        msg = (f"FilePath({r!r}).{meth}({nm!r}) {what}: not InsecurePath, the parent itself or "
               f"{'a direct child' if direct else 'a path inside the subtree'}; {len(bad)} of {n} names misjudged")
    other = _domain_argument(ctx, meth)
    if other is None or other:
        ctx.note(f"{rule}: the domain argument could not be checked on the code ({other}); the verdict is about the enumerated names only")
        dom = "domain argument NOT verified on this shape: bounded reading"
    else:
        dom = ("domain argument (checked on the normalised code): the name is used only through type(name), normpath(name), equality with constants and messages, so the decision "
               "depends on the normpath class of the name x the parent class; all classes ('.', '..', '../x', '../..', x, x/y, '/x', '//x', with empty / dotted / NUL / backslash "
               "segments) x ('/', '/t/root', non-UTF-8 parent) x (str, bytes) are enumerated")
    ctx.check(not bad, rule, q, msg, detail=f"{n} (parent, name, str/bytes) cases; {accepted} accepted, all contained; {dom}")
    ctx.extra.setdefault("finite_cases", {})[meth] = n


def _descendant(ctx):
    w = _fp_world(ctx)
    q = "twisted.python.filepath.FilePath.descendant"
    singles = sorted(set(SEGS + ["a/b", "../root-evil", "/etc", "x/../..", "../", "./..", "..//", "a/../../b"]))
    cases = [[a_] for a_ in singles] + [[a_, b_] for a_ in singles for b_ in singles] + [["a", "b", ".."], ["a", "..", ".."], ["a", "b", "c"]]
    bad, n = [], 0
    for root, mode in [(r_, m_) for r_ in ROOTS for m_ in (str, bytes)] + [(b"/t/r\xffot", str)]:
        for segs0 in cases if (isinstance(root, str) and root != "/") else cases[:60]:
            segs = [x.encode("utf-8") if mode is bytes else x for x in segs0]
            n += 1
            fp = w.new("FilePath", root)
            val, exc = _try(fp.descendant, segs)
            if exc == "InsecurePath":
                continue
            if exc is not None or _path_of(val) is None or not _inside(root, val.path, False):
                bad.append((root, segs, f"raises {exc}" if exc else f"returns {getattr(val, 'path', val)!r}"))
        for segs0, want in ((["a", "b"], _b(root).rstrip(b"/") + b"/a/b"), ([], _b(root))):
            segs = [x.encode("utf-8") if mode is bytes else x for x in segs0]
            val, exc = _try(w.new("FilePath", root).descendant, segs)
            if exc is not None or _path_of(val) is None or _b(val.path) != want:
                bad.append((root, segs, f"gives {exc or getattr(val, 'path', val)!r} instead of {want!r}"))
    msg = ""
    if bad:
        r, sg, what = bad[0]
        msg = f"FilePath({r!r}).descendant({sg!r}) {what}: not InsecurePath or a path inside the subtree; {len(bad)} of {n} segment lists misjudged"
    ctx.check(not bad, "containment/descendant-semantics", q, msg, detail=f"{n} segment lists")


# ---- static.File.getChild ------------------------------------------------------------------------------------------------------------------
NOTFOUND = "<childNotFound>"
LISTING = "<directory listing>"


class _Req:
    _sa_model = True

    def __init__(self):
        self.args = {b"index": [b"../secret"], b"ext": [b"/../../secret"]}
        self.postpath = []
        self.prepath = []


def _static_world(ctx):
    ctx.func(ST, "File.getChild")
    fw = _fp_world(ctx)
    ext = {"log.err": lambda *a, **k: None, "log.msg": lambda *a, **k: None, "resource.IResource": lambda x: x, "InsensitiveDict": lambda d: d,
           "implementer": lambda *a: (lambda c: c), "Logger": lambda *a, **k: NullLogger()}
    sw = World(ctx.mod(ST), externals=ext, env={"platformType": "posix"}).link(fw)
    sw.override("directoryListing", lambda o: LISTING)
    sw.override("createSimilarFile", lambda o, path: ("File", path))
    for nm, f in fw.overrides.items():
        sw.override(nm, f)
    return sw


def _file(sw, root):
    return sw.bare("File", path=root, childNotFound=NOTFOUND, indexNames=["index", "index.html"], ignoredExts=(".bak",), processors={}, registry=None, type=None,
                   alwaysCreate=False)


def _static_evaluated(ctx):
    sw = _static_world(ctx)
    q = "twisted.web.static.File.getChild"
    root = "/t/www"
    segs = sorted(set(SEGS + SPECIAL + ["a", "page", "sub", "www", "www.bak", "../www.bak", ".", "./", ".//", "sub/..", "a/..", "x/..", "sub/../", "..", "../", "../www", "../www/",
                                        "../www/a", "../www-evil", "../www-evil/x", "../secret", "/t/secret", "www-evil", "page.bak", "nothere", ""]))
    bad = []
    n = 0
    for s0 in segs:
        n += 1
        val, exc = _try(_file(sw, root).getChild, s0.encode("utf-8", "surrogateescape"), _Req())
        if exc is not None:
            bad.append((s0, f"raises {exc}"))
        elif isinstance(val, tuple) and val and val[0] == "File":
            if not _inside(root, val[1], False):
                bad.append((s0, f"serves {val[1]!r}"))
        elif val not in (NOTFOUND, LISTING):
            bad.append((s0, f"returns {val!r}"))
    for seg, want in ((b"a\xff", NOTFOUND), (b"a", ("File", "/t/www/a")), (b"page", ("File", "/t/www/page.bak")), (b"nothere", NOTFOUND), (b"", LISTING), (b"sub", ("File", "/t/www/sub"))):
        val, exc = _try(_file(sw, root).getChild, seg, _Req())
        if exc is not None or val != want:
            bad.append((seg.decode("latin-1"), f"gives {exc or val!r} instead of {want!r}"))
    msg = ""
    if bad:
        sg, why = bad[0]
        msg = (f"static.File('/t/www').getChild({sg.encode('utf-8', 'surrogateescape')!r}) {why}: outside the directory tree / not the expected resource (model file system with a sibling file "
               f"/t/www.bak and directory /t/www-evil, ignoredExts=('.bak',)); {len(bad)} of {n} segments misjudged")
    ctx.check(not bad, "static/evaluated-containment", q, msg, detail=f"{n} request segments")


# ---- server side ------------------------------------------------------------------------------------------------------------------------------
class _Anything:
    """permissive stand-in for collaborators that do not matter to the clause (site, channel, header setters ...)"""
    _sa_model = True
    _sa_settable = True

    def __getattr__(self, name):
        if name.startswith("__"):
            raise AttributeError(name)
        return _Anything()

    def __call__(self, *a, **k):
        return _Anything()


def _server(ctx):
    f = ctx.func(SV, "Request.process")
    q = "twisted.web.server.Request.process"
    # the prefix of process() up to (and including) the top-level statement that assigns self.postpath
    upto = None
    for i, st in enumerate(f.body):
        if any(isinstance(x, ast.Attribute) and x.attr == "postpath" and isinstance(x.ctx, ast.Store) for x in ast.walk(st)):
            upto = i
            break
    ctx.need(upto is not None, "an assignment to self.postpath in Request.process")
    prefix = ast.FunctionDef(name="process_prefix", args=f.args, body=list(f.body[:upto + 1]), decorator_list=[])
    ext = {"unquote": unquote_to_bytes, "datetimeToString": lambda *a: b"date", "implementer": lambda *a: (lambda c: c), "Logger": lambda *a, **k: NullLogger()}
    w = World(ctx.mod(SV), externals=ext, env={"version": b"TwistedWeb"})
    w.override("setHeader", lambda o, *a, **k: None)
    w.override("_handleStar", lambda o, *a, **k: None)
    w.override("render", lambda o, *a, **k: None)
    w.override("processingFailed", lambda o, *a, **k: None)
    bad = []
    for path, want in ((b"/a%2Fb/%2e%2e/c", [b"a/b", b"..", b"c"]), (b"/x/y", [b"x", b"y"]), (b"/..%2f/rootsibling/secret.txt", [b"../", b"rootsibling", b"secret.txt"]),
                       (b"/a//b", [b"a", b"", b"b"]), (b"/%2F", [b"/"]), (b"/", [b""])):
        req = w.bare("Request", path=path, channel=_Anything(), site=_Anything(), method=b"GET")
        try:
            w.call(prefix, (), selfobj=req)
            got = req.postpath
        except ModelRaised as e:
            got = f"raises {e.name}"
        if got != want:
            bad.append((path, got, want))
    ctx.check(not bad, "server/evaluated", q + " | postpath", f"request path {bad[0][0]!r} becomes the segments {bad[0][1]!r} instead of {bad[0][2]!r}: the path is not split at '/' before each piece "
              "is unquoted (an encoded separator would create extra segments / '..' pieces that bypass the per-segment checks)" if bad else "")
    # traversal hands every segment on whole and in order
    ctx.func(RS, "getChildForRequest")
    rw = World(ctx.mod(RS), externals={"implementer": lambda *a: (lambda c: c)})

    class _Res:
        _sa_model = True

        def __init__(self, log, leaf_after):
            self.log, self.leaf_after = log, leaf_after

        @property
        def isLeaf(self):
            return len(self.log) >= self.leaf_after

        def getChildWithDefault(self, name, request):
            self.log.append(name)
            return self
    for segs, leaf_after, want in (([b"a/b", b"..", b"c"], 99, [b"a/b", b"..", b"c"]), ([b"x", b"y", b"z"], 2, [b"x", b"y"]), ([], 99, [])):
        req = _Req()
        req.postpath = list(segs)
        log = []
        res, exc = _try(rw.resolve("getChildForRequest"), _Res(log, leaf_after), req)
        ok = exc is None and log == want and req.prepath == want and req.postpath == segs[len(want):] and isinstance(res, _Res)
        ctx.check(ok, "server/evaluated", "twisted.web.resource.getChildForRequest" + f" | {segs}",
                  f"traversal of {segs}: children asked {log}, prepath {req.prepath}, postpath left {req.postpath}, raises {exc} (each segment whole, in order, until a leaf)")
    ctx.func(RS, "Resource.getChildWithDefault")
    seen = []
    robj = rw.bare("Resource", children={b"static": "<registered child>"})
    rw.override("getChild", lambda o, path, request: seen.append(path) or "<dynamic child>")
    r1, e1 = _try(robj.getChildWithDefault, b"a/b", _Req())
    r2, e2 = _try(robj.getChildWithDefault, b"static", _Req())
    ctx.check(e1 is None and e2 is None and seen == [b"a/b"] and r1 == "<dynamic child>" and r2 == "<registered child>", "server/evaluated",
              "twisted.web.resource.Resource.getChildWithDefault", f"getChildWithDefault: getChild saw {seen}, results {r1!r}/{r2!r}, raises {e1 or e2}")


# ==================================================================================================================================
# STRUCTURAL layer (for-all verdicts on the normalised view: private helpers inlined, pure temporaries substituted)
# ==================================================================================================================================
SANITISERS = {"self.child", "self.preauthChild", "self.descendant"}          # each proven contained by the finite-exhaustive containment/* rules
INERT = {"isinstance", "log.err", "log.msg", "repr", "len", "bool", "str"}
UPWARD = {"siblingExtensionSearch", "siblingExtension", "sibling", "parent", "dirname", "basename", "realpath"}
PATH_SINKS = {"clonePath", "joinpath", "join", "FilePath", "File", "open", "abspath", "normpath", "createSimilarFile", "childSearchPreauth", "siblingExtensionSearch",
              "sibling", "siblingExtension", "listdir", "exists", "isdir", "isfile", "stat", "remove", "makedirs"}


def _taint_getchild(ctx):
    """Provenance: on EVERY path of File.getChild the request segment reaches the file system only as the argument of a containment-checked constructor
    (child / preauthChild / descendant), whose InsecurePath is turned into childNotFound; configured lists are the only other path sources."""
    f = norm_method(ctx, ST, "File", "getChild")
    g = ctx.cfg(f)
    q = "twisted.web.static.File.getChild"
    seg = param_names(f)[1]
    reqp = param_names(f)[2] if len(param_names(f)) > 2 else "request"
    tainted = {seg}
    assigns = [s_ for s_ in walk_local(f) if isinstance(s_, ast.Assign)]
    changed = True
    while changed:
        changed = False
        for s_ in assigns:
            v = s_.value
            if isinstance(v, ast.Call) and call_name(v) in SANITISERS:
                continue
            if any(isinstance(x, ast.Name) and x.id in tainted for x in ast.walk(v)):
                for t in s_.targets:
                    for x in ast.walk(t):
                        if isinstance(x, ast.Name) and x.id not in tainted:
                            tainted.add(x.id)
                            changed = True

    def mentions(node, names=None):
        names = tainted if names is None else names
        return any(isinstance(x, ast.Name) and x.id in names for x in ast.walk(node))
    from sa.props._lib_f import expr_guards, parent_map
    parents = parent_map(f)

    def only_reported(node):
        """the value of ``node`` ends up in nothing but a diagnostic: some enclosing call is a logging / inert call, or the value is dropped (an expression statement)"""
        cur = node
        while id(cur) in parents:
            par = parents[id(cur)]
            if isinstance(par, ast.Call) and cur is not par.func and (call_name(par) or "") in INERT:
                return True
            if isinstance(par, ast.stmt):
                return isinstance(par, ast.Expr)
            cur = par
        return False

    def is_formatting(c):
        """a call that only renders its arguments into text: '<literal>'.format(...), format(), repr(), str(), '%'-formatting is handled with the operators"""
        if isinstance(c.func, ast.Attribute) and c.func.attr in ("format", "format_map", "join") and isinstance(c.func.value, (ast.Constant, ast.JoinedStr)):
            return True
        return (call_name(c) or "") in ("format", "repr", "str", "ascii")
    nsan = 0
    for c in [c for c in walk_local(f) if isinstance(c, ast.Call)]:
        args = list(c.args) + [k.value for k in c.keywords]
        cn = call_name(c) or ""
        if not any(mentions(a_) for a_ in args):
            continue
        if is_formatting(c) and only_reported(c):
            ctx.ok("static/segment-only-through-child", q + " | inert use: the segment is formatted into a diagnostic message")
            continue
        if cn in SANITISERS:
            nsan += 1
            ctx.check(len(c.args) == 1 and isinstance(c.args[0], ast.Name), "static/segment-only-through-child", ctx.construct(q, c) if False else q + f" | {cn}(segment)",
                      "the request segment is transformed before it reaches the containment-checked constructor")
            hs = enclosing_try_handlers(f, c)
            handled = [h for h in hs if {"InsecurePath", "Exception", "<bare>", "BaseException"} & set(handler_names(h))]
            ctx.check(bool(handled), "static/insecure-path-handled", q + f" | {cn}(segment)", "InsecurePath raised for a hostile segment is not handled (500 instead of not-found)")
            for h in handled:
                rets = [n for n in g.ids(lambda x: x.kind == "stmt" and isinstance(x.ast, ast.Return)) if src(g.node(n).ast.value) == "self.childNotFound"]
                w = from_here(g, g.ids_of(h), rets)
                ctx.check(w is None, "static/insecure-path-handled", q + " | except InsecurePath", "a refused segment does not end in childNotFound", witness=g.describe(w))
        elif cn in INERT or (isinstance(c.func, ast.Attribute) and c.func.attr == "decode" and mentions(c.func.value)):
            ctx.ok("static/segment-only-through-child", q + f" | inert use: {cn or 'decode'}")
        elif cn.startswith("self._") and call_attr(c) not in PATH_SINKS:
            raise Abstain(f"the segment is passed to the private helper {cn}, which the normaliser did not inline")
        else:
            ctx.violation("static/segment-only-through-child", q + f" | {cn or src(c.func)}(segment)",
                          "the request path segment is passed to a call other than the containment-checked constructors: it can name a file outside the directory "
                          "(no separator / '..' rejection)")
    for c in [c for c in walk_local(f) if isinstance(c, ast.Call) and isinstance(c.func, ast.Attribute) and mentions(c.func.value) and c.func.attr not in ("decode",)]:
        ctx.violation("static/segment-only-through-child", q + f" | segment.{c.func.attr}()", "a method of the raw request segment is used to derive a path")
    for b in [b for b in walk_local(f) if isinstance(b, ast.BinOp) and mentions(b)]:
        if isinstance(b.op, ast.Mod) and isinstance(b.left, (ast.Constant, ast.JoinedStr)) and only_reported(b):
            continue          # '%'-formatting of the segment into a diagnostic message
        ctx.violation("static/segment-only-through-child", q + " | <operator on the segment>", "the request segment is combined into a path by an operator")
    if nsan == 0:
        raise Abstain("no containment-checked constructor is applied to the segment in the normalised getChild")
    ctx.ok("static/segment-only-through-child", q + " | <every use of the segment>", f"{nsan} sanitiser site(s); all other uses inert")
    # the other path sources are configuration, never request data
    for c in [c for c in walk_local(f) if isinstance(c, ast.Call) and call_attr(c) in ("childSearchPreauth", "siblingExtensionSearch", "siblingExtension", "sibling", "createSimilarFile")]:
        bad_names = {x.id for a_ in c.args for x in ast.walk(a_) if isinstance(x, ast.Name)} & (tainted | {reqp})
        ctx.check(not bad_names, "static/path-builders", q + f" | {call_attr(c)}(...)", f"{call_attr(c)}() is fed from request data ({sorted(bad_names)}): these builders do no containment check")
    # upward footprint: the extension search looks into the PARENT of its receiver; it may only run on a path proven not to be the root itself
    for c in [c for c in walk_local(f) if isinstance(c, ast.Call) and call_attr(c) in UPWARD and isinstance(c.func, ast.Attribute)]:
        recv = src(c.func.value)
        if recv == "self":
            ctx.violation("static/upward-footprint-guarded", q + f" | self.{c.func.attr}()", "an upward-looking operation is applied to the root itself")
            continue
        nid = g.ids_of(c)
        guards = [(src(g.node(t).ast), lab) for n_ in nid for t, lab in g.edge_guards(n_)]
        # ... and the guards inside the expression itself: `x if x.exists() else x.siblingExtensionSearch(..)`, `x.exists() or ...`
        for te, lab in expr_guards(parents, c):
            neg = False
            while isinstance(te, ast.UnaryOp) and isinstance(te.op, ast.Not):
                te, neg = te.operand, not neg
            guards.append((src(te), lab if not neg else ("F" if lab == "T" else "T")))
        ok = (f"{recv}.exists()", "F") in guards
        ctx.check(ok, "static/upward-footprint-guarded", q + f" | <path>.{c.func.attr}()",
                  f"{recv}.{c.func.attr}() looks into the parent directory of {recv}; it is not confined to `{recv}.exists()` being false (child('.') is the existing root: its siblings "
                  f"'<root><ext>' would be served); guards found: {guards}")


def _undecodable(ctx):
    f = norm_method(ctx, ST, "File", "getChild")
    g = ctx.cfg(f)
    q = "twisted.web.static.File.getChild"
    seg = param_names(f)[1]
    names = {seg}          # the parameter and the local names it is copied to (`segment = path`)
    for _ in range(3):
        for s_ in walk_local(f):
            if isinstance(s_, ast.Assign) and isinstance(s_.value, ast.Name) and s_.value.id in names:
                names |= {t.id for t in s_.targets if isinstance(t, ast.Name)}
    dec = [c for c in walk_local(f) if isinstance(c, ast.Call) and call_attr(c) == "decode" and isinstance(c.func, ast.Attribute) and src(c.func.value) in names]
    if len(dec) != 1:
        raise Abstain(f"{len(dec)} decode sites of the segment")
    hs = enclosing_try_handlers(f, dec[0])
    hh = [h for h in hs if {"UnicodeDecodeError", "UnicodeError", "ValueError", "Exception"} & set(handler_names(h))]
    if not hh:
        ctx.violation("static/undecodable-notfound", q + " | segment.decode()", "a segment that is not valid UTF-8 raises out of getChild (500)")
        return
    rets = [n for n in g.ids(lambda x: x.kind == "stmt" and isinstance(x.ast, ast.Return)) if src(g.node(n).ast.value) == "self.childNotFound"]
    if not all(from_here(g, g.ids_of(h), rets) is None for h in hh):
        raise Abstain("the decode-error handler does not return childNotFound directly")
    ctx.ok("static/undecodable-notfound", q + " | segment.decode()")


def _not_overridden(ctx):
    for rel, cn in ((ST, "File"), (RS, "Resource")):
        ms = methods(ctx.cls(rel, cn))
        ctx.check(not ({"child", "preauthChild", "descendant"} & set(ms)), "static/child-not-overridden", f"{rel}:{cn}", "child()/preauthChild() is overridden, FilePath's containment check no longer applies")
    bases = [src(b) for b in ctx.cls(ST, "File").bases]
    ctx.check(any(b.startswith("filepath.FilePath") for b in bases), "static/child-not-overridden", "twisted.web.static.File | bases", f"File no longer derives from filepath.FilePath: {bases}")


def _server_structural(ctx):
    f = norm_method(ctx, SV, "Request", "process")
    q = "twisted.web.server.Request.process"
    sts = [s_ for s_ in walk_local(f) if isinstance(s_, ast.Assign) and any(src(t) == "self.postpath" for t in s_.targets)]
    if len(sts) != 1:
        raise Abstain(f"{len(sts)} assignments to self.postpath")
    v = sts[0].value
    while isinstance(v, ast.Call) and call_name(v) in ("list", "tuple") and len(v.args) == 1:
        v = v.args[0]
    per_piece = split_expr = None
    if isinstance(v, ast.Call) and call_name(v) == "map" and len(v.args) == 2:
        per_piece, split_expr = src(v.args[0]), v.args[1]
    elif isinstance(v, (ast.ListComp, ast.GeneratorExp)) and len(v.generators) == 1 and isinstance(v.elt, ast.Call) and [src(a_) for a_ in v.elt.args] == [src(v.generators[0].target)]:
        per_piece, split_expr = call_name(v.elt), v.generators[0].iter
    if per_piece is None:
        if "unquote" in src(v) and ".split(" in src(v):
            inner = [c for c in ast.walk(v) if isinstance(c, ast.Call) and call_attr(c) == "split"]
            if inner and any("unquote" in src(c.func.value) for c in inner):
                ctx.violation("server/split-before-unquote", q + " | self.postpath", "the request path is unquoted BEFORE it is split at '/': %2F creates extra segments / '..' pieces")
                return
        raise Abstain("postpath is not built by map()/a comprehension over a split")
    for _ in range(3):          # a named temporary holding the pieces (the normaliser substitutes it when it can prove it pure)
        if isinstance(split_expr, ast.Name):
            ds = [s_.value for s_ in walk_local(f) if isinstance(s_, ast.Assign) and any(isinstance(t, ast.Name) and t.id == split_expr.id for t in s_.targets)]
            if len(ds) != 1:
                raise Abstain(f"{len(ds)} definitions of `{split_expr.id}`, the sequence postpath is built from")
            split_expr = ds[0]
    if not (isinstance(split_expr, ast.Call) and call_attr(split_expr) == "split"):
        raise Abstain(f"the sequence postpath is built from is `{src(split_expr)}`, not a split")
    ok = per_piece == "unquote" and [src(a_) for a_ in split_expr.args] == ["b'/'"] and "unquote" not in src(split_expr.func.value)
    ctx.check(ok, "server/split-before-unquote", q + " | self.postpath",
              "the request path is not split at '/' before each piece is unquoted: %2F would create extra segments / '..' pieces that bypass per-segment checks")
    f = norm_function(ctx, RS, "getChildForRequest")
    q = "twisted.web.resource.getChildForRequest"
    pops = [s_ for s_ in walk_local(f) if isinstance(s_, ast.Assign) and isinstance(s_.value, ast.Call) and call_name(s_.value) == "request.postpath.pop" and isinstance(s_.targets[0], ast.Name)]
    gcs = [c for c in walk_local(f) if isinstance(c, ast.Call) and call_attr(c) == "getChildWithDefault"]
    if len(pops) != 1 or len(gcs) != 1:
        raise Abstain(f"{len(pops)} pop sites / {len(gcs)} getChildWithDefault sites in getChildForRequest")
    x = pops[0].targets[0].id
    ok = [src(a_) for a_ in pops[0].value.args] == ["0"] and [src(a_) for a_ in gcs[0].args] == [x, "request"]
    ctx.check(ok, "server/segment-passed-whole", q, "the traversal does not hand each popped postpath segment (first to last) unchanged to getChildWithDefault")


def _domain_argument(ctx, meth):
    """the containment decision depends on the name only through type(name), normpath(name) and equality with constants: then the normpath classes enumerated by the grid are exhaustive"""
    try:
        f = norm_method(ctx, FP, "FilePath", meth)
    except Abstain:
        return None
    p = param_names(f)[1]
    other = []
    for u in param_uses(f, p):
        if isinstance(u, ast.JoinedStr):
            continue
        if isinstance(u, ast.Call) and isinstance(u.func, ast.Attribute) and u.func.attr in ("format", "format_map") and isinstance(u.func.value, (ast.Constant, ast.JoinedStr)):
            continue          # rendered into a message (the text of an exception): not part of the decision
        if isinstance(u, ast.BinOp) and isinstance(u.op, ast.Mod) and isinstance(u.left, (ast.Constant, ast.JoinedStr)):
            continue
        if isinstance(u, ast.Call):
            cn = call_name(u) or ""
            if cn in ("normpath", "os.path.normpath", "_coerceToFilesystemEncoding", "self._getPathAsSameTypeAs", f"{p}.count", "isinstance", "type") or cn.startswith("self._"):
                continue
        if isinstance(u, ast.Compare) and all(isinstance(o, (ast.Eq, ast.NotEq, ast.In, ast.NotIn)) for o in u.ops):
            continue
        other.append(src(u)[:50])
    return other


def check(ctx):
    sections = (("taint", lambda c: structural(c, "static/segment-only-through-child", "static/evaluated-containment (bounded)", _taint_getchild, c)),
                ("undecodable", lambda c: structural(c, "static/undecodable-notfound", "static/evaluated-containment (bounded)", _undecodable, c)),
                ("not-overridden", _not_overridden),
                ("server-structural", lambda c: structural(c, "server/split-before-unquote", "server/evaluated (bounded)", _server_structural, c)),
                ("child", lambda c: _semantics(c, "child", True, "containment/child-semantics")), ("preauthChild", lambda c: _semantics(c, "preauthChild", False, "containment/preauth-semantics")),
                ("descendant", _descendant), ("static-evaluated", _static_evaluated), ("server", _server))
    for name, fn in sections:
        with ctx.section(name):
            try:
                fn(ctx)
            except (InterpError, ModelRaised) as e:      # an exception of the interpreted code that no scenario expected is confined to this section
                raise AnalysisError(f"C26/{name}: the code uses a construct the evaluator cannot interpret: {e}")


MUTANTS = [
    Mutant("extension-search-in-the-wrong-arm-of-a-conditional-expression", ST, "        if not fpath.exists():\n            fpath = fpath.siblingExtensionSearch(*self.ignoredExts)\n            if fpath is None:\n                return self.childNotFound\n",
           "        found = fpath.siblingExtensionSearch(*self.ignoredExts) if fpath.exists() else fpath\n        if found is None:\n            return self.childNotFound\n        fpath = found\n",
           expect_rule="static/upward-footprint-guarded"),
    Mutant("segment-formatted-into-a-path", ST, "                fpath = self.child(path)\n", "                fpath = self.preauthChild(\"{}\".format(path))\n", expect_rule="static/segment-only-through-child"),
    Mutant("revert-F26-bare-prefix-test", FP, "        if newpath != ourPath and not newpath.startswith(ourPath.rstrip(sep) + sep):", "        if not newpath.startswith(ourPath):"),
    Mutant("child-drops-separator-test", FP, "        if sep in norm:\n            raise InsecurePath(f\"{path!r} contains one or more directory separators\")\n", ""),
    Mutant("child-checks-raw-name-for-separator", FP, "        norm = normpath(path)\n        if sep in norm:", "        norm = normpath(path)\n        if norm.startswith(sep):"),
    Mutant("child-prefix-test-dropped", FP, "        if not newpath.startswith(ourPath):\n            raise InsecurePath(f\"{newpath!r} is not a child of {ourPath!r}\")\n        return self.clonePath(newpath)\n\n    def preauthChild",
           "        return self.clonePath(newpath)\n\n    def preauthChild"),
    Mutant("preauth-joins-without-normalising", FP, "        newpath = abspath(joinpath(ourPath, normpath(path)))\n        if newpath != ourPath and", "        newpath = joinpath(ourPath, normpath(path))\n        if newpath != ourPath and"),
    Mutant("preauth-no-trailing-separator", FP, "not newpath.startswith(ourPath.rstrip(sep) + sep):", "not newpath.startswith(ourPath.rstrip(sep)):"),
    Mutant("extension-search-also-for-directories", ST, "        if not fpath.exists():\n            fpath = fpath.siblingExtensionSearch(*self.ignoredExts)\n            if fpath is None:\n                return self.childNotFound\n",
           "        if not fpath.exists() or fpath.isdir():\n            found = fpath.siblingExtensionSearch(*self.ignoredExts)\n            if found is None and not fpath.exists():\n                return self.childNotFound\n            fpath = found or fpath\n"),
    Mutant("coercion-to-text-is-lossy", FP, "        return path.decode(encoding, errors=\"surrogateescape\")", "        return path.decode(encoding, errors=\"ignore\")"),
    Mutant("getChild-joins-directly", ST, "                fpath = self.child(path)\n", "                fpath = self.clonePath(os.path.join(self.path, path))\n"),
    Mutant("getChild-insecurepath-unhandled", ST, "            try:\n                fpath = self.child(path)\n            except filepath.InsecurePath:\n                return self.childNotFound\n",
           "            fpath = self.child(path)\n"),
    Mutant("process-unquotes-before-split", SV, "        self.postpath = list(map(unquote, self.path[1:].split(b\"/\")))", "        self.postpath = unquote(self.path[1:]).split(b\"/\")"),
    Mutant("descendant-joins-segments-directly", FP, "        for name in segments:\n            path = path.child(name)\n        return path", "        for name in segments:\n            path = path.clonePath(joinpath(path.path, name))\n        return path"),
    Mutant("child-only-refuses-literal-pardir", FP, "        norm = normpath(path)\n        if sep in norm:\n            raise InsecurePath(f\"{path!r} contains one or more directory separators\")\n\n        newpath = abspath(joinpath(ourPath, norm))\n        if not newpath.startswith(ourPath):\n            raise InsecurePath(f\"{newpath!r} is not a child of {ourPath!r}\")\n        return self.clonePath(newpath)\n\n    def preauthChild",
           "        if path == _coerceToFilesystemEncoding(path, os.pardir):\n            raise InsecurePath(f\"{path!r} is the parent directory\")\n        norm = normpath(path)\n        if sep in norm:\n            raise InsecurePath(f\"{path!r} contains one or more directory separators\")\n        # norm is one segment and ourPath is absolute: no second look needed\n        return self.clonePath(joinpath(ourPath, norm))\n\n    def preauthChild"),
    Mutant("index-search-from-request", ST, "            fpath = self.childSearchPreauth(*self.indexNames)", "            fpath = self.childSearchPreauth(*(request.args.get(b\"index\") or self.indexNames))"),
]
SILENT = [
    Silent("extension-search-as-a-conditional-expression", ST, "        if not fpath.exists():\n            fpath = fpath.siblingExtensionSearch(*self.ignoredExts)\n            if fpath is None:\n                return self.childNotFound\n",
           "        found = fpath if fpath.exists() else fpath.siblingExtensionSearch(*self.ignoredExts)\n        if found is None:\n            return self.childNotFound\n        fpath = found\n"),
    Silent("undecodable-segment-reported-with-str-format", ST, "                log.err(None, f\"Could not decode path segment as utf-8: {path!r}\")\n",
           "                log.err(None, \"Could not decode path segment as utf-8: {!r}\".format(path))\n"),
    Silent("undecodable-segment-reported-with-percent-format", ST, "                log.err(None, f\"Could not decode path segment as utf-8: {path!r}\")\n",
           "                log.err(None, \"Could not decode path segment as utf-8: %r\" % (path,))\n"),
    # since F26 is fixed preauthChild is itself contained: serving through it keeps every resource inside the tree (the property's clause for static files)
    Silent("getChild-through-preauthChild-still-contained", ST, "                fpath = self.child(path)\n", "                fpath = self.preauthChild(path)\n"),
    Silent("child-with-extracted-static-helpers", FP, "        newpath = abspath(joinpath(ourPath, norm))\n        if not newpath.startswith(ourPath):\n            raise InsecurePath(f\"{newpath!r} is not a child of {ourPath!r}\")\n        return self.clonePath(newpath)\n\n    def preauthChild",
           "        newpath = self._joined(ourPath, norm)\n        if not newpath.startswith(ourPath):\n            raise self._refusal(newpath, ourPath)\n        return self.clonePath(newpath)\n\n    @staticmethod\n    def _joined(base, rel):\n        return abspath(joinpath(base, rel))\n\n    @staticmethod\n    def _refusal(newpath, ourPath):\n        return InsecurePath(f\"{newpath!r} is not a child of {ourPath!r}\")\n\n    def preauthChild"),
    Silent("getChild-decode-in-helper", ST, "            try:\n                # Request calls urllib.unquote on each path segment,\n                # leaving us with raw bytes.\n                path = path.decode(\"utf-8\")\n            except UnicodeDecodeError:\n                log.err(None, f\"Could not decode path segment as utf-8: {path!r}\")\n                return self.childNotFound\n",
           "            path = self._textSegment(path)\n            if path is None:\n                return self.childNotFound\n",
           more=[(ST, "    # methods to allow subclasses to e.g. decrypt files on the fly:\n", "    def _textSegment(self, raw):\n        try:\n            return raw.decode(\"utf-8\")\n        except UnicodeDecodeError:\n            log.err(None, f\"Could not decode path segment as utf-8: {raw!r}\")\n            return None\n\n    # methods to allow subclasses to e.g. decrypt files on the fly:\n")]),
    Silent("traversal-loop-while-true", RS, "    while request.postpath and not resource.isLeaf:\n        pathElement = request.postpath.pop(0)\n        request.prepath.append(pathElement)\n        resource = resource.getChildWithDefault(pathElement, request)\n    return resource",
           "    node = resource\n    while True:\n        if node.isLeaf or not request.postpath:\n            return node\n        piece = request.postpath.pop(0)\n        request.prepath.append(piece)\n        node = node.getChildWithDefault(piece, request)"),
    Silent("extension-search-guard-rewritten", ST, "        if not fpath.exists():\n            fpath = fpath.siblingExtensionSearch(*self.ignoredExts)\n            if fpath is None:\n                return self.childNotFound\n",
           "        if fpath.exists():\n            pass\n        else:\n            found = fpath.siblingExtensionSearch(*self.ignoredExts)\n            if found is None:\n                return self.childNotFound\n            fpath = found\n"),
    Silent("coercion-explicit-codec-lookup", FP, "        if encoding is None:\n            encoding = sys.getfilesystemencoding()\n        return path.decode(encoding, errors=\"surrogateescape\")",
           "        codec = encoding if encoding is not None else sys.getfilesystemencoding()\n        return path.decode(codec, \"surrogateescape\")"),
    Silent("descendant-via-preauthChild-still-contained", FP, "        for name in segments:\n            path = path.child(name)\n        return path", "        for name in segments:\n            path = path.preauthChild(name)\n        return path"),
    Silent("child-explicit-pardir-test-keeps-recheck", FP, "        norm = normpath(path)\n        if sep in norm:", "        if path == _coerceToFilesystemEncoding(path, os.pardir):\n            raise InsecurePath(f\"{path!r} is the parent directory\")\n        norm = normpath(path)\n        if sep in norm:"),
    Silent("preauth-commonpath-real", FP, "        if newpath != ourPath and not newpath.startswith(ourPath.rstrip(sep) + sep):", "        if os.path.commonpath([newpath, ourPath]) != ourPath:"),
    Silent("preauth-commonpath-form", FP, "        if newpath != ourPath and not newpath.startswith(ourPath.rstrip(sep) + sep):", "        if newpath != ourPath and not (newpath + sep).startswith(ourPath.rstrip(sep) + sep):"),
    Silent("child-separator-aware-too", FP, "        if not newpath.startswith(ourPath):\n            raise InsecurePath(f\"{newpath!r} is not a child of {ourPath!r}\")\n        return self.clonePath(newpath)\n\n    def preauthChild",
           "        if newpath != ourPath and not newpath.startswith(ourPath.rstrip(sep) + sep):\n            raise InsecurePath(f\"{newpath!r} is not a child of {ourPath!r}\")\n        return self.clonePath(newpath)\n\n    def preauthChild"),
    Silent("process-comprehension", SV, "        self.postpath = list(map(unquote, self.path[1:].split(b\"/\")))", "        self.postpath = [unquote(piece) for piece in self.path[1:].split(b\"/\")]"),
    Silent("getChild-rename-local", ST, "                fpath = self.child(path)\n            except filepath.InsecurePath:\n                return self.childNotFound\n        else:\n            fpath = self.childSearchPreauth(*self.indexNames)\n            if fpath is None:",
           "                fpath = self.child(path)\n            except filepath.InsecurePath as e:\n                del e\n                return self.childNotFound\n        else:\n            fpath = self.childSearchPreauth(*self.indexNames)\n            if fpath is None:"),
]
